"""C02 (extension) — the witness side is written as the Conway CDDL prescribes.

Theorems: Props/C02_WitnessCodec.lean (`wsItem x = transactionWitnessSet (absWS x)`: the model of `to_primitive` builds
the item the CDDL rule builds; struct-map keys ascending; redeemer map in canonical key order).  This module evaluates
the property directly on /repo and ties both sides of the theorem to it:

  implementation bytes  ==  reference bytes            (the property; the reference is independent of pycardano)
  implementation bytes  ==  model bytes   (`wc.ws.enc`: the model says what the code does)
  reference bytes       ==  Lean CDDL transliteration bytes (`wc.spec.ws`: the specification the theorem is about is the
                                                             CDDL the independent reference encoder implements)

Two content streams, both within the CDDL (sets not empty, 32-byte keys, 64-byte signatures, index < 2^32, units < 2^64):
  wc2-ws    content of vlib/wcgen.py: case i carries the field subset i mod 256 (0 excluded from the reference encoder of
            ref/conway.py only when empty), boundary indices / units, both redeemer forms, list / OrderedSet /
            NonEmptyOrderedSet hand-over, 23..25 and 256 elements; reference = the CDDL tree of wcgen over ref/cbor_ref.py
  wc2-conway content of vlib/txgen.py (`gen_wits`, the content model of ref/conway.py) built by `txgen.to_pycardano`;
            reference = ref/conway.py `encode_part("witness_set", …)`
plus the parts that are serializable objects of their own (vkey witness, redeemer, redeemer map)."""
from __future__ import annotations

import random

from ref import cbor_ref as R
from ref import conway as C
from vlib import txgen as T
from vlib import wcgen as G
from vlib.wcgen import EXT

from pycardano import plutus as P


def attempt(f):
    try:
        return f(), None
    except Exception as e:  # noqa: BLE001
        return None, e


def model(ctx, req):
    if not ctx.have_driver():
        return None
    k, m = ctx.driver().call(req)
    ctx.traces += 1
    if k != "ok":
        ctx.diff(req["op"], {"ext": EXT, "request": req}, m, "driver answer")
        return None
    return m


def first_difference(exp, got):
    try:
        a, b = R.dec(exp), R.dec(got)
    except Exception:  # noqa: BLE001
        return " (emitted bytes are not well-formed CBOR for the reference decoder)"
    if isinstance(a, R.Map) and isinstance(b, R.Map):
        ka, kb = [k for k, _ in a.pairs], [k for k, _ in b.pairs]
        if ka != kb:
            return f" (map keys {ka} expected, {kb} emitted)"
        for (k, v), (_, v2) in zip(a.pairs, b.pairs):
            if R.enc(v) != R.enc(v2):
                return f" (under key {k}: {R.enc(v).hex()[:60]} expected, {R.enc(v2).hex()[:60]} emitted)"
    return ""


def keys_ascending(b):
    t = R.dec(b)
    ks = [k for k, _ in t.pairs]
    return isinstance(t, R.Map) and all(isinstance(k, int) for k in ks) and ks == sorted(set(ks))


def redeemer_map_canonical(b):
    t = R.dec(b)
    for k, v in t.pairs:
        if k == 5 and isinstance(v, R.Map):
            kb = [R.enc(kk) for kk, _ in v.pairs]
            return kb == sorted(kb, key=lambda x: (len(x), x))
    return True


# ------------------------------------------------------------------------------------------------ spec content for wc.spec.ws
def spec_json_from_wcgen(s):
    """the spec-level content (Spec/WitnessCodec.lean) of a wcgen spec: a set is [tagged, [element]]; leaves as the hex of
    their reference encoding"""
    out = {}
    for f in G.WS_FIELDS:
        if f not in s:
            continue
        if f == "redeemers":
            out["redeemers"] = {"form": s[f]["form"], "items": [
                {"tag": i["tag"], "index": str(i["index"]), "data": R.enc(i["data"][1]).hex(), "mem": str(i["ex"][0]), "steps": str(i["ex"][1])}
                for i in (s[f]["items"] if s[f]["form"] == "list" else
                          sorted(s[f]["items"], key=lambda i: (len(R.enc([i["tag"], i["index"]])), R.enc([i["tag"], i["index"]]))))]}
            continue
        c = s[f]["container"]
        tagged = True if f in G.REBUILT else (c["kind"] != "list" and c["tag"])
        trees = [e[1] for e in s[f]["elems"]]
        if f in G.REBUILT or c["kind"] != "list":
            trees = G.distinct_refs(trees)
        if f == "vkeys":
            elems = [{"vkey": t[0].hex(), "sig": t[1].hex()} for t in trees]
        elif f in ("v1", "v2", "v3"):
            elems = [t.hex() for t in trees]
        else:
            elems = [R.enc(t).hex() for t in trees]
        out["data" if f == "datums" else f] = [tagged, elems]
    return out


def spec_json_from_conway(ws, wire):
    out = {}
    for name, site in C.WITS_SITE.items():
        v = ws.get(name)
        if v is None:
            continue
        if name == "vkeys":
            elems = [{"vkey": x["vkey"].hex(), "sig": x["sig"].hex()} for x in v]
        elif name == "native":
            elems = [C.encode_part("native_script", x, wire).hex() for x in v]
        elif name == "bootstrap":
            elems = [C.encode_part("bootstrap_witness", x, wire).hex() for x in v]
        elif name == "data":
            elems = [C.encode_part("plutus_data", x, wire).hex() for x in v]
        else:
            elems = [bytes(x).hex() for x in v]
        out[name] = [wire.tagged(site), elems]
    rs = ws.get("redeemers")
    if rs is not None:
        items = rs["items"]
        if rs["form"] == "map":
            items = sorted(items, key=lambda i: (len(R.enc([i["tag"], i["ix"]])), R.enc([i["tag"], i["ix"]])))
        out["redeemers"] = {"form": rs["form"], "items": [
            {"tag": i["tag"], "index": str(i["ix"]), "data": C.encode_part("plutus_data", i["data"], wire).hex(),
             "mem": str(i["mem"]), "steps": str(i["steps"])} for i in items]}
    return out


def judge(ctx, desc, x, ref, spec_json):
    """`x.to_cbor()` against the reference bytes, the model and the Lean transliteration of the CDDL"""
    b, e = attempt(lambda: x.to_cbor())
    if e is not None:
        ctx.violation(f"to_cbor() of a witness set holding content within the CDDL raises {type(e).__name__}: {str(e)[:160]}",
                      desc, ref.hex(), type(e).__name__)
        return
    desc = {**desc, "hex": b.hex()}
    if b != ref:
        ctx.violation("witness set: emitted bytes differ from the bytes the Conway CDDL prescribes for the content"
                      + first_difference(ref, b), desc, ref.hex(), b.hex())
    else:
        # facts the theorems state of every emitted witness set, read off the bytes
        if not keys_ascending(b):
            ctx.violation("witness set: the keys of the struct map are not strictly ascending", desc, "ascending", b.hex()[:80])
        if not redeemer_map_canonical(b):
            ctx.violation("witness set: the redeemer map is not in canonical key order", desc, "canonical", b.hex()[:80])
    m = model(ctx, {"op": "wc.ws.enc", "a": G.dump_ws(x)})
    if m is not None:
        if not m["valid"] or m["hex"] != b.hex():
            ctx.diff("wc.ws.enc", desc, m["hex"] if m["valid"] else "invalid", b.hex())
        if m["constructed"] != G.dump_ws(x):
            ctx.diff("wc.ws.constructed", desc, m["constructed"], G.dump_ws(x))
    sp = model(ctx, {"op": "wc.spec.ws", "w": spec_json})
    if sp is not None and sp != ref.hex():
        ctx.diff("wc.spec.ws", desc, sp, ref.hex())


def check_ws(ctx, case):
    rng = random.Random(case["seed"])
    big = G.WS_FIELDS[case["big"]] if case.get("big") is not None else None
    s = G.gen_ws_spec(rng, case["mask"], cddl=True, big=big)
    built, e0 = attempt(lambda: G.build_ws(s))
    if e0 is not None:
        ctx.violation(f"constructing a witness set from content within the CDDL raises {type(e0).__name__}: {str(e0)[:160]}",
                      {**case}, "an object", type(e0).__name__)
        return
    x = built[0]
    ctx.count(f"wc2-ws:fields:{bin(case['mask']).count('1')}")
    for f in s:
        if f == "redeemers":
            ctx.count(f"wc2-ws:redeemers:{s[f]['form']}")
            for i in s[f]["items"]:
                ctx.count(f"wc2-ws:redeemer_tag:{i['tag']}")
                for v in (i["index"], *i["ex"]):
                    if v in G.BOUND:
                        ctx.count(f"wc2-ws:boundary:{v}")
        else:
            c = s[f]["container"]
            ctx.count(f"wc2-ws:{f}:{c['kind']}{'' if c['kind'] == 'list' else ':tag' if c['tag'] else ':notag'}")
    judge(ctx, {**case}, x, R.enc(G.ref_ws(s)), spec_json_from_wcgen(s))
    # ---- parts that are serializable objects of their own
    if "vkeys" in s:
        sp, tree = s["vkeys"]["elems"][0]
        w = G.build_vkw(sp)
        ctx.count(f"wc2-ws:vkey-class:{sp['key']['cls']}")
        if w.to_cbor() != R.enc(tree):
            ctx.violation("vkeywitness: emitted bytes differ from [vkey, signature]", {**case, "part": "vkeywitness"},
                          R.enc(tree).hex(), w.to_cbor().hex())
    if "redeemers" in s and s["redeemers"]["items"]:
        rs = s["redeemers"]
        _, e1 = attempt(lambda: G.build_redeemers(rs))
        if e1 is not None:
            return
        if rs["form"] == "list":
            r0 = G.build_redeemer(rs["items"][0])
            if r0.to_cbor() != R.enc(G.ref_redeemer(rs["items"][0])):
                ctx.violation("redeemer: emitted bytes differ from [tag, index, data, ex_units]", {**case, "part": "redeemer"},
                              R.enc(G.ref_redeemer(rs["items"][0])).hex(), r0.to_cbor().hex())
        else:
            mobj = G.build_redeemers(rs)
            if mobj.to_cbor() != R.enc(G.ref_redeemers(rs)):
                ctx.violation("redeemers (map form): emitted bytes differ from {+ [tag, index] => [data, ex_units]} in canonical "
                              "key order", {**case, "part": "redeemers"}, R.enc(G.ref_redeemers(rs)).hex(), mobj.to_cbor().hex())
            i0 = rs["items"][0]
            k0 = P.RedeemerKey(P.RedeemerTag(i0["tag"]), i0["index"])
            if k0.to_cbor() != R.enc([i0["tag"], i0["index"]]):
                ctx.violation("redeemer key: emitted bytes differ from [tag, index]", {**case, "part": "redeemer_key"},
                              R.enc([i0["tag"], i0["index"]]).hex(), k0.to_cbor().hex())
            e0 = P.ExecutionUnits(*i0["ex"])
            if e0.to_cbor() != R.enc(i0["ex"]):
                ctx.violation("ex_units: emitted bytes differ from [mem, steps]", {**case, "part": "ex_units"},
                              R.enc(i0["ex"]).hex(), e0.to_cbor().hex())
    ctx.case(case)


def check_conway(ctx, case):
    rng = random.Random(case["seed"])
    cov = T.Coverage()
    ws = T.gen_wits(rng, cov, 1, 4)
    # `gen_wits` draws every key while it is unhit: thin the content out so that subsets appear
    for name, _ in C.WITS_KEYS:
        if name in ws and rng.random() < 0.45:
            del ws[name]
    sets = {site: True for site in C.SET_SITES}
    for site in ("bootstrap", "plutus_data"):
        sets[site] = rng.random() < 0.5
    wire = C.WireChoices(sets=sets)
    desc = {**case, "spec": C.to_json(ws), "wire": wire.to_json()}
    try:
        ref = C.encode_part("witness_set", ws, wire)
    except C.SpecError as e:
        ctx.count("wc2-conway:reference-refuses:" + str(e)[:40])
        return
    try:
        x = T.to_pycardano("witness_set", ws, wire)
    except T.Inexpressible as e:
        ctx.count("wc2-conway:inexpressible:" + str(e)[:50])
        return
    except Exception as e:  # noqa: BLE001
        ctx.violation(f"constructing a witness set from content within the CDDL raises {type(e).__name__}: {str(e)[:160]}", desc,
                      ref.hex(), type(e).__name__)
        return
    ctx.count(f"wc2-conway:fields:{len([k for k in ws if ws[k] is not None])}")
    judge(ctx, desc, x, ref, spec_json_from_conway(ws, wire))
    ctx.case(case)


def dispatch(ctx, case):
    {"wc2-ws": check_ws, "wc2-conway": check_conway}[case["kind"]](ctx, case)


def run_ext(ctx):
    ctx.assumptions.append("witness side (C02 extension): native scripts, bootstrap witnesses and Plutus data are leaves (their own "
                           "rules: C17 / C18 and the main C02 run); the CDDL does not order struct-map entries — ascending keys "
                           "(deterministic encoding) is the order of the reference and of Spec/WitnessCodec.lean")
    base = {"ext": EXT}
    for i in range(ctx.budget(256, 1536)):
        dispatch(ctx, {**base, "kind": "wc2-ws", "seed": f"{ctx.seed}/w2w{i}", "mask": i % 256})
    for j in ([0, 1, 2, 3, 4, 6, 7] if ctx.thorough else [[0, 1, 2, 3, 4, 6, 7][(ctx.seed + d) % 7] for d in (1, 4)]):
        dispatch(ctx, {**base, "kind": "wc2-ws", "seed": f"{ctx.seed}/w2wb{j}", "mask": 1 << j, "big": j})
    for i in range(ctx.budget(150, 2000)):
        dispatch(ctx, {**base, "kind": "wc2-conway", "seed": f"{ctx.seed}/w2c{i}"})


def replay_ext(ctx, case):
    c = {k: v for k, v in case.items() if k in ("ext", "kind", "seed", "mask", "big")}
    dispatch(ctx, c)
