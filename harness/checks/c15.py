"""C15 — addresses encode and decode bijectively per CIP-19 and CIP-5.

T2 correspondence of the Lean model (Pyc/Model/Addr.lean, Pyc/Model/Bech32.lean, via the driver) with pycardano's
`Address`, `PointerAddress` and `crypto.bech32`, plus direct evaluation of the property on the implementation against
an independent CIP-19 / BIP-173 reference (harness/ref/cip19_ref.py, harness/ref/bech32_ref.py):

* valid stream: 10 kinds x 2 networks x random 28-byte credentials, pointers over 0 and every 7-bit boundary to 2^63,
  the 64-bit boundaries and components far beyond 64 bits (the library takes any Python int); bytes, text, and both
  decodings compared three ways (implementation, model, reference).  There is NO length limit on the text form
  (CIP-19): pointer addresses of 109, 110, 111 and several hundred characters must encode and decode like any other;
* pointer stream: the full cube of boundary values, encode / decode / minimality;
* malformed bytes and strings: accept / reject (and the decoded structure when accepted) implementation vs model;
* rejection: EVERY single-character substitution at EVERY position of sampled addresses (32 charset characters, the
  separator, excluded / upper-case / non-ASCII characters), long pointer addresses included, must be rejected;
  checksums computed under other constants -- the Bech32m constant of BIP-350 first of all -- must be rejected.

History: the pinned code used to limit strings to 108 characters (KF-C15-len108) and to accept Bech32m checksums
(KF-C15-bech32m-accepted); both were repaired in /repo and are plain violations if they reappear.
"""
from __future__ import annotations

from pycardano import Address, Network, PointerAddress, ScriptHash, VerificationKeyHash
from pycardano.crypto import bech32 as impl_bech32

from ref import bech32_ref as B
from ref import cip19_ref as C

KIND_NAMES = {0: "KEY_KEY", 1: "SCRIPT_KEY", 2: "KEY_SCRIPT", 3: "SCRIPT_SCRIPT", 4: "KEY_POINTER", 5: "SCRIPT_POINTER",
              6: "KEY_NONE", 7: "SCRIPT_NONE", 14: "NONE_KEY", 15: "NONE_SCRIPT"}
BOUNDS = [0] + [v for k in range(1, 10) for v in (2 ** (7 * k) - 1, 2 ** (7 * k))]      # 0, 127, 128, ..., 2^63-1, 2^63
# beyond the cube: the largest 64-bit value (10 bytes), the first 11-byte value, and components far beyond 64 bits
# (PointerAddress takes any non-negative int; the text form then has hundreds of characters)
WIDE = [2 ** 64 - 1, 2 ** 64, 2 ** 70 - 1, 2 ** 70, 2 ** 128, 2 ** 256 - 1, 2 ** 511 + 12345]
OLD_LIMIT = 108                                # the length limit the code used to apply (counted in the evidence only)
SUBST_EXTRA = ["1", "b", "i", "o", "B", "Q", "L", "A", " ", "_", "-", "~", "!", "\"", "\\", "\x7f", "é", "İ",
               "ſ"]
SUBST_CHARS = list(B.CHARSET) + SUBST_EXTRA


# ---------------------------------------------------------------------------------------------------------------
# structured address <-> pycardano objects
def load_part(p):
    t = p["t"]
    if t == "key":
        return VerificationKeyHash(bytes.fromhex(p["h"]))
    if t == "script":
        return ScriptHash(bytes.fromhex(p["h"]))
    if t == "ptr":
        return PointerAddress(int(p["slot"]), int(p["tx"]), int(p["cert"]))
    return None


def dump_part(x):
    if x is None:
        return {"t": "none"}
    if type(x) is VerificationKeyHash:
        return {"t": "key", "h": x.payload.hex()}
    if type(x) is ScriptHash:
        return {"t": "script", "h": x.payload.hex()}
    if type(x) is PointerAddress:
        return {"t": "ptr", "slot": str(x.slot), "tx": str(x.tx_index), "cert": str(x.cert_index)}
    return {"t": "other:" + type(x).__name__}


def load_addr(a):
    return Address(load_part(a["pay"]), load_part(a["stk"]), Network(int(a["net"])))


def dump_addr(A):
    return {"pay": dump_part(A.payment_part), "stk": dump_part(A.staking_part), "net": int(A.network.value)}


def impl_decode(value):
    """Address.from_primitive on bytes or str -> structured address, or {"err": "reject"} on any exception"""
    try:
        A = Address.from_primitive(value)
    except Exception:
        return {"err": "reject"}
    if not isinstance(A, Address):
        return {"err": "reject"}
    return dump_addr(A)


def norm_model(m):
    """model `addr.dec` result -> same shape as dump_addr / {"err": "reject"}"""
    if "err" in m:
        return {"err": "reject"}
    return {"pay": m["pay"], "stk": m["stk"], "net": int(m["net"])}


def model_dec(ctx, **kw):
    ctx.traces += 1
    return norm_model(ctx.driver().ok({"op": "addr.dec", **kw}))


def kind_of(a):
    return KIND_NAMES[C.type_nibble(a)]


# ---------------------------------------------------------------------------------------------------------------
def check_addr(ctx, case):
    """case = {kind: addr, a: structured}: bytes, text and both decodings, three ways"""
    a = case["a"]
    rb, rs = C.to_bytes(a), C.to_text(a)
    try:
        A = load_addr(a)
        ib = A.to_primitive()
        s = A.encode()
    except Exception as e:                      # a valid combination of parts must be constructible and encodable
        ctx.violation("constructing / encoding a valid address raises " + type(e).__name__, case, rb.hex(), "exception")
        ctx.case(case)
        return
    ctx.count("kind:" + kind_of(a))
    ctx.count("net:" + str(a["net"]))
    if a["stk"]["t"] == "ptr":
        ctx.count("ptrlen:%d" % len(C.part_bytes(a["stk"])))
    if ib != rb or bytes(A) != rb:
        what = "binary form is not the CIP-19 layout"
        if len(ib) == len(rb) and ib[1:] == rb[1:]:
            what = "header byte is not kind<<4 | network"
        ctx.violation(what, case, rb.hex(), ib.hex())
    if s != rs:
        ctx.violation("text form is not the Bech32 encoding of the bytes under the CIP-5 prefix", case, rs, s)
    if len(rs) > OLD_LIMIT:
        ctx.count("text>108")
        ctx.count("textlen:%s" % (len(rs) if len(rs) <= 111 else ">111"))
    # decoding the binary form
    d = impl_decode(ib)
    if d != a:
        ctx.violation("decoding the binary form does not return an equal address with the same credential kinds",
                      case, a, d)
    elif not (Address.from_primitive(ib) == A):
        ctx.violation("decoded address does not compare equal to the original", case, True, False)
    # decoding the text form: the implementation's own string and the reference string
    if isinstance(s, str):
        d2 = impl_decode(s)
        if d2 != a:
            ctx.violation("decoding the text form does not return an equal address with the same credential kinds",
                          case, a, d2)
    d3 = impl_decode(rs)
    if d3 != a:
        ctx.violation("the CIP-19 / CIP-5 text form of the address is not decoded to it", {**case, "text": rs}, a, d3)
    # upper-case spelling is the same Bech32 string (BIP-173)
    d4 = impl_decode(rs.upper())
    if d4 != d3:
        ctx.violation("upper-case spelling decodes differently", {**case, "text": rs.upper()}, d3, d4)
    if ctx.have_driver():
        m = ctx.driver().ok({"op": "addr.enc", "pay": a["pay"], "stk": a["stk"], "net": str(a["net"])})
        ctx.traces += 1
        got = {"bytes": ib.hex(), "bech32": s, "hrp": A.hrp, "type": str(A.address_type.value),
               "header": A.header_byte.hex()}
        if m != got:
            ctx.diff("addr.enc", case, m, got)
        md = model_dec(ctx, bytes=ib.hex())
        if md != d:
            ctx.diff("addr.dec(bytes)", case, md, d)
        ms = model_dec(ctx, s=rs)
        if ms != d3:
            ctx.diff("addr.dec(str)", {**case, "text": rs}, ms, d3)
    ctx.case(case)


def check_ptr(ctx, case):
    """case = {kind: ptr, slot, tx, cert}"""
    vals = [int(case["slot"]), int(case["tx"]), int(case["cert"])]
    P = PointerAddress(*vals)
    ib = P.encode()
    rb = b"".join(C.varnat(v) for v in vals)
    if ib != rb:
        ctx.violation("pointer is not three minimal variable-length naturals", case, rb.hex(), ib.hex())
    try:
        D = PointerAddress.decode(ib)
        got = [D.slot, D.tx_index, D.cert_index]
    except Exception:
        got = "reject"
    if got != vals:
        ctx.violation("pointer does not decode to itself", case, [str(v) for v in vals], str(got))
    if ctx.have_driver():
        m = ctx.driver().ok({"op": "ptr.enc", "slot": case["slot"], "tx": case["tx"], "cert": case["cert"]})
        ctx.traces += 1
        if m != ib.hex():
            ctx.diff("ptr.enc", case, m, ib.hex())
        md = ctx.driver().ok({"op": "ptr.dec", "bytes": ib.hex()})
        ctx.traces += 1
        gj = {"slot": str(got[0]), "tx": str(got[1]), "cert": str(got[2])} if got != "reject" else {"err": "pointer"}
        if md != gj:
            ctx.diff("ptr.dec", case, md, gj)
    for v in vals:
        ctx.count("varnat-bytes:%d" % len(C.varnat(v)))
    ctx.case(case)


def check_ptrbytes(ctx, case):
    """case = {kind: ptrbytes, hex}: arbitrary bytes through PointerAddress.decode, implementation vs model"""
    data = bytes.fromhex(case["hex"])
    try:
        D = PointerAddress.decode(data)
        got = {"slot": str(D.slot), "tx": str(D.tx_index), "cert": str(D.cert_index)}
    except Exception:
        got = {"err": "pointer"}
    # strict reading: when the bytes are three minimal varnats, the decoder must return exactly them
    vals, i, strict = [], 0, True
    for _ in range(3):
        r = C.read_varnat(data, i)
        if r is None:
            strict = False
            break
        vals.append(r[0])
        i = r[1]
    strict = strict and i == len(data)
    if strict:
        exp = {"slot": str(vals[0]), "tx": str(vals[1]), "cert": str(vals[2])}
        if got != exp:
            ctx.violation("well-formed pointer bytes are not decoded to their three naturals", case, exp, got)
    ctx.count("ptrbytes:" + ("strict" if strict else "accepted-lenient" if "err" not in got else "rejected"))
    if ctx.have_driver():
        md = ctx.driver().ok({"op": "ptr.dec", "bytes": case["hex"]})
        ctx.traces += 1
        if md != got:
            ctx.diff("ptr.dec", case, md, got)
    ctx.case(case)


def check_bytes(ctx, case):
    """case = {kind: bytes, hex}: malformed-ish binary input; accept / reject and structure, implementation vs model;
    well-formed inputs (strict CIP-19 parser) must decode to what the reference says"""
    data = bytes.fromhex(case["hex"])
    d = impl_decode(data)
    r = C.parse(data)
    if r is not None:
        if d != r:
            ctx.violation("a well-formed CIP-19 byte string is not decoded to its address", case, r, d)
        ctx.count("bytes:well-formed")
    elif "err" in d:
        ctx.count("bytes:rejected")
    else:
        ctx.count("bytes:accepted-lenient")          # e.g. non-minimal pointer digits, unterminated trailing group
    if ctx.have_driver():
        md = model_dec(ctx, bytes=case["hex"])
        if md != d:
            ctx.diff("addr.dec(bytes)", case, md, d)
    ctx.case(case)


def check_str(ctx, case):
    """case = {kind: str, s}: malformed-ish text input; implementation vs model; strings that the strict reference
    accepts must decode to what it says"""
    s = case["s"]
    d = impl_decode(s)
    r = C.parse_text(s)
    if r is not None:
        if d != r:
            ctx.violation("a valid CIP-19 / CIP-5 text address is not decoded to its address", case, r, d)
        ctx.count("str:valid" + (">108" if len(s) > OLD_LIMIT else ""))
    elif "err" in d:
        ctx.count("str:rejected")
    else:
        ctx.count("str:accepted-lenient")
    if ctx.have_driver():
        md = model_dec(ctx, s=s)
        if md != d:
            ctx.diff("addr.dec(str)", case, md, d)
    ctx.case(case)


def check_subst(ctx, case):
    """case = {kind: subst, s, pos, ch}: one character of a valid address string replaced"""
    s, pos, ch = case["s"], case["pos"], case["ch"]
    if s[pos] == ch:
        return
    t = s[:pos] + ch + s[pos + 1:]
    d = impl_decode(t)
    if "err" not in d:
        try:
            B.decode5(t)
            ref_valid = True
        except B.Invalid:
            ref_valid = False
        if ref_valid:
            ctx.skipped += 1                       # the substitution produced another valid Bech32 string (never seen)
        else:
            orig = C.parse_text(s)
            if d != orig:
                ctx.violation("a string with one corrupted character is decoded to a different address",
                              {**case, "corrupted": t}, "rejection", d)
            else:
                ctx.violation("a string with one corrupted character is accepted", {**case, "corrupted": t},
                              "rejection", d)
    region = "hrp" if pos < s.rfind("1") else "sep" if pos == s.rfind("1") else \
        "checksum" if pos >= len(s) - 6 else "data"
    cls = "charset" if ch in B.CHARSET else "sep" if ch == "1" else "other"
    ctx.count("subst:%s/%s" % (region, cls))
    if ctx.have_driver():
        md = model_dec(ctx, s=t)
        if md != d:
            ctx.diff("addr.dec(str)", {**case, "corrupted": t}, md, d)
    ctx.case(case)


def check_const(ctx, case):
    """case = {kind: const, a, const}: the address text with the checksum computed under another constant"""
    a, c = case["a"], int(case["const"])
    t = B.encode(C.prefix(a), C.to_bytes(a), const=c)
    d = impl_decode(t)
    if c == B.BECH32:
        if d != a:
            ctx.violation("valid text form not decoded", {**case, "text": t}, a, d)
    elif "err" not in d:
        ctx.violation("a string whose checksum is not a Bech32 checksum (constant %#x%s) is accepted"
                      % (c, ", the Bech32m constant" if c == B.BECH32M else ""), {**case, "text": t}, "rejection", d)
    if c != B.BECH32:
        # the same at the bech32 layer (the pool-id test and `encode`'s self-check call bech32_decode directly)
        raw = impl_bech32.bech32_decode(t)
        if raw != (None, None, None):
            ctx.violation("bech32_decode accepts a checksum that is not a Bech32 checksum (constant %#x)" % c,
                          {**case, "text": t}, "(None, None, None)", str(raw[2]))
    ctx.count("const:" + ("bech32" if c == 1 else "bech32m" if c == B.BECH32M else "other")
              + (">108" if len(t) > OLD_LIMIT else ""))
    if ctx.have_driver():
        md = model_dec(ctx, s=t)
        if md != d:
            ctx.diff("addr.dec(str)", {**case, "text": t}, md, d)
    ctx.case(case)


def check_foreign_hrp(ctx, case):
    """case = {kind: hrp, a, hrp}: the address bytes under a different prefix with a correct checksum for that prefix.
    NOTED, NOT ASSERTED (DESIGN.md section 4): `Address.decode` ignores the human-readable prefix."""
    a = case["a"]
    t = B.encode(case["hrp"], C.to_bytes(a))
    d = impl_decode(t)
    ctx.count("noted:foreign-prefix-" + ("accepted" if "err" not in d else "rejected"))
    if "err" not in d and d != a:
        ctx.violation("text under another prefix decodes to a different address", {**case, "text": t}, a, d)
    if ctx.have_driver():
        md = model_dec(ctx, s=t)
        if md != d:
            ctx.diff("addr.dec(str)", {**case, "text": t}, md, d)
    ctx.case(case)


def check_b32(ctx, case):
    """case = {kind: b32, hrp, hex}: crypto.bech32.encode / decode on arbitrary prefixes and payloads"""
    hrp, data = case["hrp"], bytes.fromhex(case["hex"])
    s = impl_bech32.encode(hrp, data)
    rs = B.encode(hrp, data)
    if s != rs:                                    # for payloads of every length: Cardano applies no length limit
        ctx.violation("bech32.encode is not the BIP-173 encoding", case, rs, s)
    else:
        try:
            back = impl_bech32.decode(s)
        except Exception:
            back = "raised"
        exp = list(data) if 2 <= len(data) else None          # `decode` refuses payloads of fewer than 2 bytes
        if back != exp:
            ctx.violation("bech32.decode(encode(x)) != x", case, exp, back)
    ctx.count("b32:" + ("none" if s is None else "ok" if len(rs) <= OLD_LIMIT else "ok>108"))
    if isinstance(s, str) and s == rs:
        # the same data under the Bech32m constant is not a Cardano string: bech32_decode must reject it
        tm = B.encode(hrp, data, const=B.BECH32M)
        if impl_bech32.bech32_decode(tm) != (None, None, None):
            ctx.violation("bech32_decode accepts a Bech32m checksum", {**case, "text": tm}, "(None, None, None)",
                          "accepted")
        if ctx.have_driver():
            mr = ctx.driver().ok({"op": "bech32.raw", "s": tm})
            ctx.traces += 1
            rawm = impl_bech32.bech32_decode(tm)
            gm = {"err": "reject"} if rawm[0] is None else \
                {"hrp": rawm[0], "data": bytes(rawm[1]).hex(), "spec": str(rawm[2].value)}
            if mr != gm:
                ctx.diff("bech32.raw", {**case, "text": tm}, mr, gm)
    # the checksum register itself: implementation vs the GF(32) polynomial remainder of BIP-173
    vals = impl_bech32.bech32_hrp_expand(hrp) + B.to5(data)
    pm = impl_bech32.bech32_polymod(vals)
    if pm != B.residue(hrp, B.to5(data)):
        ctx.violation("bech32_polymod is not the remainder modulo g(x) of BIP-173", case, B.residue(hrp, B.to5(data)), pm)
    if ctx.have_driver():
        mp = ctx.driver().ok({"op": "bech32.polymod", "values": bytes(vals).hex()})
        ctx.traces += 1
        if mp != str(pm):
            ctx.diff("bech32.polymod", case, mp, str(pm))
        m = ctx.driver().ok({"op": "bech32.enc", "hrp": hrp, "bytes": case["hex"]})
        ctx.traces += 1
        got = {"s": s} if s is not None else {"err": "none"}
        if m != got:
            ctx.diff("bech32.enc", case, m, got)
        if s is not None:
            raw = impl_bech32.bech32_decode(s)
            mr = ctx.driver().ok({"op": "bech32.raw", "s": s})
            ctx.traces += 1
            gr = {"err": "reject"} if raw[0] is None else \
                {"hrp": raw[0], "data": bytes(raw[1]).hex(), "spec": str(raw[2].value)}
            if mr != gr:
                ctx.diff("bech32.raw", case, mr, gr)
    ctx.case(case)


def check_consts(ctx, case):
    """case = {kind: consts}: the constants of the model against the live objects of the implementation (T1) and
    against the specifications"""
    import pycardano.address as pa
    import pycardano.hash as ph
    live = {"charset": impl_bech32.CHARSET, "bech32m": str(impl_bech32.BECH32M_CONST),
            "types": {t.name: str(t.value) for t in pa.AddressType},
            "networks": {n.name: str(n.value) for n in Network},
            "hash_size": str(ph.VERIFICATION_KEY_HASH_SIZE) if ph.VERIFICATION_KEY_HASH_SIZE == ph.SCRIPT_HASH_SIZE else "?"}
    # against the specifications: BIP-173 charset / BIP-350 constant, CIP-19 type table and network tags
    spec = {"charset": B.CHARSET, "bech32m": str(B.BECH32M),
            "types": {**{KIND_NAMES[v]: str(v) for v in KIND_NAMES}, "BYRON": "8"},
            "networks": {"TESTNET": "0", "MAINNET": "1"}, "hash_size": str(C.HASH_LEN)}
    if live != spec:
        ctx.violation("constants of the implementation differ from BIP-173 / CIP-19", case, spec, live)
    if ctx.have_driver():
        m = ctx.driver().ok({"op": "addr.consts"})
        ctx.traces += 1
        gen = m.pop("generator")
        if m != live:
            ctx.diff("addr.consts", case, m, live)
        # generator constants = {2^i} * g(x) over GF(32) (the implementation's are local to bech32_polymod; they are
        # exercised through the polymod comparison of the b32 stream)
        exp = [str(sum(B.gf_mul(1 << i, g) << (5 * (5 - k)) for k, g in enumerate(B.G))) for i in range(5)]
        if gen != exp:
            ctx.diff("addr.consts/generator", case, gen, exp)
    ctx.case(case)


DISPATCH = {"consts": check_consts, "addr": check_addr, "ptr": check_ptr, "ptrbytes": check_ptrbytes, "bytes": check_bytes, "str": check_str,
            "subst": check_subst, "const": check_const, "hrp": check_foreign_hrp, "b32": check_b32}


def dispatch(ctx, case):
    DISPATCH[case["kind"]](ctx, case)


# ---------------------------------------------------------------------------------------------------------------
# generators
def gen_hash(rng):
    r = rng.random()
    if r < 0.04:
        return bytes(28).hex()
    if r < 0.08:
        return (b"\xff" * 28).hex()
    if r < 0.12:
        return bytes([rng.randrange(256)] * 28).hex()
    return rng.randbytes(28).hex()


def gen_ptr(rng, i=None):
    """pointer triple; with an index, component j walks the boundary list so that every boundary is hit in every
    component; one triple in eight has a component of 64 bits or (far) more, so that text forms beyond the former
    108-character limit are a regular part of the stream"""
    if i is None:
        vals = [rng.choice(BOUNDS) if rng.random() < 0.7 else rng.randrange(2 ** rng.randrange(1, 64)) for _ in range(3)]
    else:
        j = i % 3
        vals = [rng.choice(BOUNDS) if rng.random() < 0.5 else rng.randrange(2 ** rng.randrange(1, 64)) for _ in range(3)]
        vals[j] = BOUNDS[(i // 3) % len(BOUNDS)]
    if rng.random() < 0.125:
        vals[rng.randrange(3)] = rng.choice(WIDE) if rng.random() < 0.6 else rng.randrange(2 ** rng.randrange(64, 600))
    return {"t": "ptr", "slot": str(vals[0]), "tx": str(vals[1]), "cert": str(vals[2])}


def gen_long_ptr(rng, nbytes):
    """pointer triple whose encoding has exactly `nbytes` bytes (3 <= nbytes): lengths split at random"""
    a = rng.randrange(1, nbytes - 1)
    b = rng.randrange(1, nbytes - a)
    lens = [a, b, nbytes - a - b]
    rng.shuffle(lens)
    vals = [rng.randrange(2 ** (7 * (k - 1)) if k > 1 else 0, 2 ** (7 * k)) for k in lens]
    return {"t": "ptr", "slot": str(vals[0]), "tx": str(vals[1]), "cert": str(vals[2])}


def gen_addr(rng, pk, sk, net, i=None):
    def part(k):
        if k in ("key", "script"):
            return {"t": k, "h": gen_hash(rng)}
        if k == "ptr":
            return gen_ptr(rng, i)
        return {"t": "none"}
    a = {"pay": part(pk), "stk": part(sk), "net": net}
    if pk in ("key", "script") and sk in ("key", "script") and rng.random() < 0.1:
        a["stk"]["h"] = a["pay"]["h"]            # same hash in both parts: only the kinds tell them apart
    return a


def malformed_bytes(rng, base: bytes):
    """one mutation of a valid binary address"""
    r = rng.randrange(12)
    if r == 0:
        return base[: rng.randrange(len(base))]                        # truncated (including empty)
    if r == 1:
        return base + rng.randbytes(rng.randrange(1, 4))               # trailing bytes
    if r == 2:
        return bytes([rng.randrange(256)]) + base[1:]                  # arbitrary header
    if r == 3:
        return bytes([(base[0] & 0xF0) | rng.randrange(16)]) + base[1:]   # network nibble
    if r == 4:
        return bytes([(rng.randrange(16) << 4) | (base[0] & 0x0F)]) + base[1:]   # kind nibble over the same payload
    if r == 5:
        return base[:29] + bytes([0x80]) + base[29:]                   # leading zero digit in a pointer / bad length
    if r == 6:
        return base + bytes([0x80 | rng.randrange(128)])               # unterminated trailing group
    if r == 7:
        return base[:-1]                                               # one byte short
    if r == 8:
        return base[:1] + base[2:]                                     # one byte dropped from the first credential
    if r == 9:
        return base[:29] + bytes([rng.randrange(128)])                 # pointer with a single number
    if r == 10:
        return base[:29] + bytes(rng.randrange(128) for _ in range(rng.choice([2, 4, 5])))   # 2 / 4 / 5 numbers
    return rng.randbytes(rng.choice([1, 2, 28, 29, 30, 56, 57, 58]))   # random bytes of interesting lengths


def malformed_str(rng, a):
    """one mutation of a valid text address"""
    s = C.to_text(a)
    hrp, data = C.prefix(a), C.to_bytes(a)
    r = rng.randrange(16)
    if r == 0:
        return s[:-1]
    if r == 1:
        i = rng.randrange(len(s))
        return s[:i] + s[i + 1:]                                       # deletion
    if r == 2:
        i = rng.randrange(len(s) + 1)
        return s[:i] + rng.choice(B.CHARSET) + s[i:]                   # insertion
    if r == 3:
        i = rng.randrange(len(s) - 1)
        return s[:i] + s[i + 1] + s[i] + s[i + 2:]                     # transposition
    if r == 4:
        return s.upper()
    if r == 5:
        i = rng.randrange(len(s))
        return s[:i] + s[i].upper() + s[i + 1:]                        # mixed case (or unchanged for digits)
    if r == 6:
        return s.replace("1", "", 1)                                   # no separator
    if r == 7:
        return s[len(hrp):]                                            # empty prefix
    if r == 8:
        return B.encode5(hrp, B.to5(data) + [0])                       # a whole extra zero group: 5+ padding bits
    if r == 9:
        v = B.to5(data)
        pad = (-8 * len(data)) % 5
        if pad:
            v[-1] |= 1                                                 # non-zero padding bits
        return B.encode5(hrp, v)
    if r == 10:
        return B.encode(hrp, data[:1])                                 # one-byte payload
    if r == 11:
        return B.encode(hrp, b"")                                      # empty payload
    if r == 12:                                                        # longer payload (up to several hundred characters)
        return B.encode(hrp, data + rng.randbytes(rng.choice([rng.randrange(1, 12), rng.randrange(12, 300)])))
    if r == 13:
        return B.encode(hrp, malformed_bytes(rng, data))               # valid Bech32 around a malformed payload
    if r == 14:
        i, j = sorted(rng.sample(range(len(s)), 2))                    # two substitutions
        return s[:i] + rng.choice(B.CHARSET) + s[i + 1:j] + rng.choice(B.CHARSET) + s[j + 1:]
    return rng.choice(["", "1", "addr1", "addr", "1qqqqqq", " ", "addr1 ", s + " ", " " + s, s + "\n", "a" * 120])


def other_constants(rng):
    M = B.BECH32M
    cs = [0, 2, 3, M, M ^ 1, M + 1, M - 1, 0x3FFFFFFF, 0x3FFFFFFE]
    cs += [1 << i for i in range(1, 30)] + [1 ^ (1 << i) for i in range(1, 30)] + [M ^ (1 << i) for i in range(30)]
    cs += [rng.randrange(2 ** 30) for _ in range(20)]
    return [c for c in cs if c != 1]


def corpus():
    h1, h2 = bytes(range(28)).hex(), bytes(range(100, 128)).hex()
    big, u64 = str(2 ** 63), str(2 ** 64 - 1)
    return [
        {"kind": "consts"},
        # witness of the former KF-C15-len108: testnet pointer address with 30 pointer bytes, 111 characters
        {"kind": "addr", "a": {"pay": {"t": "key", "h": h1}, "stk": {"t": "ptr", "slot": big, "tx": big, "cert": big}, "net": 0}},
        {"kind": "addr", "a": {"pay": {"t": "key", "h": h1}, "stk": {"t": "ptr", "slot": big, "tx": big, "cert": big}, "net": 1}},
        # 28 pointer bytes: exactly 108 characters on testnet; 29 pointer bytes: 109 characters
        {"kind": "addr", "a": {"pay": {"t": "script", "h": h2}, "stk": {"t": "ptr", "slot": big, "tx": big, "cert": str(2 ** 56 - 1)}, "net": 0}},
        {"kind": "addr", "a": {"pay": {"t": "script", "h": h2}, "stk": {"t": "ptr", "slot": big, "tx": str(2 ** 56), "cert": big}, "net": 0}},
        # CIP-19 test vector material
        {"kind": "addr", "a": {"pay": {"t": "key", "h": "9493315cd92eb5d8c4304e67b7e16ae36d61d34502694657811a2c8e"},
                               "stk": {"t": "ptr", "slot": "2498243", "tx": "27", "cert": "3"}, "net": 1}},
        {"kind": "addr", "a": {"pay": {"t": "script", "h": h2}, "stk": {"t": "key", "h": h2}, "net": 0}},
        # witness of the former KF-C15-bech32m-accepted (addr1vyqqzqsrqszsvpcgpy9qkrqdpc83qygjzv2p29shrqv35xc8lu3x2),
        # and the same on a string beyond the former length limit
        {"kind": "const", "a": {"pay": {"t": "key", "h": h1}, "stk": {"t": "none"}, "net": 1}, "const": str(B.BECH32M)},
        {"kind": "const", "a": {"pay": {"t": "key", "h": h1}, "stk": {"t": "ptr", "slot": big, "tx": big, "cert": big}, "net": 0},
         "const": str(B.BECH32M)},
        # 64-bit maxima (10 bytes each), the first 11-byte component, and components far beyond 64 bits
        {"kind": "addr", "a": {"pay": {"t": "script", "h": h2}, "stk": {"t": "ptr", "slot": u64, "tx": u64, "cert": u64}, "net": 0}},
        {"kind": "addr", "a": {"pay": {"t": "key", "h": h1}, "stk": {"t": "ptr", "slot": str(2 ** 64), "tx": "0", "cert": u64}, "net": 1}},
        {"kind": "addr", "a": {"pay": {"t": "key", "h": h1}, "stk": {"t": "ptr", "slot": str(2 ** 511 + 12345), "tx": str(2 ** 256 - 1),
                                                                      "cert": str(2 ** 128)}, "net": 0}},
        {"kind": "b32", "hrp": "addr_test", "hex": bytes(range(200)).hex()},
        {"kind": "hrp", "a": {"pay": {"t": "key", "h": h1}, "stk": {"t": "none"}, "net": 1}, "hrp": "stake_test"},
        {"kind": "ptrbytes", "hex": "01020380"}, {"kind": "ptrbytes", "hex": "80010203"},
        {"kind": "bytes", "hex": ""}, {"kind": "bytes", "hex": "81" + h1}, {"kind": "bytes", "hex": "62" + h1},
        {"kind": "str", "s": ""}, {"kind": "str", "s": "addr1"},
    ]


def run(ctx):
    ctx.rule = ("valid stream: every (payment kind, delegation kind) of CIP-19 x both networks x random / constant / "
                "shared 28-byte credentials, pointer components walking 0 and 2^7k-1, 2^7k (k=1..9, up to 2^63) in every "
                "position, one triple in eight with a component of 64..600 bits; long stream: pointer encodings of every "
                "length 3..31 bytes and of 40..300 bytes in both pointer kinds and networks (text forms up to ~600 "
                "characters, no length limit); pointer stream: the full cube of the 19 boundary values plus 7 wide "
                "values; malformed bytes / strings: 12 + 16 "
                "mutation operators on valid addresses plus all 256 header bytes over 8 payload shapes; rejection: every "
                "single-character substitution (32 charset characters + 19 others incl. the separator, excluded, "
                "upper-case and non-ASCII characters) at every position of sampled addresses of every kind and network "
                "and of three long pointer addresses (111, 111 and ~250 characters), and checksums under ~110 other "
                "constants (Bech32m first) on short and long strings; a case is non-trivial if it is a distinct input")
    ctx.assumptions = ["credentials are 28-byte hashes (enforced by `assert` in the constructors of VerificationKeyHash / "
                       "ScriptHash, i.e. not under `python -O`)",
                       "Python int = Lean Nat for pointer components (non-negative)",
                       "single-substitution rejection is proved (for strings of any length) for data-part characters within "
                       "the charset; substitutions "
                       "by the separator / outside the charset / inside the prefix are covered by exhaustive evaluation "
                       "on sampled addresses only"]
    ctx.extra["trusted"] = ["harness/ref/bech32_ref.py (BIP-173 as GF(32) polynomial remainder; self-tested on the BIP "
                            "vectors)", "harness/ref/cip19_ref.py (self-tested on CIP-19 vectors)"]
    ctx.extra["noted_not_asserted"] = [
        "Address.decode ignores the human-readable prefix (any prefix with a matching checksum is accepted)",
        "PointerAddress.decode accepts non-minimal digits and drops an unterminated trailing group"]
    rng = ctx.rng
    for c in corpus():
        dispatch(ctx, c)

    kinds = list(C.TYPE)                       # (payment kind, delegation kind)
    per = ctx.budget(50, 2500)
    sample = []                                # one address per kind x network for the rejection streams
    for (pk, sk) in kinds:
        for net in (0, 1):
            for i in range(per):
                a = gen_addr(rng, pk, sk, net, i)
                dispatch(ctx, {"kind": "addr", "a": a})
                if i == 0:
                    sample.append(a)
    # long stream: pointer encodings of every length around the former limit (28 bytes = 108 characters on testnet,
    # 30 bytes = three 64-bit components) and far beyond it
    long_sample = []                           # one address of 111, 111 and ~250 characters for the rejection streams
    want = {(30, "key", 0), (30, "script", 1), (100, "script", 0)}
    for nbytes in list(range(3, 32)) + [40, 64, 100, 200, 300]:
        for pk in ("key", "script"):
            for net in (0, 1):
                for r in range(ctx.budget(1, 20)):
                    a = gen_addr(rng, pk, "none", net)
                    a["stk"] = gen_long_ptr(rng, nbytes)
                    dispatch(ctx, {"kind": "addr", "a": a})
                    if r == 0 and (nbytes, pk, net) in want:
                        long_sample.append(a)
    # pointer cube
    cube = [(x, y, z) for x in BOUNDS for y in BOUNDS for z in BOUNDS]
    for (x, y, z) in cube:
        dispatch(ctx, {"kind": "ptr", "slot": str(x), "tx": str(y), "cert": str(z)})
    for x in WIDE:
        for y in (0, 2 ** 63, WIDE[0], WIDE[-1]):
            for (u, v, w) in ((x, y, 0), (0, x, y), (y, 0, x)):
                dispatch(ctx, {"kind": "ptr", "slot": str(u), "tx": str(v), "cert": str(w)})
    for _ in range(ctx.budget(500, 50000)):
        vals = [rng.randrange(2 ** rng.randrange(0, 72)) for _ in range(3)]
        dispatch(ctx, {"kind": "ptr", "slot": str(vals[0]), "tx": str(vals[1]), "cert": str(vals[2])})
    if ctx.thorough:                           # the cube inside both pointer kinds and networks
        for (x, y, z) in cube:
            for pk in ("key", "script"):
                for net in (0, 1):
                    a = gen_addr(rng, pk, "none", net)
                    a["stk"] = {"t": "ptr", "slot": str(x), "tx": str(y), "cert": str(z)}
                    dispatch(ctx, {"kind": "addr", "a": a})
    for _ in range(ctx.budget(1000, 50000)):
        n = rng.randrange(0, 12)
        data = bytes((rng.randrange(128) | (0x80 if rng.random() < 0.4 else 0)) for _ in range(n))
        dispatch(ctx, {"kind": "ptrbytes", "hex": data.hex()})
    # malformed bytes: all headers over payload shapes, then mutation operators
    shapes = [b"", bytes(27), bytes(28), bytes(29), bytes(28) + b"\x01\x02\x03", bytes(55), bytes(56), bytes(57)]
    for h in range(256):
        for p in shapes:
            dispatch(ctx, {"kind": "bytes", "hex": (bytes([h]) + p).hex()})
    for _ in range(ctx.budget(3000, 100000)):
        pk, sk = rng.choice(kinds)
        base = C.to_bytes(gen_addr(rng, pk, sk, rng.randrange(2)))
        dispatch(ctx, {"kind": "bytes", "hex": malformed_bytes(rng, base).hex()})
    for _ in range(ctx.budget(3000, 100000)):
        pk, sk = rng.choice(kinds)
        dispatch(ctx, {"kind": "str", "s": malformed_str(rng, gen_addr(rng, pk, sk, rng.randrange(2)))})
    # bech32 layer on arbitrary prefixes
    for _ in range(ctx.budget(600, 30000)):
        hrp = "".join(chr(rng.choice([rng.randrange(33, 65), rng.randrange(91, 127)])) for _ in range(rng.randrange(1, 12)))
        n = rng.choice([0, 1, 2, 3, 5, 20, 29, 32, 57, 58, 59, 60, 61, 64, 108, 109, 200, rng.randrange(61, 400)])
        dispatch(ctx, {"kind": "b32", "hrp": hrp, "hex": rng.randbytes(n).hex()})
    # other checksum constants and foreign prefixes
    consts = other_constants(rng)
    for a in sample[:: ctx.budget(4, 1)] + long_sample:
        for c in consts:
            dispatch(ctx, {"kind": "const", "a": a, "const": str(c)})
    for a in sample:                                # the Bech32m constant on every kind and network
        dispatch(ctx, {"kind": "const", "a": a, "const": str(B.BECH32M)})
    for a in sample:
        for hrp in ("addr", "addr_test", "stake", "stake_test", "script", "x"):
            if hrp != C.prefix(a):
                dispatch(ctx, {"kind": "hrp", "a": a, "hrp": hrp})
    # every single-character substitution at every position
    n_extra = ctx.budget(0, 280)
    for _ in range(n_extra):
        pk, sk = rng.choice(kinds)
        sample.append(gen_addr(rng, pk, sk, rng.randrange(2)))
    sample += long_sample           # strings beyond the former limit: 111, 111 and ~250 characters
    for a in sample:
        s = C.to_text(a)
        if impl_decode(s) != a:
            continue                            # (reported by the valid stream)
        ctx.count("subst-addresses" + (">108" if len(s) > OLD_LIMIT else ""))
        for pos in range(len(s)):
            for ch in SUBST_CHARS:
                dispatch(ctx, {"kind": "subst", "s": s, "pos": pos, "ch": ch})
        if len(ctx.violations) > 50:
            break


def replay(ctx, data):
    if "input" in data:
        dispatch(ctx, {k: v for k, v in data["input"].items() if k not in ("text", "corrupted")})
    for d in data.get("correspondence", []):
        dispatch(ctx, {k: v for k, v in d["input"].items() if k not in ("text", "corrupted")})
