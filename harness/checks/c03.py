"""C03 — transaction identity survives decode and re-encode.

For each generated spec-level transaction x wire variant the independent reference encoder (ref/conway.py) emits the
bytes `b` together with the offsets of the body inside them; pycardano decodes `b` and must re-emit the body byte for
byte (`Transaction.from_cbor(b).transaction_body.to_cbor() == body slice of b`) and report `id == blake2b-256(body
slice)` (hashlib).  `t.to_cbor() == b` is recorded in the histogram only.  The same cases run in sub-processes
(harness/workers/c03_worker.py) over the configuration matrix {pure-Python cbor2, C-extension cbor2} x PYTHONHASHSEED.

Judgement.  Supported wire forms (the property's list): per-set tag 258 / bare array, per-output legacy / map, datum
hash / inline datum, reference script of each language, Plutus data in the ledger's framing (indefinite non-empty
lists, chunked long byte strings), optional fields in any subset, element counts 0..6.  A failure on such a case is a
violation unless it is one of the recorded defects, attributed by a COUNTERFACTUAL predicate: with every recorded trait
of the case neutralised the case must pass, and re-enabling one trait alone must fail; only then is the failure booked
on that trait's finding.  Failures under the C extension are booked on KF-C03-cext-backend only if the pure back end
gives another result on the same bytes AND the judged region holds one of the triggers found for that back end.
Wire variants outside the property's list (definite Plutus lists, unchunked long bytes, bytewise / shuffled map order,
foreign keys, duplicate or empty sets, captured fixtures) are examined and reported (histogram + `examined_failures`),
not judged."""
from __future__ import annotations

import copy
import hashlib
import json
import os
import shutil
import subprocess
import sys
import tempfile

from ref import cbor_ref as R
from ref import conway as C
from ref import ledger_ref as L
from vlib import core
from vlib import txgen as G
from workers import c03_worker as W

KF_TAG258 = "KF-C03-tag258-list-fields"
KF_CHUNK = "KF-C03-inline-datum-chunked"
KF_EMPTYLIST = "KF-C03-datum-empty-list"
KF_CEXT = "KF-C03-cext-backend"
KF_DEFLIST = "KF-C03-inline-datum-definite-list"
KF_WDEFLIST = "KF-C03-witness-datum-definite-list"

WORKER = os.path.join(os.path.dirname(os.path.dirname(os.path.abspath(__file__))), "workers", "c03_worker.py")


# ---- content helpers ---------------------------------------------------------------------------------------------------
def walk_pdata(d):
    yield d
    if d[0] == "constr":
        for x in d[2]:
            yield from walk_pdata(x)
    elif d[0] == "list":
        for x in d[1]:
            yield from walk_pdata(x)
    elif d[0] == "map":
        for a, b in d[1]:
            yield from walk_pdata(a)
            yield from walk_pdata(b)


def map_pdata(d, f):
    d = f(d)
    if d[0] == "constr":
        return ["constr", d[1], [map_pdata(x, f) for x in d[2]]]
    if d[0] == "list":
        return ["list", [map_pdata(x, f) for x in d[1]]]
    if d[0] == "map":
        return ["map", [[map_pdata(a, f), map_pdata(b, f)] for a, b in d[1]]]
    return d


def body_outputs(tx):
    b = tx["body"]
    return list(b["outputs"]) + ([b["collateral_return"]] if b.get("collateral_return") is not None else [])


def inline_datums(tx):
    return [o["datum"]["data"] for o in body_outputs(tx) if o.get("datum") is not None and o["datum"]["k"] == "inline"]


def with_inline_datums(tx, f):
    tx = copy.deepcopy(tx)
    for o in body_outputs(tx):
        if o.get("datum") is not None and o["datum"]["k"] == "inline":
            o["datum"]["data"] = f(o["datum"]["data"])
    return tx


def with_lists(wire, mode):
    w = copy.deepcopy(wire)
    w.plutus_lists = mode
    return w


def with_set(wire, site, tagged):
    w = copy.deepcopy(wire)
    w.sets[site] = tagged
    return w


# ---- recorded defects of the pure back end: (trait, finding, present, neutralise) ----------------------------------------------
def _empty_list(d):
    return d[0] == "list" and not d[1]


TRAITS = [
    # (inline datums: chunked byte strings, definite-length lists and the empty list were recorded defects; since the repair
    #  that keeps the received bytes of an inline datum they are ordinary supported cases, judged like the others)
    ("witness-set datum that is a non-empty definite-length list at top level (82 ..)", KF_WDEFLIST,
     lambda tx, w: w.plutus_lists == "definite" and any(d[0] == "list" and d[1] for d in (tx.get("wits") or {}).get("data") or []),
     lambda tx, w: ({**tx, "wits": {**tx["wits"], "data": [["constr", 0, d[1]] if d[0] == "list" and d[1] else d for d in tx["wits"]["data"]]}}, w)),
    ("witness-set datum that is the empty list (80)", KF_EMPTYLIST,
     lambda tx, w: w.plutus_lists != "indefinite" and any(_empty_list(d) for d in (tx.get("wits") or {}).get("data") or []),
     lambda tx, w: ({**tx, "wits": {**tx["wits"], "data": [["int", 0] if _empty_list(d) else d for d in tx["wits"]["data"]]}}, w)),
]


def neutralise(tx, wire, keep=None):
    for t in TRAITS:
        if t[1] != keep and t[2](tx, wire):
            tx, wire = t[3](tx, wire)
    return tx, wire


# ---- triggers of the C-extension defect, read off the reference item tree ---------------------------------------------------------
def cext_triggers(b: bytes):
    """which constructs the unpatched C decoder mistreats occur in these bytes:
       set>=2     a tag-258 set with two or more elements (becomes a Python set: wire order lost, hash-seed dependent)
       set-frozen a tag-258 set (any size) with a map or another tag-258 set inside an element (elements are decoded as
                  immutable values: FrozenDict / frozenset, which the typed restoration refuses)
       set-nested-array  a tag-258 set (any size) with an array nested inside an element's array (the element and everything in
                  it arrive as tuples; hand-written from_primitive methods that accept only lists, e.g. DRep inside a
                  certificate, refuse them)
       indef      an indefinite-length array, also inside #6.24 embedded CBOR (arrives as a plain list: framing lost)"""
    out = set()

    def scan(x, inset, depth_in_elem=0):
        if isinstance(x, R.Tag):
            if x.tag == 258 and isinstance(x.value, list):
                if len(x.value) >= 2:
                    out.add("set>=2")
                if inset:
                    out.add("set-frozen")
                for v in x.value:
                    scan(v, True, 0)
                return
            if x.tag == 24 and isinstance(x.value, bytes):
                try:
                    scan(R.dec(x.value), False)
                except Exception:  # noqa: BLE001
                    pass
                return
            scan(x.value, inset)
        elif isinstance(x, R.IndefList):
            out.add("indef")
            for v in x:
                scan(v, inset)
        elif isinstance(x, list):
            if inset and depth_in_elem >= 1:
                out.add("set-nested-array")
            for v in x:
                scan(v, inset, depth_in_elem + 1 if inset else 0)
        elif isinstance(x, R.Map):
            if inset:
                out.add("set-frozen")
            for k, v in x.pairs:
                scan(k, inset)
                scan(v, inset)
    try:
        scan(R.dec(b), False)
    except Exception:  # noqa: BLE001
        pass
    return out


# ---- Lean side ---------------------------------------------------------------------------------------------------------------
_MODEL = {"probed": False, "on": False}


def model_available(ctx):
    if not _MODEL["probed"]:
        _MODEL["probed"] = True
        try:
            _MODEL["on"] = ctx.have_driver() and ctx.driver().call({"op": "codec.ping"})[0] == "ok"
        except core.Infra:
            _MODEL["on"] = False
    return _MODEL["on"]


def model_hook(ctx, cls, spec_tx, wire, enc, result):
    """Correspondence with the Lean model for one wire case.  No-op unless the driver answers `codec.ping`.

    cls     : "supported" | "corpus" | ... (class of the case)
    spec_tx : spec-level transaction (ref/conway.py content model; JSON image conway.to_json(spec_tx))
    wire    : conway.WireChoices (JSON image wire.to_json())
    enc     : conway.Encoded: .bytes (the transaction as received), .body = (start, end) offsets of the body
    result  : what the implementation did under the pure back end: {"r": "ok" | "body" | "exc", "stage", "exc", "body": hex of the
              re-encoded body when it differs, "id_ok": bool, "tx_same": bool | None}"""
    if not model_available(ctx):
        return
    # (1) the Lean CBOR layer must read every wire form the reference encoder emits and write it back unchanged
    #     (tags, indefinite arrays, chunked byte strings: `Pyc.C03.cbor_bytes_roundtrip` evaluated on these bytes);
    # (2) when the implementation (pure back end) reproduces the transaction byte for byte, the Lean typed codec run on
    #     the regenerated schema must restore it and re-encode to the same bytes as well (`reencode_same_bytes`)
    hx = enc.bytes.hex()
    k, m = ctx.driver().call({"op": "cbor.reenc", "hex": hx})
    ctx.traces += 1
    if k != "ok" or m != hx:
        ctx.diff("cbor.reenc", case_json(cls, spec_tx, wire), m, hx)
        return
    if result.get("r") == "ok" and result.get("tx_same") is True:
        k, m = ctx.driver().call({"op": "codec.dec", "cls": "Transaction", "hex": hx})
        ctx.traces += 1
        ctx.count("model:codec.dec")
        if k != "ok" or "err" in m or m.get("reenc") != hx:
            ctx.diff("codec.dec", case_json(cls, spec_tx, wire), m if k != "ok" or "err" in m else m.get("reenc"), hx)


# ---- evaluation --------------------------------------------------------------------------------------------------------------
def encode_case(tx, wire):
    try:
        e = C.encode(tx, wire)
    except C.SpecError as err:
        raise core.Infra(f"reference refuses a generated case: {err}")
    body, _, _ = L.tx_parts(e.bytes)        # second, independent computation of the body slice
    if body != e.body_bytes:
        raise core.Infra("body offsets of ref/conway.py disagree with ledger_ref.tx_parts")
    return e


def passed(res):
    return res["r"] == "ok" and res.get("id_ok") is True


def sig(res):
    return (res["r"], res.get("stage"), res.get("exc"), res.get("body"), res.get("id_ok"))


def describe(res):
    if res["r"] == "exc":
        return f"{res['stage']} raises {res['exc']}"
    if res["r"] == "body":
        return "the re-encoded body differs from the body bytes as received"
    if not res.get("id_ok"):
        return "the reported id is not blake2b-256 of the body bytes"
    return "ok"


def case_json(cls, tx, wire, **kw):
    return {"kind": "wire", "cls": cls, "spec": C.to_json(tx), "wire": wire.to_json(), **kw}


def judge_pure(ctx, cls, tx, wire, e, res):
    """in-process result under the pure back end on a SUPPORTED wire form"""
    if passed(res):
        return "pass"
    want = {"body": e.body_bytes.hex(), "id": hashlib.blake2b(e.body_bytes, digest_size=32).hexdigest()}
    case = case_json(cls, tx, wire, tx_hex=e.bytes.hex())
    got = res.get("body") or describe(res)
    present = [t for t in TRAITS if t[2](tx, wire)]
    if res["r"] == "ok":        # body reproduced but the id is not its hash: nothing recorded explains that
        present = []
    if present:
        btx, bw = tx, wire
        for t in present:
            btx, bw = t[3](btx, bw)
        be = encode_case(btx, bw)
        bres = W.evaluate(be.bytes, *be.body)
        if not passed(bres):
            # not explained by the recorded defects: the neutralised case (no recorded trait left) is the counterexample
            return judge_pure(ctx, cls + "/recorded-traits-neutralised", btx, bw, be, bres)
        if True:
            hit = []
            for t in present:
                vtx, vw = tx, wire
                for o in present:
                    if o is not t:
                        vtx, vw = o[3](vtx, vw)
                ve = encode_case(vtx, vw)
                if not passed(W.evaluate(ve.bytes, *ve.body)):
                    hit.append(t)
            if hit:
                for t in hit:
                    ctx.count("known:" + t[1] + ":" + t[0][:40])
                    ctx.violation(f"{describe(res)} ({t[0]})", case, want, got, finding=t[1])
                return "known"
    ctx.violation(f"pure-Python back end, supported wire form ({cls}): {describe(res)}", case, want, got)
    return "violation"


# ---- sub-process configuration matrix -----------------------------------------------------------------------------------------
def run_workers(configs, items):
    """configs: [(backend, hashseed)], items: [(i, Encoded)] -> {config: (hello, {i: result})}; all workers run concurrently"""
    tmp = tempfile.mkdtemp(prefix="c03-", dir="/tmp")
    try:
        req = os.path.join(tmp, "requests.jsonl")
        with open(req, "w") as f:
            for i, e in items:
                f.write(json.dumps({"i": i, "hex": e.bytes.hex(), "bs": e.body[0], "be": e.body[1]}) + "\n")
        procs = []
        for n, (backend, seed) in enumerate(configs):
            env = dict(os.environ, PYTHONHASHSEED=str(seed))
            env.pop("VERIF_CBOR", None)
            out = open(os.path.join(tmp, f"out{n}.jsonl"), "w")
            p = subprocess.Popen([sys.executable, WORKER, backend], stdin=open(req), stdout=out, stderr=subprocess.DEVNULL, env=env)
            procs.append((p, out))
        res = {}
        for n, ((backend, seed), (p, out)) in enumerate(zip(configs, procs)):
            try:
                p.wait(timeout=3600)
            except subprocess.TimeoutExpired:
                p.kill()
                raise core.Infra(f"C03 worker {backend}/{seed} timed out")
            out.close()
            lines = [json.loads(x) for x in open(os.path.join(tmp, f"out{n}.jsonl")) if x.strip()]
            if not lines or "hello" not in lines[0]:
                res[(backend, seed)] = (None, {})
                continue
            res[(backend, seed)] = (lines[0]["hello"], {r["i"]: r for r in lines[1:]})
        return res
    finally:
        shutil.rmtree(tmp, ignore_errors=True)


def judge_matrix(ctx, configs, entries):
    """entries: [(cls, tx, wire, Encoded, in-process result)] (supported forms only)"""
    results = run_workers(configs, [(i, e) for i, (_, _, _, e, _) in enumerate(entries)])
    ctx.extra.setdefault("configurations", [])
    for (backend, seed) in configs:
        hello, per = results[(backend, seed)]
        if hello is None:
            ctx.count(f"config:{backend}/{seed}:unavailable")
            if backend == "pure":
                raise core.Infra("the pure-Python worker did not start")
            continue
        if hello["backend"] != backend:
            # e.g. no compiled _cbor2 in this interpreter: the configuration does not exist here
            ctx.count(f"config:{backend}/{seed}:not-active")
            ctx.extra["configurations"].append({**hello, "requested": backend, "active": False})
            continue
        if os.path.realpath(hello["pycardano"]) != os.path.realpath(str(core.REPO / "pycardano")):
            raise core.Infra(f"worker imported pycardano from {hello['pycardano']}")
        ctx.extra["configurations"].append({**hello, "requested": backend, "active": True, "cases": len(per)})
        for i, (cls, tx, wire, e, inproc) in enumerate(entries):
            r = per.get(i)
            if r is None:
                raise core.Infra(f"worker {backend}/{seed} returned no result for case {i}")
            cfg = {"backend": backend, "hashseed": str(seed)}
            tag = f"config:{backend}/{seed}:"
            ctx.count(tag + ("pass" if passed(r) else r["r"] + (":" + r["exc"] if r["r"] == "exc" else "")))
            ctx.count(tag + "tx_same:" + str(r.get("tx_same")))
            case = case_json(cls, tx, wire, config=cfg, tx_hex=e.bytes.hex())
            want = {"body": e.body_bytes.hex(), "id": hashlib.blake2b(e.body_bytes, digest_size=32).hexdigest()}
            if backend == "pure":
                if sig(r) != sig(inproc):
                    ctx.violation(f"pure-Python back end: the result depends on the process configuration (PYTHONHASHSEED={seed}): "
                                  f"in-process {describe(inproc)}, worker {describe(r)}", case, want, r.get("body") or describe(r))
                continue
            if passed(r) or sig(r) == sig(inproc):
                continue          # passes, or fails exactly as under the pure back end (judged there)
            region = e.bytes if r["r"] == "exc" and r["stage"] == "decode" else e.body_bytes
            trig = cext_triggers(region)
            for t in sorted(trig):
                ctx.count(f"cext-failure-trigger:{t}")
            ctx.violation(f"C-extension back end (PYTHONHASHSEED={seed}): {describe(r)}; pure back end: {describe(inproc)}; "
                          f"triggers in the judged bytes: {sorted(trig) or 'none'}", case, want, r.get("body") or describe(r),
                          finding=KF_CEXT if trig else None)


# ---- wire variants -----------------------------------------------------------------------------------------------------------
def supported_wires(rng, tx, k=3):
    """k wire variants of the supported kind: all sets tagged, all bare, mixed; output forms drawn per output"""
    ws = []
    for style in (["tagged", "untagged"] + ["mixed"] * max(0, k - 2))[:k]:
        w = G.gen_wire(rng, tx, None, "c03")
        for site in C.SET_SITES:
            if style != "mixed":
                w.sets[site] = style == "tagged"
        ws.append(w)
    # framing of lists inside inline datums: the ledger's own (non-empty indefinite), all definite, and definite lists
    # nested directly inside indefinite ones (each is a legal wire form of the same datum with its own body bytes / id)
    if any((n[0] == "list" and n[1]) or (n[0] == "constr" and n[2]) for d in inline_datums(tx) for n in walk_pdata(d)):
        w = copy.deepcopy(ws[rng.randrange(len(ws))])
        w.plutus_lists = rng.choice(["definite", f"nested:{rng.randrange(2**32)}", f"nested:{rng.randrange(2**32)}"])
        ws.append(w)
    return ws


def examine_variants(rng, tx, wire):
    """(class, tx', wire') outside the property's list of supported forms"""
    out = []
    datums = inline_datums(tx)
    if any((n[0] == "list" and not n[1]) or (n[0] == "constr" and not n[2]) for d in datums for n in walk_pdata(d)):
        w = copy.deepcopy(wire)
        w.plutus_lists = "indefinite"
        out.append(("plutus-empty-list-indefinite", tx, w))
    w = copy.deepcopy(wire)
    w.table_order = "bytewise"
    out.append(("table-maps-bytewise-order", tx, w))
    keys = [C.BODY_KEY[n] for n in tx["body"] if n in C.BODY_KEY and tx["body"][n] is not None]
    if len(keys) > 1:
        w = copy.deepcopy(wire)
        w.body_order = sorted(keys, key=lambda _: rng.random())
        out.append(("body-keys-not-ascending", tx, w))
    w = copy.deepcopy(wire)
    w.strict = False
    t2 = copy.deepcopy(tx)
    t2["body"]["extra"] = [[rng.choice([6, 10, 12, 23, 24, 100]), 1]]
    out.append(("foreign-body-key", t2, w))
    for name in ("inputs", "required_signers", "collateral", "reference_inputs"):
        if tx["body"].get(name):
            t2 = copy.deepcopy(tx)
            t2["body"][name] = t2["body"][name] + [t2["body"][name][0]]
            out.append((f"duplicate-set-element:{'tagged' if wire.tagged(name) else 'bare'}", t2, w))
            break
    name = rng.choice(["certs", "collateral", "required_signers", "reference_inputs", "proposals"])
    t2 = copy.deepcopy(tx)
    t2["body"][name] = []
    out.append((f"empty-nonempty-set:{'tagged' if wire.tagged(name) else 'bare'}", t2, w))
    return out


PROPOSED = {
    "plutus-lists-definite": "KF-C03-inline-datum-definite-list (a definite-length non-empty list inside an inline datum is re-emitted indefinite: RawPlutusData.to_primitive rewrites every non-empty list)",
    "plutus-empty-list-indefinite": "KF-C03-inline-datum-9fff (an empty indefinite list inside an inline datum)",
    "plutus-long-bytes-unchunked": "-",
    "table-maps-bytewise-order": "KF-C03-table-map-order (multi-asset / withdrawal / voting maps are re-sorted length-first on encode; the ledger's own writer and cardano-cli emit plain bytewise order)",
    "body-keys-not-ascending": "KF-C03-body-key-order (the body map is re-emitted in field-declaration order; mainnet transaction 941502b0...84f5 of /repo/test writes key 13 before key 1 and pycardano reports id a8e7d447...)",
    "foreign-body-key": "KF-C03-foreign-body-key (DeserializeException: unexpected map key)",
    "duplicate-set-element:tagged": "KF-C03-set-dedup (OrderedSet drops the repeated element)",
    "duplicate-set-element:bare": "-",
    "empty-nonempty-set:tagged": "KF-C03-empty-tagged-set (NonEmptyOrderedSet refuses the empty tagged set with ValueError)",
    "empty-nonempty-set:bare": "-",
    "fixture": "KF-C03-body-key-order / KF-C03-table-map-order (captured transactions of /repo/test)",
}


def examine(ctx, cls, tx, wire, base_bytes=None):
    try:
        e = C.encode(tx, wire)
    except C.SpecError:
        ctx.count(f"examine:{cls}:not-encodable")
        return
    if base_bytes is not None and e.bytes == base_bytes:
        return                      # the variant does not change the bytes of this case
    res = W.evaluate(e.bytes, *e.body)
    ctx.count(f"examine:{cls}:" + ("pass" if passed(res) else res["r"] + (":" + res["exc"] if res["r"] == "exc" else "")))
    ctx.skipped += 0 if passed(res) else 1
    if not passed(res):
        ex = ctx.extra.setdefault("examined_failures", {})
        if cls not in ex:
            ex[cls] = {"proposed_finding": PROPOSED.get(cls, "-"), "tx": e.bytes.hex()[:4000], "body_expected": e.body_bytes.hex()[:2000],
                       "observed": (res.get("body") or describe(res))[:2000]}
    ctx.case({"kind": "examine", "cls": cls, "digest": hashlib.blake2b(e.bytes, digest_size=8).hexdigest(), "result": res["r"]}, nontrivial=True)


# ---- one supported case -------------------------------------------------------------------------------------------------------
def check_supported(ctx, cls, tx, wire, collect=None):
    e = encode_case(tx, wire)
    res = W.evaluate(e.bytes, *e.body)
    verdict = judge_pure(ctx, cls, tx, wire, e, res)
    model_hook(ctx, cls, tx, wire, e, res)
    ctx.count("supported:" + verdict)
    ctx.count("tx_same:" + str(res.get("tx_same")))
    for f in C.features(tx, wire):
        if f.startswith(("set:", "out:", "datum:", "script:", "count:", "body:", "pdata:list", "pdata:fields", "pdata:bytes")):
            ctx.count("feat:" + f)
    nb = sum(1 for n in tx["body"] if tx["body"][n] is not None)
    ctx.count(f"body-fields:{nb}")
    ctx.case({"kind": "wire", "cls": cls, "digest": hashlib.blake2b(e.bytes, digest_size=8).hexdigest(), "size": len(e.bytes),
              "verdict": verdict, "sets": "".join("T" if wire.tagged(s) else "b" for s in C.SET_SITES)})
    if collect is not None:
        collect.append((cls, tx, wire, e, res))
    return e


def fixture_txs():
    from checks.c02 import fixture_literals, tx_shaped
    out = []
    for f, line, hx in fixture_literals():
        try:
            x = R.dec(bytes.fromhex(hx))
        except Exception:  # noqa: BLE001
            continue
        if tx_shaped(x) and R.enc(x).hex() == hx:
            out.append((f, line, hx))
    return out


def examine_fixture(ctx, f, line, hx):
    b = bytes.fromhex(hx)
    body, _, _ = L.tx_parts(b)
    res = W.evaluate(b, 1, 1 + len(body))
    ctx.count("examine:fixture:" + ("pass" if passed(res) else res["r"]))
    if not passed(res):
        ctx.skipped += 1
        ctx.extra.setdefault("examined_failures", {}).setdefault(f"fixture {f}:{line}", {
            "proposed_finding": PROPOSED["fixture"], "id_expected": hashlib.blake2b(body, digest_size=32).hexdigest(),
            "observed": (res.get("body") or describe(res))[:600]})
    ctx.case({"kind": "fixture", "file": f, "line": line, "result": res["r"]})


# ---- corpus -------------------------------------------------------------------------------------------------------------------
def corpus():
    out = []
    h32 = bytes(range(32))
    addr = b"\x61" + bytes(28)
    base = {"inputs": [{"txid": h32, "ix": 2}, {"txid": h32, "ix": 1}, {"txid": bytes(32), "ix": 3}], "fee": 0}
    opts = [(None, None), ({"k": "hash", "hash": h32}, None), ({"k": "inline", "data": ["constr", 0, [["int", 1], ["list", []]]]}, None),
            (None, {"k": "plutus", "v": 2, "bytes": b"\x01"}), ({"k": "hash", "hash": h32}, {"k": "native", "script": {"k": "pubkey", "hash": bytes(28)}}),
            ({"k": "inline", "data": ["int", 0]}, {"k": "plutus", "v": 1, "bytes": b""})]
    outs = [{"addr": addr, "value": {"coin": 0, "assets": []}, "datum": d, "script": s} for d, s in opts]
    for tag in (True, False):
        for form in ("map", "legacy"):
            o = outs if form == "map" else outs[:2]
            out.append(("corpus", {"body": {**base, "outputs": o}, "wits": {}, "valid": True, "aux": None},
                        C.WireChoices(default_tag=tag, default_output=form)))
    from checks.c02 import corpus as c02_corpus
    for c in c02_corpus()[:8]:
        tx = C.from_json(c["spec"])
        for tag in (True, False):
            w = C.WireChoices.from_json(c["wire"])
            w.sets = {s: tag for s in C.SET_SITES}
            out.append(("corpus", tx, w))
    return out


def dispatch(ctx, case):
    tx, wire = C.from_json(case["spec"]), C.WireChoices.from_json(case["wire"])
    cls = case.get("cls", "replay")
    if case.get("config"):
        e = encode_case(tx, wire)
        res = W.evaluate(e.bytes, *e.body)
        judge_matrix(ctx, [(case["config"]["backend"], case["config"]["hashseed"])], [(cls, tx, wire, e, res)])
        ctx.case({"kind": "wire", "cls": cls, "config": case["config"]})
    elif cls.startswith("examine:"):
        examine(ctx, cls[len("examine:"):], tx, wire)
    else:
        check_supported(ctx, cls, tx, wire)


def run(ctx):
    ctx.rule = ("spec-level transactions from vlib/txgen.gen_spec_tx (coverage-biased: optional body fields in random subsets, "
                "element counts 0..6, outputs with no datum / datum hash / inline datum x no script / native / Plutus V1-V3) x 3 "
                "wire variants each (all sets tagged, all bare, per-site mix; output form drawn per output), encoded by "
                "ref/conway.py; decoded and re-encoded in-process under the pure-Python cbor2 back end; a subsample re-run in "
                "sub-processes for {pure, C extension} x PYTHONHASHSEED; plus variants outside the property's list (examine:*) "
                "and the captured transactions of /repo/test; a case is non-trivial if its bytes are distinct")
    ctx.assumptions = [
        "the body slice is computed twice (ref/conway.py offsets, ledger_ref.tx_parts) and must agree; the id oracle is hashlib.blake2b",
        "supported wire forms = the property's list; Plutus data inside them uses the ledger's own framing (C18 reference); "
        "unchunked long byte strings, map key orders other than ascending / length-first, foreign "
        "body keys, duplicate and empty sets are examined and reported but not judged",
        "a recorded defect is matched by counterfactual re-evaluation (neutralise the trait: passes; re-enable it alone: fails)",
        "a C-extension failure is booked on KF-C03-cext-backend only when the pure back end behaves differently on the same "
        "bytes and the judged bytes hold a tag-258 set of >= 2 elements, a tag-258 set with a map / set inside an element, or an "
        "indefinite-length array; if the interpreter has no compiled _cbor2 the configuration is reported as not active",
    ]
    ctx.extra["trusted"] = ["ref/conway.py (validated against the fixtures of /repo/test by C02)", "ref/cbor_ref.py", "hashlib.blake2b"]
    rng = ctx.rng
    cov = G.Coverage()
    matrix = []
    for cls, tx, wire in corpus():
        check_supported(ctx, cls, tx, wire, matrix)
    for f, line, hx in fixture_txs():
        examine_fixture(ctx, f, line, hx)
    n = ctx.budget(250, 7000)
    n_matrix = ctx.budget(240, 7000)
    for i in range(n):
        tx = G.gen_spec_tx(rng, cov, max_elems=6)
        for j, wire in enumerate(supported_wires(rng, tx, 3)):
            check_supported(ctx, "supported", tx, wire, matrix if len(matrix) < n_matrix else None)
            if j == 2 and i % 2 == 0:
                # variants outside the property's list are derived from a base that passes (recorded traits neutralised),
                # so that what is observed on them is due to the variant alone
                btx, bw = neutralise(tx, wire)
                be = encode_case(btx, bw)
                if passed(W.evaluate(be.bytes, *be.body)):
                    for cls, t2, w2 in examine_variants(rng, btx, bw):
                        examine(ctx, cls, t2, w2, be.bytes)
                    ctx2, cw2 = neutralise(tx, wire, keep=KF_CHUNK)        # long byte strings kept, written unchunked
                    if any(n[0] == "bytes" and len(n[1]) > 64 for d in inline_datums(ctx2) for n in walk_pdata(d)):
                        cw2 = copy.deepcopy(cw2)
                        cw2.plutus_bytes = "definite"
                        examine(ctx, "plutus-long-bytes-unchunked", ctx2, cw2)
    seeds = ["0", "1", "2", "random"] if ctx.thorough else ["0", "1"]
    configs = [(b, s) for b in ("pure", "cext") for s in seeds]
    judge_matrix(ctx, configs, matrix)
    ctx.extra["matrix_cases"] = len(matrix)
    ctx.extra["proposed_findings_for_examined_classes"] = PROPOSED


def replay(ctx, data):
    if "input" in data:
        dispatch(ctx, data["input"])
    for d in data.get("correspondence", []):
        dispatch(ctx, d["input"])
