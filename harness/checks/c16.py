"""C16 — HD wallet derivation follows CIP-3 Icarus and BIP32-Ed25519.

(a) T2 correspondence of the Lean model (Pyc/Model/Bip32.lean, via the driver) with pycardano's `HDWallet`
    (`from_entropy` / `from_mnemonic` / `from_seed`, `derive`, `derive_from_path`) and `ExtendedSigningKey.sign`:
    the harness computes every primitive result (PBKDF2, HMAC-SHA512, SHA-512 with hashlib; curve operations with the
    pure-Python reference) and passes them to the driver as tables; the driver returns the model's result *and* the
    byte strings the model feeds to the HMAC, which must be the ones that were hashed.
(b) direct evaluation of the property on the implementation against an independent reference
    (harness/ref/bip32ed25519_ref.py, harness/ref/ed25519_ref.py): root keys, every node along generated paths
    (kL‖kR, public key, chain code), public = private derivation for soft children, hardened public derivation
    refused, derive_from_path = step-by-step, signatures of derived keys verify under the derived public key."""
from __future__ import annotations

import hashlib

from nacl import bindings

from pycardano.crypto.bip32 import HDWallet
from pycardano.key import ExtendedSigningKey

from ref import bip32ed25519_ref as R
from ref import ed25519_ref as E

HARD = 1 << 31
M255 = (1 << 255) - 1


# ---------------------------------------------------------------------------------------------------------------
def node_json(w):
    return {"xprv": w.xprivate_key.hex(), "pub": w.public_key.hex(), "cc": w.chain_code.hex()}


def ref_json(k):
    return {"xprv": k.xprv_bytes().hex(), "pub": k.A.hex(), "cc": k.c.hex()}


def attempt(f):
    """('ok', value) or ('reject', None): only accept/reject is observable of errors"""
    try:
        return ("ok", f())
    except Exception:  # ValueError, AssertionError, OverflowError, IndexError, nacl RuntimeError/TypeError ...
        return ("reject", None)


def hx(b):
    return bytes(b).hex()


def render_path(steps):
    return "m/" + "/".join(f"{i}'" if h else str(i) for i, h in steps)


def index_class(i, h):
    if (i, h) in ((1852, True), (1815, True)):
        return "cip1852-purpose/coin"
    if i == 0:
        return "0'" if h else "0"
    if i == HARD - 1:
        return "(2^31-1)'" if h else "2^31-1"
    if i < 3:
        return "small'" if h else "small(role)"
    if i in (255, 256, 65535, 65536, 1 << 24):
        return "byte-boundary'" if h else "byte-boundary"
    return "random'" if h else "random"


# ---------------------------------------------------------------------------------------------------------------
# tables of primitive results for the driver
def tables_priv_step(k, final):
    """k: reference parent (XPrv). returns (tables, mz, mc, child)"""
    mz, mc = R.child_messages(k, final)
    Z, C = R.hmac512(k.c, mz), R.hmac512(k.c, mc)
    kc = R.child_priv(k, final)
    t = {"hm": [[hx(k.c), hx(mz), hx(Z)], [hx(k.c), hx(mc), hx(C)]],
         "sb": [[str(kc.kL & M255), hx(kc.A)]]}
    return t, mz, mc, kc


def tables_pub_step(A, c, final):
    """A, c: parent public key and chain code (bytes)"""
    ser = final.to_bytes(4, "little")
    mz, mc = b"\x02" + A + ser, b"\x03" + A + ser
    Z, C = R.hmac512(c, mz), R.hmac512(c, mc)
    z8 = 8 * int.from_bytes(Z[:28], "little")
    Q = E.encode(E.base_mul(z8))
    P = E.decode(A)
    valid = [hx(Q)]
    add = []
    if P is not None:
        valid.append(hx(A))
        add.append([hx(A), hx(Q), hx(E.encode(E.point_add(P, E.decode(Q))))])
    return {"hm": [[hx(c), hx(mz), hx(Z)], [hx(c), hx(mc), hx(C)]], "sb": [[str(z8 & M255), hx(Q)]],
            "add": add, "valid": valid}, mz, mc


def tables_sign(xprv64, msg):
    kL = int.from_bytes(xprv64[:32], "little")
    kR = xprv64[32:64]
    A = E.encode(E.base_mul(kL & M255))
    h1 = hashlib.sha512(kR + msg).digest()
    r = int.from_bytes(h1, "little") % E.L
    Rb = E.encode(E.base_mul(r))
    h2 = hashlib.sha512(Rb + A + msg).digest()
    return {"sha": [[hx(kR + msg), hx(h1)], [hx(Rb + A + msg), hx(h2)]],
            "sb": [[str(kL & M255), hx(A)], [str(r), hx(Rb)]]}


# ---------------------------------------------------------------------------------------------------------------
def make_root(case):
    ent = bytes.fromhex(case["entropy"])
    pw = case["passphrase"]
    via = case["via"]
    if via == "mnemonic":
        return attempt(lambda: HDWallet.from_mnemonic(R.entropy_to_mnemonic(ent, case.get("language", "english")), pw))
    if via == "seed":
        seed = R.kdf(pw.encode(), ent)
        return attempt(lambda: HDWallet.from_seed(seed.hex()))
    return attempt(lambda: HDWallet.from_entropy(ent.hex(), pw))


def check_walk(ctx, case):
    """case = {kind: walk, entropy, passphrase, via, steps: [[i, hardened]...], msgs: [hex...]}"""
    drv = ctx.driver() if ctx.have_driver() else None
    ent = bytes.fromhex(case["entropy"])
    pw = case["passphrase"].encode()
    steps = [(int(i), bool(h)) for i, h in case["steps"]]
    ctx.count(f"entropy:{len(ent)}")
    ctx.count("via:" + case["via"])
    ctx.count("passphrase:" + ("empty" if not pw else "ascii" if case["passphrase"].isascii() else "unicode"))
    ctx.count(f"depth:{len(steps)}")
    ctx.case(case)

    # ---- root ------------------------------------------------------------------------------------------------
    k = R.icarus_master(ent, pw)
    st, w = make_root(case)
    if st != "ok":
        ctx.violation("root derivation refused for a valid entropy/mnemonic", case, ref_json(k), "reject")
        return
    if node_json(w) != ref_json(k):
        ctx.violation("root key differs from CIP-3 Icarus master key generation", case, ref_json(k), node_json(w))
        return
    if (w.root_xprivate_key, w.root_public_key, w.root_chain_code) != (w.xprivate_key, w.public_key, w.chain_code):
        ctx.violation("root_* fields differ from the root node", case, ref_json(k),
                      {"xprv": hx(w.root_xprivate_key), "pub": hx(w.root_public_key), "cc": hx(w.root_chain_code)})
    if drv:
        data = R.kdf(pw, ent)
        m = drv.ok({"op": "bip32.root", "entropy": hx(ent), "passphrase": hx(pw),
                    "kdf": [[hx(pw), hx(ent), hx(data)]], "sb": [[str(k.kL & M255), hx(k.A)]]})
        ctx.traces += 1
        if m["node"] != node_json(w):
            ctx.diff("bip32.root", case, m["node"], node_json(w))
    root = w

    # ---- every node along the path ----------------------------------------------------------------------------
    for n, (i, h) in enumerate(steps):
        final = i + (HARD if h else 0)
        sub = {**case, "steps": case["steps"][: n + 1], "msgs": []}
        ctx.count("index:" + index_class(i, h))
        t, mz, mc, kc = tables_priv_step(k, final)
        st, wc = attempt(lambda: w.derive(i, private=True, hardened=h))
        if st != "ok":
            ctx.violation(f"private derivation of step {n} refused", sub, ref_json(kc), "reject")
            return
        if node_json(wc) != ref_json(kc):
            ctx.violation(f"private child at step {n} differs from BIP32-Ed25519", sub, ref_json(kc), node_json(wc))
            return
        if drv:
            m = drv.ok({"op": "bip32.child", "node": node_json(w), "index": str(i), "hardened": h, "private": True, **t})
            ctx.traces += 1
            if (m.get("zmsg"), m.get("cmsg"), m.get("key"), m.get("final")) != (hx(mz), hx(mc), hx(k.c), str(final)):
                ctx.diff("bip32.child:preimages", sub, {x: m.get(x) for x in ("zmsg", "cmsg", "key", "final")},
                         {"zmsg": hx(mz), "cmsg": hx(mc), "key": hx(k.c), "final": str(final)})
            if m["node"] != node_json(wc):
                ctx.diff("bip32.child:private", sub, m["node"], node_json(wc))
        # public-only derivation of the same child
        st, wp = attempt(lambda: w.derive(i, private=False, hardened=h))
        if final < HARD:
            pc = R.child_pub(k.neuter(), final)
            if st != "ok":
                ctx.violation(f"public derivation of soft step {n} refused", sub, {"pub": hx(pc.A), "cc": hx(pc.c)}, "reject")
                return
            got = {"pub": hx(wp.public_key), "cc": hx(wp.chain_code)}
            if got != {"pub": hx(wc.public_key), "cc": hx(wc.chain_code)}:
                ctx.violation(f"public derivation of soft step {n} disagrees with private derivation", sub,
                              {"pub": hx(wc.public_key), "cc": hx(wc.chain_code)}, got)
                return
            if got != {"pub": hx(pc.A), "cc": hx(pc.c)}:
                ctx.violation(f"public child at step {n} differs from BIP32-Ed25519", sub,
                              {"pub": hx(pc.A), "cc": hx(pc.c)}, got)
                return
            ctx.count("pub=priv")
            if drv:
                tp, pz, pcm = tables_pub_step(w.public_key, w.chain_code, final)
                m = drv.ok({"op": "bip32.child", "node": node_json(w), "index": str(i), "hardened": h,
                            "private": False, **tp})
                ctx.traces += 1
                if m["node"] != node_json(wp):
                    ctx.diff("bip32.child:public", sub, m["node"], node_json(wp))
        else:
            if st == "ok":
                ctx.violation(f"hardened public derivation at step {n} not refused", sub, "reject", node_json(wp))
                return
            ctx.count("hardened-public-refused")
            if drv:
                m = drv.ok({"op": "bip32.child", "node": node_json(w), "index": str(i), "hardened": h, "private": False})
                ctx.traces += 1
                if m["node"] is not None:
                    ctx.diff("bip32.child:public-hardened", sub, m["node"], "reject")
        w, k = wc, kc

    # ---- path string = step by step ---------------------------------------------------------------------------
    s = render_path(steps)
    st, wpth = attempt(lambda: root.derive_from_path(s))
    if st != "ok" or node_json(wpth) != node_json(w):
        ctx.violation("derive_from_path differs from step-by-step derivation", {**case, "path": s, "msgs": []},
                      node_json(w), node_json(wpth) if st == "ok" else "reject")
        return
    if drv:
        m = drv.ok({"op": "bip32.path", "path": s})
        ctx.traces += 1
        if m != [[str(i), h] for i, h in steps]:
            ctx.diff("bip32.path", {"path": s}, m, [[str(i), h] for i, h in steps])
    # public route along the soft suffix, from the node after the last hardened step
    cut = max([n + 1 for n, (_, h) in enumerate(steps) if h], default=0)
    if cut < len(steps):
        base = root.derive_from_path(render_path(steps[:cut])) if cut else root
        st, wpub = attempt(lambda: base.derive_from_path(render_path(steps[cut:]), private=False))
        if st != "ok" or (wpub.public_key, wpub.chain_code) != (w.public_key, w.chain_code):
            ctx.violation("public derive_from_path along the soft suffix disagrees with private derivation",
                          {**case, "path": s, "msgs": []}, {"pub": hx(w.public_key), "cc": hx(w.chain_code)},
                          {"pub": hx(wpub.public_key), "cc": hx(wpub.chain_code)} if st == "ok" else "reject")
            return
        ctx.count("public-suffix-path")
    if cut > 0:
        st, wbad = attempt(lambda: root.derive_from_path(s, private=False))
        if st == "ok":
            ctx.violation("public derive_from_path through a hardened component not refused",
                          {**case, "path": s, "msgs": []}, "reject", node_json(wbad))
            return

    # ---- the same relative path taken from several nodes of one wallet (account 0' and 1', then `m/0/0` from each),
    # repeatedly and interleaved: each result must be the step-by-step derivation from ITS starting node
    if len(steps) >= 2:
        rel = steps[1:]
        rel_s = render_path(rel)
        i0, h0 = steps[0]
        starts = [(i0, h0), ((i0 + 1) % HARD, h0), (i0, not h0)]
        seen = {}
        for rnd in range(2):
            for (a, ha) in starts:
                st, base = attempt(lambda: root.derive(a, private=True, hardened=ha))
                if st != "ok":
                    continue
                exp = base
                for (i, h) in rel:
                    exp = exp.derive(i, private=True, hardened=h)
                st, got = attempt(lambda: base.derive_from_path(rel_s))
                if st != "ok" or node_json(got) != node_json(exp):
                    ctx.violation("derive_from_path from an intermediate node differs from step-by-step derivation from that node",
                                  {**case, "start": [str(a), ha], "path": rel_s, "round": rnd, "msgs": []},
                                  node_json(exp), node_json(got) if st == "ok" else "reject")
                    return
                seen[(a, ha)] = node_json(got)["pub"] if isinstance(node_json(got), dict) and "pub" in node_json(got) else str(node_json(got))
        if len(set(seen.values())) != len(seen):
            ctx.violation("distinct starting nodes gave the same descendant for one relative path", {**case, "path": rel_s, "msgs": []},
                          "pairwise distinct", sorted(seen.values()))
            return
        ctx.count("relative-path-from-several-nodes")

    # ---- signatures of the derived key -------------------------------------------------------------------------
    for mh in case["msgs"]:
        msg = bytes.fromhex(mh)
        for who, node in (("derived", w), ("root", root)):
            sk = ExtendedSigningKey.from_hdwallet(node)
            vk = sk.to_verification_key().to_non_extended().payload
            sig = sk.sign(msg)
            sub = {**case, "msgs": [mh], "signer": who}
            if vk != node.public_key:
                ctx.violation("verification key of the derived signing key is not the derived public key", sub,
                              hx(node.public_key), hx(vk))
                return
            if not E.verify(node.public_key, msg, sig):
                ctx.violation("signature of a derived key does not verify under the derived public key", sub,
                              "valid signature", hx(sig))
                return
            if who == "root" and mh == case["msgs"][0] and E.verify(node.public_key, msg + b"\x00", sig):
                raise AssertionError("reference verifier accepts a signature for another message")
            ctx.count("sig:" + ("0" if not msg else "1-63" if len(msg) < 64 else "64-255" if len(msg) < 256 else "256"))
            if drv:
                m = drv.ok({"op": "bip32.sign", "node": node_json(node), "msg": mh, **tables_sign(node.xprivate_key, msg)})
                ctx.traces += 1
                if m != hx(sig):
                    ctx.diff("bip32.sign", sub, m, hx(sig))


# ---------------------------------------------------------------------------------------------------------------
def check_tweak(ctx, case):
    """case = {kind: tweak, seed}: `_tweak_bits` / `from_seed` against the CIP-3 bit rule on integers"""
    seed = bytes.fromhex(case["seed"])
    ctx.case(case)
    ctx.count("tweak:len<32" if len(seed) < 32 else "tweak:len=96" if len(seed) == 96 else "tweak:other")
    st, got = attempt(lambda: HDWallet._tweak_bits(bytearray(seed)))
    if len(seed) >= 32:
        exp = R.clamp_icarus(int.from_bytes(seed[:32], "little")).to_bytes(32, "little") + seed[32:]
        if st != "ok" or bytes(got) != exp:
            ctx.violation("_tweak_bits is not the CIP-3 clamp", case, hx(exp), hx(got) if st == "ok" else "reject")
            return
    if ctx.have_driver():
        m = ctx.driver().ok({"op": "bip32.tweak", "seed": case["seed"]})
        ctx.traces += 1
        if m != (hx(got) if st == "ok" else None):
            ctx.diff("bip32.tweak", case, m, hx(got) if st == "ok" else None)
    if len(seed) >= 32:
        # from_seed: the fields of the wallet
        st2, w = attempt(lambda: HDWallet.from_seed(seed.hex()))
        kL = int.from_bytes(exp[:32], "little")
        A = E.public_from_scalar(kL)
        if len(seed) == 96:
            expn = {"xprv": hx(exp[:64]), "pub": hx(A), "cc": hx(exp[64:])}
            if st2 != "ok" or node_json(w) != expn:
                ctx.violation("from_seed does not split the tweaked master key into kL‖kR, A, c", case, expn,
                              node_json(w) if st2 == "ok" else "reject")
                return
        if ctx.have_driver():
            m = ctx.driver().ok({"op": "bip32.from_seed", "seed": case["seed"], "sb": [[str(kL & M255), hx(A)]]})
            ctx.traces += 1
            if m["node"] != (node_json(w) if st2 == "ok" else None):
                ctx.diff("bip32.from_seed", case, m["node"], node_json(w) if st2 == "ok" else None)


def check_entropy_len(ctx, case):
    """case = {kind: entlen, entropy, passphrase}: accept/reject of entropy lengths (T2 only)"""
    ent = bytes.fromhex(case["entropy"])
    ctx.case(case)
    st, w = attempt(lambda: HDWallet.from_entropy(ent.hex(), case["passphrase"]))
    ctx.count(f"entlen:{'ok' if st == 'ok' else 'reject'}")
    if ctx.have_driver():
        pw = case["passphrase"].encode()
        data = hashlib.pbkdf2_hmac("sha512", pw, ent, 4096, 96) if ent else bytes(96)
        kL = R.clamp_icarus(int.from_bytes(data[:32], "little"))
        m = ctx.driver().ok({"op": "bip32.root", "entropy": hx(ent), "passphrase": hx(pw),
                             "kdf": [[hx(pw), hx(ent), hx(data)]], "sb": [[str(kL), hx(E.public_from_scalar(kL))]]})
        ctx.traces += 1
        if m["node"] != (node_json(w) if st == "ok" else None):
            ctx.diff("bip32.root:length", case, m["node"], node_json(w) if st == "ok" else None)
    if st == "ok" and len(ent) in (16, 20, 24, 28, 32):
        k = R.icarus_master(ent, case["passphrase"].encode())
        if node_json(w) != ref_json(k):
            ctx.violation("root key differs from CIP-3 Icarus master key generation", case, ref_json(k), node_json(w))


def check_mnemonic_lang(ctx, case):
    """non-English BIP-39 mnemonics: a root, if produced, must be the Icarus root of the mnemonic's entropy"""
    ent = bytes.fromhex(case["entropy"])
    ctx.case(case)
    words = R.entropy_to_mnemonic(ent, case["language"])
    st, w = attempt(lambda: HDWallet.from_mnemonic(words, case["passphrase"]))
    ctx.count(f"mnemonic:{case['language']}:{'ok' if st == 'ok' else 'refused'}")
    if st == "ok":
        k = R.icarus_master(ent, case["passphrase"].encode())
        if node_json(w) != ref_json(k):
            ctx.violation("root key of a non-English mnemonic differs from the Icarus key of its entropy", case,
                          ref_json(k), node_json(w))
    else:
        ctx.skipped += 1      # refused, not mis-derived: outside what the property fixes


def check_oddindex(ctx, case):
    """case = {kind: oddindex, entropy, index, hardened, private}: indices at and beyond the range limits"""
    ent = bytes.fromhex(case["entropy"])
    i, h, priv = int(case["index"]), case["hardened"], case["private"]
    ctx.case(case)
    k = R.icarus_master(ent, b"")
    root = HDWallet.from_entropy(ent.hex())
    final = i + (HARD if h else 0)
    st, wc = attempt(lambda: root.derive(i, private=priv, hardened=h))
    ctx.count(f"oddindex:{'ok' if st == 'ok' else 'reject'}")
    if 0 <= final < (1 << 32) and (priv or final < HARD):
        # a defined child: must be the reference's
        if priv:
            exp = ref_json(R.child_priv(k, final))
        else:
            pc = R.child_pub(k.neuter(), final)
            exp = {"xprv": hx(root.xprivate_key), "pub": hx(pc.A), "cc": hx(pc.c)}
        if st != "ok" or node_json(wc) != exp:
            ctx.violation("child for a boundary index differs from BIP32-Ed25519", case, exp,
                          node_json(wc) if st == "ok" else "reject")
            return
    elif st == "ok":
        what = "hardened public derivation not refused" if 0 <= final < (1 << 32) else "child number outside [0, 2^32) accepted"
        ctx.violation(what, case, "reject", node_json(wc))
        return
    if ctx.have_driver():
        t = {}
        if 0 <= final < (1 << 32):
            t = tables_priv_step(k, final)[0] if priv else (tables_pub_step(k.A, k.c, final)[0] if final < HARD else {})
        m = ctx.driver().ok({"op": "bip32.child", "node": node_json(root), "index": str(i), "hardened": h,
                             "private": priv, **t})
        ctx.traces += 1
        if m["node"] != (node_json(wc) if st == "ok" else None):
            ctx.diff("bip32.child:boundary", case, m["node"], node_json(wc) if st == "ok" else None)


_PATH_ROOT = {}


def path_root():
    if "w" not in _PATH_ROOT:
        ent = bytes(range(1, 17))
        _PATH_ROOT["w"] = HDWallet.from_entropy(ent.hex())
        _PATH_ROOT["k"] = R.icarus_master(ent, b"")
    return _PATH_ROOT["w"], _PATH_ROOT["k"]


def check_pathstr(ctx, case):
    """case = {kind: pathstr, path}: arbitrary ASCII path strings. The model's parse decides the components; the
    implementation must accept/reject accordingly and, if it accepts, equal its own step-by-step derivation and the
    reference along the parsed child numbers."""
    s = case["path"]
    ctx.case(case)
    root, k = path_root()
    st, w = attempt(lambda: root.derive_from_path(s))
    ctx.count(f"pathstr:{'ok' if st == 'ok' else 'reject'}")
    if not ctx.have_driver():
        return
    parsed = ctx.driver().ok({"op": "bip32.path", "path": s})
    ctx.traces += 1
    if parsed is None:
        if st == "ok":
            ctx.diff("bip32.path:accept", case, None, node_json(w))
        return
    steps = [(int(i), bool(h)) for i, h in parsed]
    # step by step on the implementation and on the reference
    cur, kk, ok = root, k, True
    for i, h in steps:
        final = i + (HARD if h else 0)
        st2, cur2 = attempt(lambda: cur.derive(i, hardened=h))
        if st2 != "ok":
            ok = False
            break
        if not 0 <= final < (1 << 32):
            ctx.violation("child number outside [0, 2^32) accepted by derive", {**case, "steps": parsed}, "reject",
                          node_json(cur2))
            return
        kk = R.child_priv(kk, final)
        cur = cur2
    if not ok:
        if st == "ok":
            ctx.violation("derive_from_path accepts a path whose step-by-step derivation is refused", case, "reject",
                          node_json(w))
        return
    if st != "ok":
        ctx.diff("bip32.path:reject", case, parsed, "reject")
        return
    if node_json(w) != node_json(cur):
        ctx.violation("derive_from_path differs from step-by-step derivation", {**case, "steps": parsed},
                      node_json(cur), node_json(w))
        return
    if node_json(w) != ref_json(kk):
        ctx.violation("derive_from_path differs from BIP32-Ed25519 along the parsed child numbers",
                      {**case, "steps": parsed}, ref_json(kk), node_json(w))


def check_wrapper(ctx, case):
    """case = {kind: wrapper, n}: the modelled behaviour of `crypto_scalarmult_ed25519_base_noclamp` (bit 255 cleared,
    zero scalar / neutral result refused) against libsodium itself, with the curve arithmetic of the reference"""
    n = int(case["n"])
    ctx.case(case)
    b = n.to_bytes(32, "little")
    st, q = attempt(lambda: bindings.crypto_scalarmult_ed25519_base_noclamp(b))
    exp_q = E.encode(E.base_mul(n & M255))
    exp = None if (n == 0 or (n & M255) % E.L == 0) else exp_q
    got = q if st == "ok" else None
    ctx.count("wrapper:" + ("refused" if got is None else "bit255" if n > M255 else "plain"))
    if got != exp:
        # libsodium / PyNaCl differ from their documented behaviour: not a pycardano defect, but the model's premise
        ctx.diff("libsodium:scalarmult_base_noclamp", case, hx(exp) if exp else None, hx(got) if got else None)
    if ctx.have_driver():
        m = ctx.driver().ok({"op": "bip32.scalarmult", "n": hx(b), "sb": [[str(n & M255), hx(exp_q)]]})
        ctx.traces += 1
        if m != (hx(got) if got else None):
            ctx.diff("bip32.scalarmult", case, m, hx(got) if got else None)


# ---------------------------------------------------------------------------------------------------------------
SPECIAL = [(0, False), (1, False), (2, False), (HARD - 1, False), (0, True), (1852, True), (1815, True),
           (HARD - 1, True), (1, True), (2, True), (255, False), (256, False), (65535, True), (65536, False),
           (1 << 24, True), (1 << 24, False)]
PASSPHRASES = ["", "", "foo", "TREZOR", "correct horse battery staple", "pässwörd", "пароль ✓ 密码", " ", "a" * 200]
MSG_LENS = [0, 1, 31, 32, 33, 63, 64, 65, 127, 128, 255, 256]


def gen_steps(rng):
    r = rng.random()
    if r < 0.2:   # CIP-1852 shape: purpose' / coin' / account' / role / index
        acct = rng.choice([0, 1, 2, rng.randrange(HARD), HARD - 1])
        idx = rng.choice([0, 1, rng.randrange(1000), rng.randrange(HARD), HARD - 1])
        full = [(1852, True), (1815, True), (acct, True), (rng.choice([0, 1, 2]), False), (idx, False)]
        return full[: rng.randint(1, 5)] if rng.random() < 0.3 else full + ([(rng.randrange(HARD), False)] if rng.random() < 0.2 else [])
    depth = rng.randint(1, 6)
    out = []
    for _ in range(depth):
        q = rng.random()
        if q < 0.5:
            out.append(rng.choice(SPECIAL))
        elif q < 0.8:
            out.append((rng.randrange(HARD), rng.random() < 0.5))
        else:
            out.append((rng.randrange(1 << rng.choice([4, 8, 12, 16, 20, 24])), rng.random() < 0.5))
    return out


def gen_walk(rng):
    ent = rng.randbytes(rng.choice([16, 20, 24, 28, 32]))
    msgs = [rng.randbytes(rng.choice(MSG_LENS) if rng.random() < 0.6 else rng.randint(0, 256)).hex() for _ in range(2)]
    return {"kind": "walk", "entropy": ent.hex(), "passphrase": rng.choice(PASSPHRASES),
            "via": rng.choice(["entropy"] * 6 + ["mnemonic"] * 3 + ["seed"]),
            "steps": [[i, h] for i, h in gen_steps(rng)], "msgs": msgs}


def gen_seed(rng):
    n = rng.choice([0, 1, 31, 32, 33, 64, 95, 96, 96, 96, 96, 97, 128])
    r = rng.random()
    if r < 0.15:
        b = bytes([0xFF]) * n
    elif r < 0.3:
        b = bytes(n)
    else:
        b = rng.randbytes(n)
    return {"kind": "tweak", "seed": b.hex()}


PATH_ALPHABET = "0123456789" * 3 + "m//'' _+-" + "xa.\t"


def gen_pathstr(rng):
    r = rng.random()
    if r < 0.45:
        # mutate a well-formed path by a few character edits
        s = list(render_path(gen_steps(rng)))
        for _ in range(rng.randint(1, 3)):
            p = rng.randrange(len(s) + 1)
            q = rng.random()
            if q < 0.4:
                s.insert(p, rng.choice(PATH_ALPHABET))
            elif q < 0.7 and s:
                del s[min(p, len(s) - 1)]
            elif s:
                s[min(p, len(s) - 1)] = rng.choice(PATH_ALPHABET)
        return {"kind": "pathstr", "path": "".join(s)}
    if r < 0.75:
        # components of Python-int syntax: signs, spaces, underscores, leading zeros, out-of-range values
        comps = []
        for _ in range(rng.randint(1, 4)):
            v = rng.choice([0, 1, 7, 1852, HARD - 1, HARD, HARD + 1, (1 << 32) - 1, 1 << 32, rng.randrange(1 << 33)])
            t = str(v)
            q = rng.random()
            if q < 0.15:
                t = "+" + t
            elif q < 0.3:
                t = "-" + t
            elif q < 0.4:
                t = "00" + t
            elif q < 0.5 and len(t) > 2:
                t = t[:1] + "_" + t[1:]
            elif q < 0.6:
                t = " " + t + rng.choice([" ", "\t", ""])
            elif q < 0.65:
                t = t + "_"
            if rng.random() < 0.4:
                t += "'"
            if rng.random() < 0.05:
                t += "'"
            comps.append(t)
        pre = rng.choice(["m/", "m/", "m/", "m//", "m/m/", "M/", "/", "", "m"])
        return {"kind": "pathstr", "path": pre + "/".join(comps) + rng.choice(["", "", "", "/"])}
    return {"kind": "pathstr", "path": "".join(rng.choice(PATH_ALPHABET) for _ in range(rng.randint(0, 12)))}


def gen_oddindex(rng):
    i = rng.choice([-1, -2, -HARD, -HARD - 1, 0, 1, HARD - 1, HARD, HARD + 1, (1 << 32) - 1, 1 << 32, (1 << 32) + 1,
                    rng.randrange(-(1 << 33), 1 << 33)])
    return {"kind": "oddindex", "entropy": rng.randbytes(16).hex(), "index": str(i), "hardened": rng.random() < 0.5,
            "private": rng.random() < 0.6}


def gen_wrapper(rng):
    n = rng.choice([0, 1, 8, E.L, E.L - 1, E.L + 1, 2 * E.L, 1 << 255, (1 << 255) + 1, (1 << 255) + E.L, (1 << 256) - 1,
                    (1 << 255) - 8, rng.randrange(1 << 256), rng.randrange(1 << 256), rng.randrange(1 << 252)])
    return {"kind": "wrapper", "n": str(n)}


def dispatch(ctx, case):
    {"walk": check_walk, "tweak": check_tweak, "entlen": check_entropy_len, "mnemonic": check_mnemonic_lang,
     "oddindex": check_oddindex, "pathstr": check_pathstr, "wrapper": check_wrapper}[case["kind"]](ctx, case)


def corpus():
    e16 = bytes(range(16)).hex()
    return [
        # the CIP-1852 path of the docstring / cardano-addresses vector, all three root constructors
        {"kind": "walk", "entropy": "df9ed25ed146bf43336a5d7cf7395994", "passphrase": "", "via": "mnemonic",
         "steps": [[1852, True], [1815, True], [0, True], [0, False], [0, False]], "msgs": ["", "00" * 256]},
        {"kind": "walk", "entropy": e16, "passphrase": "foo", "via": "entropy",
         "steps": [[HARD - 1, True], [HARD - 1, False], [0, True], [0, False], [256, False], [1, True]], "msgs": ["ff"]},
        {"kind": "walk", "entropy": bytes(range(32)).hex(), "passphrase": "пароль", "via": "seed",
         "steps": [[1 << 24, False], [65536, True]], "msgs": ["abcd"]},
        {"kind": "tweak", "seed": "ff" * 96}, {"kind": "tweak", "seed": "00" * 96}, {"kind": "tweak", "seed": "ff" * 31},
        {"kind": "pathstr", "path": "m/"}, {"kind": "pathstr", "path": "m/0''"}, {"kind": "pathstr", "path": "m/m//0"},
        {"kind": "pathstr", "path": "m/-1'"}, {"kind": "pathstr", "path": "m/2147483648"},
        {"kind": "pathstr", "path": "m/2147483648'"}, {"kind": "pathstr", "path": "m/ 1_0 /+2'"},
        {"kind": "pathstr", "path": "1852'/1815'"}, {"kind": "pathstr", "path": "m/0//1"},
        {"kind": "oddindex", "entropy": e16, "index": str(HARD), "hardened": False, "private": False},
        {"kind": "oddindex", "entropy": e16, "index": "-1", "hardened": True, "private": False},
        {"kind": "oddindex", "entropy": e16, "index": str(HARD), "hardened": True, "private": True},
        {"kind": "wrapper", "n": "0"}, {"kind": "wrapper", "n": str(1 << 255)}, {"kind": "wrapper", "n": str(E.L)},
        {"kind": "wrapper", "n": str((1 << 255) + 5)},
    ]


def excluded_point():
    """what the code does outside the `kL' < 2^255` hypothesis of C16.pub_priv_agree (a node that no Icarus root
    reaches in fewer than 2^25 steps, built directly through the constructor): recorded, not judged"""
    c = bytes(range(32))
    out = {}
    for name, kLn in (("kL=2^255-8", (1 << 255) - 8), ("kL=2^256-8", (1 << 256) - 8)):
        kL = kLn.to_bytes(32, "little")
        A = bindings.crypto_scalarmult_ed25519_base_noclamp(kL)
        w = HDWallet(kL + bytes(32), A, c, kL + bytes(32), A, c)
        st, a = attempt(lambda: w.derive(5))
        st2, b = attempt(lambda: w.derive(5, private=False))
        out[name] = {"private": st, "public": st2,
                     "public_keys_agree": (a.public_key == b.public_key) if st == st2 == "ok" else None}
    return out


def run(ctx):
    ctx.rule = ("walks: entropy of 16/20/24/28/32 random bytes x passphrase (empty, ASCII, non-ASCII, 200 chars) x root "
                "constructor (from_entropy / from_mnemonic / from_seed) x path of depth 1..6 whose components are drawn "
                "from {0,1,2,2^31-1,255,256,65535,65536,2^24} soft and hardened, 1852',1815', CIP-1852 shaped paths, "
                "uniformly random 31-bit and short indices; every node of the path is compared (kL‖kR, A, c), soft "
                "steps are also derived publicly, hardened steps must be refused publicly, the rendered path string "
                "must equal the walk, two messages of 0..256 bytes are signed with the derived key and with the root. "
                "Separate streams: seeds of 0..128 bytes for the bit tweak, entropy lengths 0..40, non-English "
                "mnemonics, indices at/beyond the range limits, ASCII path strings (edited well-formed paths, "
                "Python-int syntax, noise), scalars for the libsodium wrapper. A case is non-trivial if distinct.")
    ctx.assumptions = [
        "path strings are ASCII (Python int() also accepts non-ASCII decimal digits and whitespace; not modelled)",
        "path components are shorter than Python's 4300-digit int conversion limit",
        "kL' < 2^255 along the path (proved for every path of fewer than 2^25 steps from an Icarus root: "
        "C16.no_overflow_on_paths); outside it the Python raises OverflowError or libsodium drops bit 255",
        "Z[0:28] != 0 for public derivation (probability 2^-224; libsodium refuses the zero scalar)",
        "GroupLaws: edwards25519 with base point B is a commutative group of order L with faithful 32-byte encoding "
        "(hypothesis of the theorems, not proved); HashLen: HMAC-SHA512 returns 64 and PBKDF2 96 bytes",
        "Python int = Lean Int/Nat (unbounded)",
    ]
    ctx.extra["trusted"] = [
        "primitives are modelled, not verified: HMAC-SHA512, PBKDF2-HMAC-SHA512, SHA-512 (hashlib) and edwards25519 "
        "(libsodium via PyNaCl) are abstract fields of `Prims`; their results are computed by the harness and passed to the driver",
        "harness/ref/ed25519_ref.py (RFC 8032, self-tested on the RFC vectors) and harness/ref/bip32ed25519_ref.py "
        "(self-tested on the CIP-3 Icarus vectors) as the oracle",
        "the libsodium wrappers' side conditions (bit 255 cleared, zero scalar / neutral element refused) as modelled "
        "in Pyc/Model/Bip32.lean; compared against libsodium in the `wrapper` stream",
    ]
    ctx.extra["excluded_point"] = excluded_point()
    for c in corpus():
        dispatch(ctx, c)
    rng = ctx.rng
    n_walk = ctx.budget(500, 6000)
    n_small = ctx.budget(300, 6000)
    for _ in range(n_walk):
        dispatch(ctx, gen_walk(rng))
        if ctx.violations:
            return
    for _ in range(n_small):
        dispatch(ctx, gen_seed(rng))
    for _ in range(n_small // 4):
        dispatch(ctx, {"kind": "entlen", "entropy": rng.randbytes(rng.randint(0, 40)).hex(),
                       "passphrase": rng.choice(PASSPHRASES)})
    for _ in range(n_small // 10):
        dispatch(ctx, {"kind": "mnemonic", "entropy": rng.randbytes(rng.choice([16, 20, 24, 28, 32])).hex(),
                       "passphrase": rng.choice(PASSPHRASES),
                       "language": rng.choice(["french", "italian", "spanish", "japanese", "korean",
                                               "chinese_simplified", "chinese_traditional"])})
    for _ in range(n_small):
        dispatch(ctx, gen_oddindex(rng))
    for _ in range(n_small * 4):
        dispatch(ctx, gen_pathstr(rng))
        if ctx.violations:
            return
    for _ in range(n_small):
        dispatch(ctx, gen_wrapper(rng))


def replay(ctx, data):
    if "input" in data and isinstance(data["input"], dict) and "kind" in data["input"]:
        dispatch(ctx, data["input"])
    for d in data.get("correspondence", []):
        if isinstance(d.get("input"), dict) and "kind" in d["input"]:
            dispatch(ctx, d["input"])
