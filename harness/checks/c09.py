"""C09 — inputs are selected only from permitted UTxOs, each at most once.

The builder's selectors are wrapped by recording selectors (public `utxo_selectors` API; every call is delegated to a
real strategy or to a deliberately failing one), so the pool handed to each strategy and the fallback order are
observable.  Direct evaluation on the decoded body bytes: provenance, distinctness, explicit inputs kept, excluded
unused, canonical order, caller's UTxO objects and lists unchanged.  Correspondence: Lean `sel.pool` / `sel.inputs`."""
from __future__ import annotations

import copy

from pycardano.coinselection import LargestFirstSelector, RandomImproveMultiAsset, UTxOSelector
from pycardano.exception import InsufficientUTxOBalanceException, UTxOSelectionException

from ref import ledger_ref as L
from vlib import bgen
from vlib import scenario as S
from vlib import values as V


class Recording(UTxOSelector):
    def __init__(self, kind, log, stream=None):
        self.kind, self.log = kind, log
        if kind == "largest":
            self.inner = LargestFirstSelector()
        elif kind == "random":
            self.inner = RandomImproveMultiAsset()
        elif kind == "stream":
            self.inner = RandomImproveMultiAsset(list(stream))
        else:
            self.inner = None

    def select(self, utxos, outputs, context, max_input_count=None, include_max_fee=True, respect_min_utxo=True):
        entry = {"kind": self.kind, "pool": [uref(u) for u in utxos], "pool_ids": [id(u) for u in utxos],
                 "request": V.dump_value(outputs[0].amount), "result": None}
        self.log.append(entry)
        if self.kind == "fail":
            entry["raised"] = "selection"
            raise UTxOSelectionException("deliberate failure")
        if self.kind == "fail-insufficient":
            entry["raised"] = "selection"
            raise InsufficientUTxOBalanceException("deliberate failure")
        before = [uref(u) for u in utxos]
        try:
            sel, change = self.inner.select(utxos, outputs, context, max_input_count, include_max_fee, respect_min_utxo)
        except UTxOSelectionException:
            entry["raised"] = "selection"
            raise
        except Exception:
            entry["raised"] = "other"
            raise
        finally:
            entry["pool_after"] = [uref(u) for u in utxos]
            entry["pool_before"] = before
        entry["result"] = [uref(u) for u in sel]
        entry["result_objs"] = [udump(u) for u in sel]
        return sel, change


def uref(u):
    return [bytes(u.input.transaction_id.payload).hex(), u.input.index]


def udump(u):
    return {"txid": bytes(u.input.transaction_id.payload).hex(), "ix": str(u.input.index), "amount": V.dump_value(u.output.amount)}


def c09_selectors(b, cx, o, run, idx):
    run.sel_log = []
    b.utxo_selectors = [Recording(k if isinstance(k, str) else k[0], run.sel_log, None if isinstance(k, str) else k[1]) for k in o["chain"]]


S.EXTRA_OPS["c09_selectors"] = c09_selectors


def gen_scenario(rng):
    n = rng.randint(2, 9)
    ada_only = rng.random() < 0.5
    utxos = bgen.gen_wallet(rng, n, "k0", ada_only)
    # a second address with its own UTxOs
    extra = bgen.gen_wallet(rng, rng.randint(0, 3), "k4", ada_only, prefix="w")
    allu = utxos + extra
    ids = [u["id"] for u in utxos]
    sc = {"params": dict(rng.choice(bgen.PARAM_SETS[:2])), "utxos": allu, "address_utxos": {}, "ops": [], "build": {}}
    ops = sc["ops"]
    # overlapping subsets
    explicit = rng.sample(ids, rng.randint(0, min(3, n)))
    potential = rng.sample(ids, rng.randint(0, n))
    if rng.random() < 0.3 and potential:
        potential = potential + [rng.choice(potential)]          # listed twice
    at_addr = rng.sample(ids, rng.randint(0, n))
    excluded = rng.sample(ids, rng.randint(0, 2))
    if rng.random() < 0.85:
        excluded = [e for e in excluded if e not in explicit]      # mostly no explicit/excluded conflict
    chain = rng.choice([["random", "largest"], ["largest"], ["random"], ["fail", "largest"], ["fail-insufficient", "random"],
                        ["fail", "fail"], ["largest", "fail"], [["stream", [rng.randrange(4) for _ in range(30)]], "largest"], []])
    ops.append({"op": "c09_selectors", "chain": chain})
    for u in explicit:
        ops.append({"op": "add_input", "u": u})
    for u in potential:
        ops.append({"op": "potential", "u": u})
    for u in excluded:
        ops.append({"op": "exclude", "u": u})
    sc["address_utxos"]["k0"] = sorted(at_addr, key=ids.index)
    for _ in range(rng.choice([1, 1, 2])):                          # the same address registered twice
        ops.append({"op": "add_input_address", "a": "k0"})
    if extra and rng.random() < 0.6:
        sc["address_utxos"]["k4"] = [u["id"] for u in extra]
        ops.append({"op": "add_input_address", "a": "k4"})
    rng.shuffle(ops[1:])
    total = sum(u["coin"] for u in allu)
    held = bgen.wallet_assets(allu)
    for _ in range(rng.randint(1, 2)):
        o = {"op": "add_output", "addr": "k1", "coin": rng.choice([1_000_000, 2_000_000, total // 4, total // 2])}
        if held and rng.random() < 0.4:
            (p, nme), q = rng.choice(list(held.items()))
            o["assets"] = [[p, nme, str(rng.randint(1, max(1, q)))]]
        ops.append(o)
    sc["build"] = {"change": rng.choice(["k0", "k3"]), "merge_change": rng.random() < 0.15, "pyseed": rng.randrange(2**32)}
    return sc


def gen_multiround(rng):
    """every UTxO carries ADA and the same token(s) in amounts comparable to the request (about a third of the wallet):
    the randomized strategy then runs one improvement round per asset over the same few candidates"""
    n = rng.randint(3, 7)
    pol = rng.choice(bgen.TOKEN_POLICIES).hex()
    names = [x.hex() for x in rng.sample(list(bgen.TOKEN_NAMES), rng.choice([1, 1, 2]))]
    utxos = []
    for i in range(n):
        u = {"id": f"u{i}", "txid": bgen.txid(rng), "ix": rng.choice([0, 1, 2]), "addr": "k0",
             "coin": rng.choice([2_000_000, 3_000_000, 5_000_000, 12_000_000, 50_000_000])}
        a = [[pol, nm, str(rng.randint(1, 12))] for nm in names if rng.random() < 0.8]
        if a:
            u["assets"] = a
        utxos.append(u)
    ids = [u["id"] for u in utxos]
    sc = {"params": dict(rng.choice(bgen.PARAM_SETS[:2])), "utxos": utxos, "address_utxos": {"k0": ids}, "ops": [], "build": {}}
    chain = rng.choice([["random"], ["random", "largest"], [["stream", [rng.choice([0, 0, 1, 2, rng.randrange(n)]) for _ in range(40)]]]])
    sc["ops"].append({"op": "c09_selectors", "chain": chain})
    if rng.random() < 0.5:
        sc["ops"].append({"op": "add_input_address", "a": "k0"})
    else:
        for u in ids:
            sc["ops"].append({"op": "potential", "u": u})
    total = sum(u["coin"] for u in utxos)
    held = bgen.wallet_assets(utxos)
    o = {"op": "add_output", "addr": "k1", "coin": max(total // rng.choice([4, 5, 6, 8]), 1_500_000)}
    if held:
        o["assets"] = [[p, nme, str(max(q // rng.choice([3, 4, 5]), 1))] for (p, nme), q in held.items()]
    sc["ops"].append(o)
    sc["build"] = {"change": "k0", "merge_change": False, "pyseed": rng.randrange(2**32)}
    return sc


def route_sets(sc):
    umap = {u["id"]: u for u in sc["utxos"]}
    ref = lambda i: (umap[i]["txid"], int(umap[i]["ix"]))
    explicit = [ref(o["u"]) for o in sc["ops"] if o["op"] == "add_input"]
    potential = [ref(o["u"]) for o in sc["ops"] if o["op"] == "potential"]
    excluded = [ref(o["u"]) for o in sc["ops"] if o["op"] == "exclude"]
    addr = []
    for o in sc["ops"]:
        if o["op"] == "add_input_address":
            addr.append([ref(i) for i in sc["address_utxos"].get(S.addr_key(o["a"]), [])])
    return explicit, potential, excluded, addr


def model_u(sc, r):
    for u in sc["utxos"]:
        if (u["txid"], int(u["ix"])) == tuple(r):
            out = S.mk_output(u)
            return {"txid": u["txid"], "ix": str(u["ix"]), "amount": V.dump_value(out.amount)}
    raise KeyError(r)


def check_scenario(ctx, sc):
    run = S.run(sc, sign=False)
    explicit, potential, excluded, addr = route_sets(sc)
    log = getattr(run, "sel_log", [])
    conflict = bool(set(explicit) & set(excluded))
    ctx.count("chain:" + "+".join(k if isinstance(k, str) else k[0] for k in next(o for o in sc["ops"] if o["op"] == "c09_selectors")["chain"]))
    # caller's objects and lists untouched, whatever the outcome
    if run.pool_snapshot_before != run.pool_snapshot_after:
        changed = [k for k in run.pool_snapshot_before if run.pool_snapshot_before[k] != run.pool_snapshot_after.get(k)]
        ctx.violation("build() modified UTxO objects of the caller's pool", sc, "unchanged", changed)
    if [uref(u) for u in run.builder.potential_inputs] != [list(r) for r in potential] or \
            [uref(u) for u in run.builder.excluded_inputs] != [list(r) for r in excluded]:
        ctx.violation("build() modified the caller's potential / excluded lists", sc, "unchanged", "changed")
    if S.lists_changed(run):
        ctx.violation("build() re-ordered or emptied a pool of the caller (potential / excluded list, or a list the chain "
                      "context handed out)", sc, run.lists_before, run.lists_after)
    for e in log:
        if e.get("pool_before") is not None and e["pool_before"] != e["pool_after"]:
            ctx.violation("a selection strategy modified the pool list it was given", sc, e["pool_before"], e["pool_after"])
    if conflict:
        ctx.count("conflict")
        if not run.error:
            ctx.violation("an explicitly added input is also excluded and build() did not refuse", sc, "refusal", "body")
    if run.error:
        ctx.count("error:" + run.error)
    else:
        ctx.count("built")
        B = L.Body(run.body.to_cbor())
        ins = B.inputs
        permitted = set(explicit) | set(potential) | {r for l in addr for r in l}
        if len(set(ins)) != len(ins):
            ctx.violation("the body names the same input twice", sc, "distinct inputs", ins)
        if len(run.builder.inputs) != len({tuple(uref(u)) for u in run.builder.inputs}):
            ctx.violation("the same UTxO was selected twice (hidden by the body's set, counted twice in the change)", sc,
                          "distinct selection", [uref(u) for u in run.builder.inputs])
        bad = [r for r in ins if r not in permitted]
        if bad:
            ctx.violation("an input comes from none of the permitted sources", sc, "subset of explicit/potential/address UTxOs", bad)
        missing = [r for r in set(explicit) if r not in ins]
        if missing:
            ctx.violation("an explicitly added input is missing from the body", sc, sorted(set(explicit)), ins)
        used_excluded = [r for r in ins if r in set(excluded)]
        if used_excluded and not conflict:
            ctx.violation("an excluded UTxO is spent", sc, "no excluded input", used_excluded)
        canon = sorted(ins, key=lambda r: (bytes.fromhex(r[0]), r[1]))
        if ins != canon:
            ctx.violation("inputs are not emitted in the ledger's canonical order (transaction id, index)", sc, canon, ins)
        if log:
            ctx.count("selection-ran")
            ctx.count(f"fallback-depth:{len(log)}")
    # ---- correspondence
    if ctx.have_driver() and not (run.error and run.error_stage == "ops"):
        req = {"explicit": [model_u(sc, r) for r in explicit], "potential": [model_u(sc, r) for r in potential],
               "addr": [[model_u(sc, r) for r in l] for l in addr], "excluded": [model_u(sc, r) for r in excluded]}
        if log:
            mp = ctx.driver().ok({"op": "sel.pool", **req})
            ctx.traces += 1
            if [[a, int(b)] for a, b in mp] != log[0]["pool"]:
                ctx.diff("sel.pool", sc, mp, log[0]["pool"])
            for e in log[1:]:
                if e["pool"] != log[0]["pool"]:
                    ctx.diff("sel.pool(fallback)", sc, log[0]["pool"], e["pool"])
        chain = next(o for o in sc["ops"] if o["op"] == "c09_selectors")["chain"]
        # fallback order: the next strategy is tried whenever the previous one raised a selection error
        if log and log[-1].get("raised") == "selection" and len(log) < len(chain):
            ctx.diff("sel.chain", sc, f"{len(chain)} strategies tried before giving up", f"gave up after {len(log)}")
        for i, e in enumerate(log[:-1]):
            if e["result"] is not None:
                ctx.diff("sel.chain", sc, "no further strategy after a success", f"strategy {i} succeeded, {len(log)} were run")
        # outcomes of the selectors as recorded; selectors never reached are irrelevant to the model: give them `null`
        outcomes = [(e["result_objs"] if e["result"] is not None else None) for e in log]
        outcomes += [None] * (len(chain) - len(outcomes))
        need_more = bool(log) or (not chain and run.error is None and False)
        if not chain:
            need_more = False if not log else True
        mi = ctx.driver().ok({"op": "sel.inputs", **req, "need_more": bool(log), "selectors": outcomes})
        ctx.traces += 1
        if run.error:
            if run.error in ("builder", "selection") and run.error_stage == "build":
                # other refusals (change / fee stage) happen after input selection
                if "err" in mi and mi["err"] != run.error and not (mi["err"] == "selection" and run.error == "selection"):
                    ctx.diff("sel.inputs", sc, mi, run.error)
                if "err" not in mi and run.error == "builder":
                    ctx.diff("sel.inputs", sc, mi, run.error)
        else:
            impl = [uref(u) for u in run.builder.inputs]
            if "err" in mi or [[a, int(b)] for a, b in mi["inputs"]] != impl:
                ctx.diff("sel.inputs", sc, mi, impl)
    ctx.case(sc)


def corpus():
    u = lambda i, coin: {"id": f"u{i}", "txid": f"{i + 1:02x}" * 32, "ix": 0, "addr": "k0", "coin": coin}
    return [
        # a potential input that is also excluded (was spent) and one that is also explicit (was selected twice)
        {"params": {}, "utxos": [u(0, 3_000_000), u(1, 9_000_000)], "address_utxos": {},
         "ops": [{"op": "c09_selectors", "chain": ["largest"]}, {"op": "add_input", "u": "u0"}, {"op": "potential", "u": "u0"},
                 {"op": "potential", "u": "u1"}, {"op": "exclude", "u": "u1"}, {"op": "add_output", "addr": "k1", "coin": 4_000_000}],
         "build": {"change": "k0"}},
    ]


def check_plutus(ctx, sc):
    """a Plutus scenario (script spend / mint with automatic or explicit collateral, candidates reachable as input, potential
    input and address UTxO): the C09 clauses judged on a build that also runs the collateral search"""
    from checks import c13
    c13._install()
    run = S.run(sc, sign=False)
    del c13.RECORDS[:]
    ctx.count("plutus:" + ("error:" + run.error if run.error else "built"))
    if run.pool_snapshot_before != run.pool_snapshot_after:
        changed = [k for k in run.pool_snapshot_before if run.pool_snapshot_before[k] != run.pool_snapshot_after.get(k)]
        ctx.violation("build() modified UTxO objects of the caller's pool", sc, "unchanged", changed)
    ch = S.lists_changed(run)
    if ch:
        ctx.violation("build() re-ordered or emptied a pool of the caller (potential / excluded list, or a list the chain "
                      "context handed out)", sc, {k: run.lists_before[k] for k in ch}, {k: run.lists_after.get(k) for k in ch})
    if not run.error:
        umap = {u["id"]: (u["txid"], int(u["ix"])) for u in sc["utxos"]}
        explicit = {umap[o["u"]] for o in sc["ops"] if o["op"] in ("add_input", "script_input") and o.get("u") in umap}
        permitted = set(umap.values())
        excluded = {umap[o["u"]] for o in sc["ops"] if o["op"] == "exclude"}
        B = L.Body(run.body.to_cbor())
        ins = B.inputs
        if len(set(ins)) != len(ins):
            ctx.violation("the body names the same input twice", sc, "distinct inputs", ins)
        bad = [r for r in ins if r not in permitted]
        if bad:
            ctx.violation("an input comes from none of the permitted sources", sc, "UTxOs of the scenario", bad)
        if [r for r in ins if r in excluded]:
            ctx.violation("an excluded UTxO is spent", sc, "no excluded input", [r for r in ins if r in excluded])
        missing = [r for r in explicit if r not in ins]
        if missing:
            ctx.violation("an explicitly added input is missing from the body", sc, sorted(explicit), ins)
        canon = sorted(ins, key=lambda r: (bytes.fromhex(r[0]), r[1]))
        if ins != canon:
            ctx.violation("inputs are not emitted in the ledger's canonical order (transaction id, index)", sc, canon, ins)
    ctx.case(sc)


def run(ctx):
    ctx.rule = ("wallets of 2..12 UTxOs over two addresses with overlapping explicit / potential / address / excluded "
                "subsets, UTxOs listed twice, addresses registered twice, 9 selector chains (both strategies, injected "
                "index streams, deliberately failing first / last strategies, empty chain), random seeds of the randomized "
                "strategy; every fourth scenario a multi-round wallet (each UTxO ADA + the same 1..2 tokens, request about a third, "
                "small repeated indices); non-trivial = distinct scenario")
    ctx.assumptions = ["UTxO identity = (input reference, output) as Python compares UTxO objects; references are unique in a wallet"]
    for c in corpus():
        check_scenario(ctx, c)
    rng = ctx.rng
    for i in range(ctx.budget(400, 12000)):
        if i % 4 == 3:
            ctx.count("family:multi-round")
            check_scenario(ctx, gen_multiround(rng))
        else:
            check_scenario(ctx, gen_scenario(rng))
    # Plutus scenarios: the collateral search walks the inputs, the potential inputs and the context's UTxOs as well
    from checks import c13
    for i in range(ctx.budget(120, 3000)):
        ctx.count("family:plutus-collateral")
        check_plutus(ctx, {**c13.gen_scenario(rng, i, "full"), "c09": "plutus"})


def replay(ctx, data):
    one = lambda sc: check_plutus(ctx, sc) if sc.get("c09") == "plutus" else check_scenario(ctx, sc)
    if "input" in data:
        one(data["input"])
    for d in data.get("correspondence", []):
        one(d["input"])
