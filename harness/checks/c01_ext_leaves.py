"""C01 extension `leaves` — the REAL address codec as a leaf of `TransactionOutput` (Props/C01_Leaves.lean).

Correspondence: `Address.from_primitive` on every kind of decoded CBOR item (byte strings of valid and damaged
addresses, bech32 text, Byron headers, integers / arrays / maps) against the model's `addrDec` — result AND error
class (`ok | deser | crash`: a `DeserializeException` lets a `Union` try its next alternative, anything else aborts
the decode); `TransactionOutput.from_cbor` of outputs carrying those addresses against `decOutput` instantiated with
the real address leaf.  Search: `TransactionOutput.from_cbor(o.to_cbor())` has the same address (kinds of both
credentials, network, pointer) and the same bytes, judged on the structured fields, not on pycardano's `__eq__`."""
from __future__ import annotations

import cbor2

from pycardano import Address, TransactionOutput, Value
from pycardano.exception import DeserializeException

from checks import c15 as A15

EXT = "leaves"
KINDS = [("key", "key"), ("script", "key"), ("key", "script"), ("script", "script"), ("key", "ptr"), ("script", "ptr"),
         ("key", "none"), ("script", "none"), ("none", "key"), ("none", "script")]


def classify(f):
    try:
        return "ok", f()
    except DeserializeException:
        return "deser", None
    except Exception:
        return "crash", None


def model_addr(ctx, item_hex):
    ctx.traces += 1
    m = ctx.driver().ok({"op": "leaf.addr.dec", "hex": item_hex})
    if "err" in m:
        return m["err"], None
    return "ok", {"addr": A15.norm_model(m["addr"]), "hex": m["hex"], "valid": m["valid"]}


def check_item(ctx, case):
    """one CBOR item handed to Address.from_primitive"""
    item_hex = case["item"]
    prim = cbor2.loads(bytes.fromhex(item_hex))
    ic, obj = classify(lambda: Address.from_primitive(prim))
    impl = None
    if ic == "ok":
        impl = {"addr": A15.dump_addr(obj), "hex": cbor2.dumps(obj.to_primitive()).hex()}
    ctx.count(f"item:{case.get('what')}:{ic}")
    if ctx.have_driver():
        mc, mod = model_addr(ctx, item_hex)
        if mc != ic or (ic == "ok" and (mod["addr"] != impl["addr"] or mod["hex"] != impl["hex"])):
            ctx.diff("leaf.addr.dec", case, {"class": mc, "value": mod}, {"class": ic, "value": impl})
        if mc == "ok" and not mod["valid"]:
            ctx.diff("leaf.addr.dec(valid)", case, mod, impl)
    ctx.case(case, nontrivial=(ic == "ok"))


def check_output(ctx, case):
    """an output carrying the address, in the legacy or the map form"""
    a = A15.load_addr(case["addr"])
    coin = int(case["coin"])
    o = TransactionOutput(a, Value(coin), post_alonzo=case["map"])
    b = o.to_cbor()
    ic, back = classify(lambda: TransactionOutput.from_cbor(b))
    ctx.count(f"output:{'map' if case['map'] else 'legacy'}:{A15.kind_of(case['addr'])}")
    if ic != "ok":
        ctx.violation("an output the library serialized cannot be decoded", case, "decodes", ic)
    else:
        got = A15.dump_addr(back.address)
        if got != case["addr"]:
            ctx.violation("decoding an encoded output changes its address (kind / network / credentials / pointer)",
                          case, case["addr"], got)
        if back.to_cbor() != b:
            ctx.violation("decoding and re-encoding an output changes its bytes", case, b.hex(), back.to_cbor().hex())
        if back.amount.coin != coin:
            ctx.violation("decoding an encoded output changes its amount", case, coin, back.amount.coin)
    if ctx.have_driver():
        ctx.traces += 1
        m = ctx.driver().ok({"op": "leaf.output.dec", "hex": b.hex()})
        mc = m.get("err", "ok")
        if mc != ic:
            ctx.diff("leaf.output.dec", case, mc, ic)
        elif ic == "ok":
            mo = m["out"]
            if A15.norm_model(mo["addr"]) != A15.dump_addr(back.address) or m["hex"] != back.to_cbor().hex() \
                    or mo["pa"] != bool(back.post_alonzo):
                ctx.diff("leaf.output.dec", case, {"addr": mo["addr"], "hex": m["hex"], "pa": mo["pa"]},
                         {"addr": A15.dump_addr(back.address), "hex": back.to_cbor().hex(), "pa": bool(back.post_alonzo)})
    ctx.case(case)


def dispatch(ctx, case):
    if case.get("kind") == "leaf-item":
        check_item(ctx, case)
    else:
        check_output(ctx, case)


def other_items(rng):
    """items that are neither byte strings nor text"""
    return rng.choice([cbor2.dumps(rng.randrange(2 ** 40)), cbor2.dumps([rng.randbytes(29)]), cbor2.dumps({0: rng.randbytes(29)}),
                       cbor2.dumps(None), cbor2.dumps(True), cbor2.dumps(cbor2.CBORTag(24, rng.randbytes(29))),
                       cbor2.dumps(-1), cbor2.dumps([])])


def run_ext(ctx):
    import random
    n = ctx.budget(600, 12000)
    for i in range(n):
        rng = random.Random(f"leaves/{ctx.seed}/{i}")
        pk, sk = KINDS[i % 10]
        net = (i // 10) % 2
        addr = A15.gen_addr(rng, pk, sk, net, i)
        A = A15.load_addr(addr)
        base = bytes(A)
        r = i % 6
        if r == 0:
            case = {"ext": EXT, "kind": "leaf-item", "what": "valid-bytes", "item": cbor2.dumps(base).hex()}
        elif r == 1:
            try:
                text = A.encode()
            except Exception:
                text = None
            if text is None:
                continue
            case = {"ext": EXT, "kind": "leaf-item", "what": "valid-text", "item": cbor2.dumps(text).hex()}
        elif r == 2:
            case = {"ext": EXT, "kind": "leaf-item", "what": "damaged-bytes", "item": cbor2.dumps(A15.malformed_bytes(rng, base)).hex()}
        elif r == 3:
            w = rng.randrange(4)
            if w == 0:
                item = cbor2.dumps(bytes([0x80 | rng.randrange(16)]) + rng.randbytes(rng.choice([0, 28, 56])))   # Byron header
                what = "byron"
            elif w == 1:
                item, what = other_items(rng), "other-kind"
            elif w == 2:
                item, what = cbor2.dumps(A15.malformed_str(rng, addr)), "damaged-text"
            else:
                item, what = cbor2.dumps(b""), "empty"
            case = {"ext": EXT, "kind": "leaf-item", "what": what, "item": item.hex()}
        else:
            coin = rng.choice([0, 1, 23, 24, 255, 256, 65535, 65536, 2 ** 32 - 1, 2 ** 32, 2 ** 63 - 1, 2 ** 64 - 1,
                               rng.randrange(2 ** 40)])
            case = {"ext": EXT, "kind": "leaf-output", "addr": addr, "coin": str(coin), "map": r == 5}
        dispatch(ctx, case)
    ctx.assumptions.append("leaves: the inline datum of an output is carried as the primitive the implementation restores it to; "
                           "the native-script leaf is the model of NativeScript.from_primitive (output_roundtrip_closed)")


def replay_ext(ctx, case):
    dispatch(ctx, case)
