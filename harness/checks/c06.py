"""C06 — built transactions conserve value.

Direct evaluation: the returned body is serialized, decoded with the independent CBOR reader and the ledger balance
equation (ref/ledger_ref.py) is evaluated against the scenario's UTxO map, for ADA and every asset.
Correspondence: the Lean accounting model (`builder.final`: deposits, `_calc_change`, token packing, merge) is run on
the selected inputs and the final fee and must reproduce the body's outputs exactly."""
from __future__ import annotations

from pycardano import Address

from ref import ledger_ref as L
from vlib import bgen
from vlib import scenario as S
from vlib import values as V

CERT_MODEL = {
    "stake_reg": lambda c: {"k": "stake_reg", "cred": S.cred(c["cred"]).credential.payload.hex()},
    "stake_dereg": lambda c: {"k": "stake_dereg"},
    "reg_conway": lambda c: {"k": "deposit", "coin": str(c["coin"])},
    "reg_deleg": lambda c: {"k": "deposit", "coin": str(c["coin"])},
    "reg_vote_deleg": lambda c: {"k": "deposit", "coin": str(c["coin"])},
    "reg_deleg_vote": lambda c: {"k": "deposit", "coin": str(c["coin"])},
    "reg_drep": lambda c: {"k": "deposit", "coin": str(c["coin"])},
    "dereg_conway": lambda c: {"k": "refund", "coin": str(c["coin"])},
    "unreg_drep": lambda c: {"k": "refund", "coin": str(c["coin"])},
    "pool_reg": lambda c: {"k": "pool_reg", "cred": S.vkh(c["cred"]).payload.hex()},
}


def model_request(sc, run, fee):
    """JSON request for the Lean accounting model, from the scenario and the builder's post-build selection"""
    p = {**S.DEFAULT_PARAMS, **sc.get("params", {})}
    b = run.builder
    outs = []
    for o in sc["ops"]:
        if o["op"] == "add_output":
            out = S.mk_output(o)
            outs.append({"addr": bytes(out.address.to_primitive()).hex(), "amount": V.dump_value(out.amount), "datum_hash": None,
                         "datum": None, "script": None, "post_alonzo": bool(o.get("post_alonzo", False))})
    certs = [CERT_MODEL.get(o["kind"], lambda c: {"k": "other"})(o) for o in sc["ops"] if o["op"] == "cert"]
    return {
        "op": "builder.final",
        "p": {"cpb": str(p["cpb"]), "max_val_size": str(p["max_val_size"]), "key_deposit": str(p["key_deposit"]),
              "pool_deposit": str(p["pool_deposit"])},
        "outs": outs, "fee": str(fee),
        "inputs": [V.dump_value(u.output.amount) for u in b.inputs],
        "mint": V.dump_ma(b.mint) if b.mint is not None else [],
        "withdrawals": [str(v) for v in (b.withdrawals.values() if b.withdrawals else [])],
        "certs": certs, "initial_pool": any(o["op"] == "pool_initial" for o in sc["ops"]),
        "proposals": [str(o["deposit"]) for o in sc["ops"] if o["op"] == "proposal"],
        "donation": str(sum(int(o["amount"]) for o in sc["ops"] if o["op"] == "donation")),
        "addr": bytes(S.address(sc["build"]["change"]).to_primitive()).hex(),
        "merge_change": bool(sc["build"].get("merge_change", False)),
    }


def canon_out(addr_hex, coin, assets):
    return [addr_hex, str(coin), sorted([p, n, str(q)] for (p, n), q in assets.items())]


def check_scenario(ctx, sc):
    run = S.run(sc, sign=False)
    feats = sorted({o["op"] for o in sc["ops"]} | ({"merge"} if sc["build"].get("merge_change") else set()))
    if run.error:
        ctx.count("build-error:" + run.error)
        if sc.get("expect_live"):
            ctx.violation("ADA-only wallet with a clear margin over the request: the builder refused instead of "
                          f"returning a transaction ({run.error}: {str(run.exc)[:200]})", sc, "a transaction", run.error)
        ctx.case(sc, nontrivial=False)
        return
    ctx.count("built")
    for f in feats:
        ctx.count("feat:" + f)
    if sc["build"].get("change") is None:
        ctx.case(sc, nontrivial=False)
        return
    p = {**S.DEFAULT_PARAMS, **sc.get("params", {})}
    try:
        body_bytes = run.body.to_cbor()
    except Exception as e:
        ctx.count("body-unserializable:" + type(e).__name__)   # C08's business (negative outputs are refused)
        ctx.case(sc, nontrivial=False)
        return
    B = L.Body(body_bytes)
    utxo = bgen.utxo_map(sc)
    pool_new = any(o["op"] == "pool_initial" for o in sc["ops"])
    (cc, ca), (pc, pa) = L.balance(B, utxo, int(p["key_deposit"]), int(p["pool_deposit"]), pool_new)
    if (cc, ca) != (pc, pa):
        delta_assets = {f"{k[0]}.{k[1]}": ca.get(k, 0) - pa.get(k, 0) for k in set(ca) | set(pa) if ca.get(k, 0) != pa.get(k, 0)}
        ctx.violation("the ledger balance equation does not hold for the returned body "
                      f"(consumed - produced: {cc - pc} lovelace, assets {delta_assets})",
                      sc, {"consumed": [cc, {f'{k[0]}.{k[1]}': v for k, v in ca.items()}]},
                      {"produced": [pc, {f'{k[0]}.{k[1]}': v for k, v in pa.items()}], "body": body_bytes.hex()})
    # correspondence with the accounting model
    if ctx.have_driver():
        req = model_request(sc, run, B.fee)
        m = ctx.driver().ok(req)
        ctx.traces += 1
        impl = [canon_out(o["addr"].hex(), o["coin"], o["assets"]) for o in B.outputs]
        if "err" in m:
            ctx.diff("builder.final", sc, m, impl)
        else:
            mod = [canon_out(o["addr"], int(o["amount"]["coin"]), V.content_ma(o["amount"]["ma"])) for o in m["outs"]]
            # stored zero entries never occur in model outputs; compare canonical content
            if mod != impl:
                ctx.diff("builder.final", sc, mod, impl)
    ctx.case(sc)


def live_scenario(rng):
    """ADA-only wallet reachable through its address, plain payment, funds exceed the request by a clear margin"""
    sc = bgen.gen_value_scenario(rng, ada_only=True, plain=True)
    sc["ops"] = [o for o in sc["ops"] if o["op"] in ("add_output",)]
    ids = [u["id"] for u in sc["utxos"]]
    sc["address_utxos"] = {"k0": ids}
    sc["ops"].insert(0, {"op": "add_input_address", "a": "k0"})
    sc["build"]["merge_change"] = False
    sc["build"]["change"] = "k0"
    total = sum(u["coin"] for u in sc["utxos"])
    req = sum(o["coin"] for o in sc["ops"] if o["op"] == "add_output")
    p = {**S.DEFAULT_PARAMS, **sc.get("params", {})}
    max_fee = p["a"][0] * p["max_tx_size"] // p["a"][1] + p["b"][0] // p["b"][1] + 2_000_000
    if not [o for o in sc["ops"] if o["op"] == "add_output"]:
        sc["ops"].append({"op": "add_output", "addr": "k1", "coin": 1_500_000})
        req += 1_500_000
    if total >= req + max_fee + 10_000_000 and int(p["cpb"]) <= 4310:
        sc["expect_live"] = True
    return sc


def width_scenario(rng):
    """one large UTxO paying a small output: the change lands within a few thousand lovelace of a CBOR integer-width boundary
    (2^32, 65536, 256), so that the preliminary and the final change / fee differ in encoded width (the fee / change
    fix-point of _add_change_and_fee is exercised on both sides of the boundary)"""
    p = dict(rng.choice(bgen.PARAM_SETS[:2]))
    pp = {**S.DEFAULT_PARAMS, **p}
    out_coin = rng.choice([1_000_000, 2_000_000, 5_000_000])
    fee_guess = pp["a"][0] * 300 // pp["a"][1] + pp["b"][0] // pp["b"][1]
    boundary = rng.choice([2**32, 2**32, 2**32, 65536, 2**32 + 2_000_000])
    coin = out_coin + fee_guess + boundary + rng.randint(-4000, 4000)
    u = {"id": "u0", "txid": bgen.txid(rng), "ix": 0, "addr": "k0", "coin": max(coin, out_coin + 3_000_000)}
    return {"params": p, "utxos": [u], "address_utxos": {},
            "ops": [{"op": "add_input", "u": "u0"}, {"op": "add_output", "addr": rng.choice(["k1", "k0"]), "coin": out_coin}],
            "build": {"change": "k0", "merge_change": rng.random() < 0.3, "selectors": [["largest"]]}}


def corpus():
    u = lambda i, coin, **kw: {"id": f"u{i}", "txid": f"{i + 1:02x}" * 32, "ix": 0, "addr": "k0", "coin": coin, **kw}
    base = {"params": {}, "address_utxos": {}, "build": {"change": "k0", "selectors": [["largest"]]}}
    return [
        # two explicit deposits of the same amount (was summed over a set)
        {**base, "utxos": [u(0, 20_000_000)], "ops": [{"op": "add_input", "u": "u0"},
                                                      {"op": "cert", "kind": "reg_conway", "cred": "s1", "coin": 2_000_000},
                                                      {"op": "cert", "kind": "reg_conway", "cred": "s2", "coin": 2_000_000}]},
        # deregistration refund
        {**base, "utxos": [u(0, 20_000_000)], "ops": [{"op": "add_input", "u": "u0"},
                                                      {"op": "cert", "kind": "stake_dereg", "cred": "s1"}]},
        {**base, "utxos": [u(0, 20_000_000)], "ops": [{"op": "add_input", "u": "u0"},
                                                      {"op": "cert", "kind": "unreg_drep", "cred": "s1", "coin": 3_000_000}]},
        # treasury donation
        {**base, "utxos": [u(0, 20_000_000)], "ops": [{"op": "add_input", "u": "u0"}, {"op": "donation", "amount": 700_000}]},
        # the same UTxO registered as explicit and as potential input
        {**base, "utxos": [u(0, 3_000_000)],
         "ops": [{"op": "add_input", "u": "u0"}, {"op": "potential", "u": "u0"},
                 {"op": "add_output", "addr": "k1", "coin": 4_000_000}]},
    ]


def run(ctx):
    ctx.rule = ("builder scenarios from vlib/bgen.py: wallets of 1..12 UTxOs (ADA-only / multi-asset), 0..3 outputs, mint "
                "and burn, withdrawals, 15 certificate kinds with deposits / refunds, proposals, donation, explicit / "
                "potential / excluded / address-selected inputs, merge_change, 6 parameter sets, three selector "
                "configurations; every fifth scenario a multi-round wallet (each UTxO ADA + the same tokens, request a third); non-trivial = built successfully with a change address (distinct scenario)")
    ctx.assumptions = ["ref/ledger_ref.py transcribes the Conway balance equation and deposit / refund table",
                       "a pool registration pays the pool deposit iff initial_stake_pool_registration is set",
                       "the fee value itself is C07's concern: conservation is evaluated for whatever fee the body carries"]
    for c in corpus():
        check_scenario(ctx, c)
    rng = ctx.rng
    n = ctx.budget(350, 12000)
    for i in range(n):
        sc = live_scenario(rng) if i % 5 == 4 else bgen.gen_multiround(rng) if i % 5 == 2 else \
            width_scenario(rng) if i % 5 == 0 else bgen.gen_value_scenario(rng)
        check_scenario(ctx, sc)


def replay(ctx, data):
    if "input" in data:
        check_scenario(ctx, data["input"])
    for d in data.get("correspondence", []):
        check_scenario(ctx, d["input"])
