"""C20 — chain-context adapters report UTxOs faithfully.

For each of Blockfrost, Ogmios v5, Ogmios v6, Kupo and cardano-cli: generate UTxO models, render them in the
service's response shape (the renderers below are the specification; they are cross-checked against the Lean
`backend.render`), serve the response to the REAL adapter whose transport is replaced by a stub, and compare
the returned UTxO list with the generated models

 (a) directly: transaction reference, address, lovelace, the exact quantity of every asset (dict-of-int), datum
     hash / inline datum / reference script where the service shape is unambiguous;
 (b) with the Lean model: `backend.parse` on the same response equals the adapter's result.

A separate malformed stream compares accept / reject only."""
from __future__ import annotations

import hashlib
import json
import logging
from pathlib import Path
from unittest import mock

import cbor2
import requests  # noqa: F401  (patched below: blockfrost-python and the Kupo adapter both call requests.get)

from pycardano import Address, Network, VerificationKeyHash
from pycardano.backend import blockfrost as bf_mod
from pycardano.backend import cardano_cli as cli_mod
from pycardano.backend import kupo as kupo_mod
from pycardano.backend import ogmios_v5 as v5_mod
from pycardano.backend import ogmios_v6 as v6_mod
from pycardano.nativescript import NativeScript
from pycardano.plutus import PlutusV1Script, PlutusV2Script, PlutusV3Script, RawPlutusData
from pycardano.serialization import ByteString, IndefiniteList, RawCBOR

from vlib import core
from vlib import values as V

ADAPTERS = ["blockfrost", "ogmios_v5", "ogmios_v6", "kupo", "cardano_cli"]
BF_BASE = "https://bf.stub/api"
KUPO_BASE = "http://kupo.stub:1442"

# reference-script languages each adapter can return (0 = native, 1..3 = Plutus).  Ogmios v6 restores a native script
# from the `cbor` member of `{"language": "native", "json", "cbor"}`, cardano-cli knows the PlutusScriptV1..V3 text
# envelopes (both repaired in /repo: formerly KF-C20-ogmios6-native-refscript / KF-C20-cli-plutusv3-refscript); a
# failure on these shapes is a plain violation
SCRIPT_OK = {"blockfrost": {0, 1, 2, 3}, "ogmios_v5": {1, 2}, "ogmios_v6": {0, 1, 2, 3}, "kupo": {1, 2, 3},
             "cardano_cli": {0, 1, 2, 3}}
# (adapter, language) outside SCRIPT_OK whose response shape is documented offline (installed client library / the
# envelope naming of the canned response) and on which the adapter raises: recorded findings.  None at present.
FINDINGS = {}


class StubError(Exception):
    """the stub was asked something the check did not prepare: harness bug, never a verdict"""


# =================================================================================================================
# tagged order-preserving image of a JSON tree for the model driver
def enc(j):
    if j is None or isinstance(j, (bool, str)):
        return j
    if isinstance(j, int):
        return {"i": str(j)}
    if isinstance(j, list):
        return [enc(x) for x in j]
    if isinstance(j, dict):
        return {"o": [[k, enc(v)] for k, v in j.items()]}
    raise TypeError(type(j))


def dec(t):
    if t is None or isinstance(t, (bool, str)):
        return t
    if isinstance(t, list):
        return [dec(x) for x in t]
    if "i" in t:
        return int(t["i"])
    return {k: dec(v) for k, v in t["o"]}


# =================================================================================================================
# datum / script material
def datum_json(t):
    """cardano-cli detailed-schema JSON of a datum tree"""
    k = t[0]
    if k == "constr":
        return {"constructor": t[1], "fields": [datum_json(f) for f in t[2]]}
    if k == "int":
        return {"int": t[1]}
    if k == "bytes":
        return {"bytes": t[1]}
    if k == "list":
        return {"list": [datum_json(x) for x in t[1]]}
    return {"map": [{"k": datum_json(a), "v": datum_json(b)} for a, b in t[1]]}


def datum_prim(t):
    k = t[0]
    if k == "constr":
        return cbor2.CBORTag(121 + t[1], [datum_prim(f) for f in t[2]])
    if k == "int":
        return t[1]
    if k == "bytes":
        return bytes.fromhex(t[1])
    if k == "list":
        return [datum_prim(x) for x in t[1]]
    return {datum_prim(a): datum_prim(b) for a, b in t[1]}


def datum_cbor(t) -> bytes:
    return cbor2.dumps(datum_prim(t))


def norm_tree(t):
    """list-normal form of a datum tree (JSON lists may arrive as tuples / lists)"""
    k = t[0]
    if k == "constr":
        return ["constr", t[1], [norm_tree(f) for f in t[2]]]
    if k in ("int", "bytes"):
        return [k, t[1]]
    if k == "list":
        return ["list", [norm_tree(x) for x in t[1]]]
    return ["map", [[norm_tree(a), norm_tree(b)] for a, b in t[1]]]


def norm_prim(o):
    """datum tree of a cbor2 primitive as RawPlutusData holds it"""
    if isinstance(o, cbor2.CBORTag):
        if 121 <= o.tag <= 127:
            return ["constr", o.tag - 121, [norm_prim(f) for f in o.value]]
        if 1280 <= o.tag < 1401:
            return ["constr", o.tag - 1280 + 7, [norm_prim(f) for f in o.value]]
        if o.tag == 102:
            return ["constr", o.value[0], [norm_prim(f) for f in o.value[1]]]
        return ["tag", o.tag]
    if isinstance(o, bool):
        return ["bool", o]
    if isinstance(o, int):
        return ["int", o]
    if isinstance(o, ByteString):
        return ["bytes", o.value.hex()]
    if isinstance(o, (bytes, bytearray)):
        return ["bytes", bytes(o).hex()]
    if isinstance(o, (list, tuple, IndefiniteList)):
        return ["list", [norm_prim(x) for x in o]]
    if isinstance(o, dict):
        return ["map", [[norm_prim(a), norm_prim(b)] for a, b in o.items()]]
    return ["other", repr(type(o))]


def gen_datum_tree(rng, depth=0):
    r = rng.random()
    if depth >= 2 or r < 0.3:
        if rng.random() < 0.5:
            return ["int", rng.choice([0, 1, -1, 997, 2**63, 10**10, rng.randint(-50, 50)])]
        return ["bytes", rng.randbytes(rng.choice([0, 1, 4, 28, 32])).hex()]
    if r < 0.7:
        return ["constr", rng.randint(0, 6), [gen_datum_tree(rng, depth + 1) for _ in range(rng.randint(0, 3))]]
    if r < 0.85:
        return ["list", [gen_datum_tree(rng, depth + 1) for _ in range(rng.randint(0, 3))]]
    keys = rng.sample(range(0, 9), rng.randint(0, 3))
    return ["map", [[["int", k], gen_datum_tree(rng, depth + 1)] for k in keys]]


def b2b(data: bytes, n: int) -> bytes:
    return hashlib.blake2b(data, digest_size=n).digest()


def gen_native(rng):
    sig = {"type": "sig", "keyHash": rng.randbytes(28).hex()}
    r = rng.random()
    if r < 0.4:
        return sig
    if r < 0.7:
        return {"type": "all", "scripts": [sig, {"type": "after", "slot": rng.randint(1, 10**8)}]}
    return {"type": "atLeast", "required": 1, "scripts": [sig, {"type": "sig", "keyHash": rng.randbytes(28).hex()}]}


# =================================================================================================================
# UTxO models
QTYS = [1, 2, 255, 65536, 2**32, 2**53 + 1, 2**63 - 1, 2**63]
COINS = [0, 1, 849070, 1_000_000, 2**32, 45 * 10**15, 2**63 - 1, 2**63]
INDEXES = [0, 1, 2, 23, 24, 255, 256, 65535]
NAME_LENS = [0, 0, 1, 2, 4, 8, 31, 32]


def gen_address(rng):
    pay = VerificationKeyHash(rng.randbytes(28))
    stake = VerificationKeyHash(rng.randbytes(28)) if rng.random() < 0.5 else None
    return str(Address(pay, stake, network=rng.choice([Network.TESTNET, Network.MAINNET])))


def gen_assets(rng):
    """0..8 assets over 1..4 policies, names 0..32 bytes including the empty name, several names per policy,
    names shared between policies; nested insertion-ordered [[policy, [[name, qty], ...]], ...]"""
    n_assets = rng.choice([0, 0, 1, 2, 3, 4, 5, 6, 7, 8])
    if n_assets == 0:
        return []
    pols = [rng.randbytes(28).hex() for _ in range(rng.randint(1, min(4, n_assets)))]
    pool = [rng.randbytes(rng.choice(NAME_LENS)).hex() for _ in range(4)] + [""]
    groups = {p: {} for p in pols}
    for i in range(n_assets):
        p = pols[i] if i < len(pols) else rng.choice(pols)       # every policy gets at least one asset
        for _ in range(20):
            n = rng.choice(pool) if rng.random() < 0.6 else rng.randbytes(rng.choice(NAME_LENS)).hex()
            if n not in groups[p]:
                break
        if n in groups[p]:
            continue
        groups[p][n] = rng.choice(QTYS) if rng.random() < 0.5 else rng.randint(1, 10**7)
    return [[p, [[n, str(q)] for n, q in a.items()]] for p, a in groups.items()]


DATUM_FORMS = {
    # unambiguous forms first; the forms after "|" are generated, compared model-vs-implementation, not judged
    "blockfrost": ["none", "hash", "inline", "inline_nohash"],
    "ogmios_v5": ["none", "hash", "inline", "|", "inline_and_hash"],
    "ogmios_v6": ["none", "hash", "inline", "|", "inline_and_hash"],
    "kupo": ["none", "hash", "|", "inline", "hash_known"],
    "cardano_cli": ["none", "hash", "inline", "|", "datum_key", "inline_and_hash"],
}


def datum_forms(adapter):
    """(judged forms, forms compared with the model only)"""
    forms = DATUM_FORMS[adapter]
    cut = forms.index("|") if "|" in forms else len(forms)
    return forms[:cut], forms[cut + 1:]


def gen_model(rng, adapter, address=None):
    sure, amb = datum_forms(adapter)
    r = rng.random()
    if r < 0.35:
        dform = "none"
    elif amb and r > 0.85:
        dform = rng.choice(amb)
    else:
        dform = rng.choice(sure)
    tree = gen_datum_tree(rng) if dform != "none" else None
    if tree is not None and tree[0] not in ("constr",) and rng.random() < 0.7:
        tree = ["constr", 0, [tree]]
    dh = None
    if dform in ("hash", "hash_known"):
        dh = b2b(datum_cbor(tree), 32).hex()
    r = rng.random()
    lang = None
    if r < 0.25:
        lang = rng.choice([1, 2, 2, 3, 0])
    script = None
    if lang is not None:
        if lang == 0:
            nat = gen_native(rng)
            script = {"lang": 0, "native": nat, "hash": rng.randbytes(28).hex(), "form": "plain"}
        else:
            body = rng.randbytes(rng.choice([1, 4, 23, 24, 40]))
            form = "plain"
            if adapter in ("blockfrost", "kupo") and rng.random() < 0.2:
                form = "wrapped"            # the endpoint serves cbor(bytes): `_try_fix_script` unwraps it
            script = {"lang": lang, "bytes": body.hex(), "hash": b2b(bytes([lang]) + body, 28).hex(), "form": form}
    ma = gen_assets(rng)
    var = {"order": None, "empty_dot": False}
    flat = [(p, n) for p, a in ma for n, _ in a]
    if adapter in ("blockfrost", "kupo", "ogmios_v5") and len(flat) > 2 and rng.random() < 0.3:
        perm = list(range(len(flat)))
        rng.shuffle(perm)
        var["order"] = perm                 # entries reported in another order, policies interleaved
    if adapter in ("kupo", "ogmios_v5") and any(n == "" for _, n in flat) and rng.random() < 0.3:
        var["empty_dot"] = True             # "policy." instead of the bare "policy" for the empty name
    return {
        "txid": rng.randbytes(32).hex(), "index": rng.choice(INDEXES) if rng.random() < 0.6 else rng.randint(0, 40),
        "address": address or gen_address(rng),
        "coin": str(rng.choice(COINS) if rng.random() < 0.5 else rng.randint(1, 10**10)), "ma": ma,
        "dform": dform, "datum_tree": tree, "datum_hash": dh,
        "inline_hash": b2b(datum_cbor(tree), 32).hex() if tree is not None else rng.randbytes(32).hex(),
        "script": script, "var": var,
    }


def entries(m):
    flat = [(p, n, q) for p, a in m["ma"] for n, q in a]
    if m["var"]["order"]:
        flat = [flat[i] for i in m["var"]["order"]]
    return flat


def has_inline(m):
    return m["dform"] in ("inline", "inline_nohash", "inline_and_hash", "datum_key")


def canonical(m, adapter):
    """the response is exactly what the Lean `render` produces for `lean_model(m)`"""
    if m["var"]["order"] or m["var"]["empty_dot"]:
        return False
    if m["dform"] not in ("none", "hash", "inline"):
        return False
    s = m["script"]
    if s is not None:
        if s["form"] != "plain" or s["lang"] not in SCRIPT_OK[adapter]:
            return False
    return True


def lean_model(m, adapter):
    d = None
    if m["dform"] == "inline":
        d = {"json": enc(datum_json(m["datum_tree"]))} if adapter == "cardano_cli" else \
            {"bytes": datum_cbor(m["datum_tree"]).hex()}
    s = None
    if m["script"] is not None:
        sc = m["script"]
        if sc["lang"] != 0:
            body = {"bytes": script_wire(sc, adapter)}
        elif adapter == "ogmios_v6":    # reported by its serialised form; Ogmios' own JSON view travels in `aux`
            body = {"bytes": NativeScript.from_dict(sc["native"]).to_cbor_hex()}
        else:
            body = {"json": enc(sc["native"])}
        s = {"lang": str(sc["lang"]), "body": body}
    return {"txid": m["txid"], "index": str(m["index"]), "address": m["address"], "coin": m["coin"], "ma": m["ma"],
            "datum_hash": m["datum_hash"] if m["dform"] == "hash" else None, "datum": d, "script": s}


def lean_aux(m):
    aux = {"inline_hash": m["inline_hash"], "script_hash": m["script"]["hash"] if m["script"] else "00" * 28}
    if m["script"] and m["script"]["lang"] == 0:
        aux["native_json"] = enc(native_ogmios(m["script"]["native"]))      # only the Ogmios v6 render shows it
    return aux


def script_wire(sc, adapter):
    """hex the service puts on the wire for a Plutus script"""
    raw = bytes.fromhex(sc["bytes"])
    if adapter == "cardano_cli" or sc["form"] == "wrapped":
        return cbor2.dumps(raw).hex()       # text envelope `cborHex` / doubly wrapped endpoint answer
    return raw.hex()


# =================================================================================================================
# THE SPECIFICATION: one short renderer per service (shape of the canned responses in /repo/test/pycardano/backend
# and of the installed client libraries).  Each returns (main, side, key).
def r_blockfrost(m):
    inline = datum_cbor(m["datum_tree"]).hex() if has_inline(m) else None
    shown = m["datum_hash"] if m["dform"] == "hash" else m["inline_hash"] if m["dform"] == "inline" else None
    sc = m["script"]
    main = {
        "address": m["address"], "tx_hash": m["txid"], "tx_index": m["index"], "output_index": m["index"],
        "amount": [{"unit": "lovelace", "quantity": m["coin"]}]
                  + [{"unit": p + n, "quantity": q} for p, n, q in entries(m)],
        "block": "", "data_hash": shown, "inline_datum": inline,
        "reference_script_hash": sc["hash"] if sc else None,
    }
    scripts = {}
    if sc:
        if sc["lang"] == 0:
            scripts[sc["hash"]] = {"type": "timelock", "json": sc["native"]}
        else:
            scripts[sc["hash"]] = {"type": f"plutusV{sc['lang']}", "cbor": script_wire(sc, "blockfrost")}
    return main, {"datums": {}, "scripts": scripts}, None


def dot_assets(m):
    return {(p if n == "" and not m["var"]["empty_dot"] else p + "." + n): int(q) for p, n, q in entries(m)}


def r_ogmios_v5(m):
    inline = datum_cbor(m["datum_tree"]).hex() if has_inline(m) else None
    dh = m["datum_hash"] if m["dform"] == "hash" else m["inline_hash"] if m["dform"] == "inline_and_hash" else None
    sc = m["script"]
    script = None
    if sc:
        script = {"native": sc["native"]} if sc["lang"] == 0 else {f"plutus:v{sc['lang']}": script_wire(sc, "ogmios_v5")}
    return [{"txId": m["txid"], "index": m["index"]},
            {"address": m["address"], "value": {"coins": int(m["coin"]), "assets": dot_assets(m)},
             "datumHash": dh, "datum": inline, "script": script}], {"datums": {}, "scripts": {}}, None


def native_ogmios(n):
    """a native script in Ogmios' own JSON (ogmios-python model `ScriptNative`: clause / from / atLeast / slot)"""
    t = n["type"]
    if t == "sig":
        return {"clause": "signature", "from": n["keyHash"]}
    if t in ("all", "any"):
        return {"clause": t, "from": [native_ogmios(x) for x in n["scripts"]]}
    if t == "atLeast":
        return {"clause": "some", "atLeast": n["required"], "from": [native_ogmios(x) for x in n["scripts"]]}
    return {"clause": t, "slot": n["slot"]}


def r_ogmios_v6(m):
    out = {"transaction": {"id": m["txid"]}, "index": m["index"], "address": m["address"],
           "value": {"ada": {"lovelace": int(m["coin"])}, **{p: {n: int(q) for n, q in a} for p, a in m["ma"]}}}
    if m["dform"] == "hash":
        out["datumHash"] = m["datum_hash"]
    if m["dform"] == "inline_and_hash":
        out["datumHash"] = m["inline_hash"]
    if has_inline(m):
        out["datum"] = datum_cbor(m["datum_tree"]).hex()
    sc = m["script"]
    if sc:
        out["script"] = {"language": "native", "json": native_ogmios(sc["native"]),
                         "cbor": NativeScript.from_dict(sc["native"]).to_cbor_hex()} if sc["lang"] == 0 else \
            {"language": f"plutus:v{sc['lang']}", "cbor": script_wire(sc, "ogmios_v6")}
    return out, {"datums": {}, "scripts": {}}, None


def r_kupo(m):
    shown = m["datum_hash"] if m["dform"] in ("hash", "hash_known") else m["inline_hash"] if has_inline(m) else None
    sc = m["script"]
    main = {"transaction_index": 0, "transaction_id": m["txid"], "output_index": m["index"], "address": m["address"],
            "value": {"coins": int(m["coin"]), "assets": dot_assets(m)}, "datum_hash": shown,
            "datum_type": None if shown is None else "inline" if has_inline(m) else "hash",
            "script_hash": sc["hash"] if sc else None,
            "created_at": {"slot_no": 0, "header_hash": ""}, "spent_at": None}
    datums = {}
    if shown is not None:
        known = has_inline(m) or m["dform"] == "hash_known"
        datums[shown] = {"datum": datum_cbor(m["datum_tree"]).hex()} if known else None
    scripts = {}
    if sc:
        scripts[sc["hash"]] = {"language": "native" if sc["lang"] == 0 else f"plutus:v{sc['lang']}",
                               "script": "" if sc["lang"] == 0 else script_wire(sc, "kupo")}
    return main, {"datums": datums, "scripts": scripts}, None


def r_cardano_cli(m):
    sc = m["script"]
    ref = None
    if sc:
        body = sc["native"] if sc["lang"] == 0 else \
            {"type": f"PlutusScriptV{sc['lang']}", "description": "", "cborHex": script_wire(sc, "cardano_cli")}
        ref = {"script": body, "scriptLanguage": ""}
    inline = m["dform"] in ("inline", "inline_and_hash")
    dh = m["datum_hash"] if m["dform"] == "hash" else m["inline_hash"] if m["dform"] == "inline_and_hash" else None
    main = {"address": m["address"],
            "datum": datum_cbor(m["datum_tree"]).hex() if m["dform"] == "datum_key" else None,
            "datumhash": dh,
            "inlineDatum": datum_json(m["datum_tree"]) if inline else None,
            "inlineDatumhash": m["inline_hash"] if inline else None,
            "referenceScript": ref,
            "value": {**{p: {n: int(q) for n, q in a} for p, a in m["ma"]}, "lovelace": int(m["coin"])}}
    return main, {"datums": {}, "scripts": {}}, f"{m['txid']}#{m['index']}"


RENDER = {"blockfrost": r_blockfrost, "ogmios_v5": r_ogmios_v5, "ogmios_v6": r_ogmios_v6, "kupo": r_kupo,
          "cardano_cli": r_cardano_cli}


def wire(adapter, m):
    """tagged image {main, side, key} of one rendered UTxO (what crosses to the Lean driver)"""
    main, side, key = RENDER[adapter](m)
    w = {"main": enc(main),
         "side": {"datums": [[k, enc(v)] for k, v in side["datums"].items()],
                  "scripts": [[k, enc(v)] for k, v in side["scripts"].items()]}}
    if key is not None:
        w["key"] = key
    return w


# =================================================================================================================
# the real adapters on stub transports
class FakeResponse:
    status_code = 200

    def __init__(self, j):
        self._j = j

    def json(self):
        return self._j


class Services:
    """what the stub transports currently serve"""
    address = None
    entries = []     # list of wire images {main, side, key} decoded to plain JSON
    scripts = {}
    datums = {}


def fake_requests_get(url=None, *args, **kw):
    if url is None and args:
        url = args[0]
    S = Services
    if url.startswith(BF_BASE):
        path = url[len(BF_BASE):]
        if path.endswith("/epochs/latest"):
            return FakeResponse({"epoch": 1, "start_time": 0, "end_time": 2**40})
        if "/addresses/" in path and path.endswith("/utxos"):
            if path.split("/addresses/")[1][: -len("/utxos")] != S.address:
                raise StubError("blockfrost: unexpected address " + path)
            return FakeResponse([e["main"] for e in S.entries])
        if "/scripts/" in path:
            tail = path.split("/scripts/")[1].split("/")
            info = S.scripts.get(tail[0])
            if info is None:
                raise StubError("blockfrost: unknown script " + tail[0])
            if len(tail) == 1:
                return FakeResponse({"script_hash": tail[0], "type": info["type"], "serialised_size": 1})
            if tail[1] == "cbor":
                return FakeResponse({"cbor": info.get("cbor")})
            if tail[1] == "json":
                return FakeResponse({"json": info.get("json")})
        raise StubError("blockfrost: " + url)
    if url.startswith(KUPO_BASE):
        path = url[len(KUPO_BASE):]
        if path.startswith("/matches/"):
            if path != "/matches/" + S.address + "?unspent":
                raise StubError("kupo: unexpected match " + path)
            return FakeResponse([e["main"] for e in S.entries])
        if path.startswith("/datums/"):
            return FakeResponse(S.datums.get(path[len("/datums/"):]))
        if path.startswith("/scripts/"):
            return FakeResponse(S.scripts.get(path[len("/scripts/"):]))
        raise StubError("kupo: " + url)
    raise StubError("requests.get " + str(url))


class FakeWebSocket:
    """websocket.WebSocket of the Ogmios v5 adapter"""

    def connect(self, url):
        pass

    def send(self, req):
        self.req = json.loads(req)

    def recv(self):
        q = self.req["args"]["query"]
        if q == "chainTip":
            r = {"slot": 1, "hash": "00" * 32}
        elif isinstance(q, dict) and "utxo" in q:
            if q["utxo"] != [Services.address]:
                raise StubError("ogmios v5: unexpected query " + json.dumps(q))
            r = [e["main"] for e in Services.entries]
        else:
            raise StubError("ogmios v5: " + json.dumps(q))
        return json.dumps({"type": "jsonwsp/response", "version": "1.0", "servicename": "ogmios", "result": r})

    def close(self):
        pass


class FakeWebsocketModule:
    WebSocket = FakeWebSocket


class FakeOgmiosConnection:
    """websockets ClientConnection under ogmios.client.Client (Ogmios v6)"""

    def send(self, req):
        self.req = json.loads(req)

    def recv(self):
        method = self.req["method"]
        if method == "queryNetwork/tip":
            r = {"slot": 1, "id": "00" * 32}
        elif method == "queryLedgerState/utxo":
            if self.req["params"].get("addresses") != [Services.address]:
                raise StubError("ogmios v6: unexpected params " + json.dumps(self.req["params"]))
            r = [e["main"] for e in Services.entries]
        else:
            raise StubError("ogmios v6: " + method)
        return json.dumps({"jsonrpc": "2.0", "method": method, "result": r, "id": self.req.get("id")})

    def close(self):
        pass


class FakeCompleted:
    def __init__(self, out):
        self.stdout = out


def fake_subprocess_run(cmd, **kw):
    if "tip" in cmd:
        return FakeCompleted(json.dumps({"slot": 1, "epoch": 1, "era": "Conway"}).encode())
    if "utxo" in cmd:
        if cmd[cmd.index("--address") + 1] != Services.address:
            raise StubError("cardano-cli: unexpected address")
        return FakeCompleted(json.dumps({e["key"]: e["main"] for e in Services.entries}).encode())
    raise StubError("cardano-cli: " + " ".join(map(str, cmd)))


class WrappedBackend:
    """the backend KupoChainContextExtension wraps; only the slot is asked"""
    last_block_slot = 1


class Rig:
    """the five adapters, constructed once as the unit tests of /repo construct them, transports stubbed"""

    def __init__(self):
        logging.getLogger("ogmios").disabled = True
        self.patches = [
            mock.patch("requests.get", fake_requests_get),
            mock.patch.object(v5_mod, "websocket", FakeWebsocketModule),
            mock.patch("ogmios.client.connect", lambda *a, **k: FakeOgmiosConnection()),
            mock.patch.object(cli_mod.subprocess, "run", fake_subprocess_run),
        ]
        for p in self.patches:
            p.start()
        self.ad = {
            "blockfrost": bf_mod.BlockFrostChainContext("project", base_url=BF_BASE),
            "ogmios_v5": v5_mod.OgmiosV5ChainContext("ws://ogmios.stub:1337", Network.TESTNET,
                                                     refetch_chain_tip_interval=1000),
            "ogmios_v6": v6_mod.OgmiosV6ChainContext("ogmios.stub", 1337, refetch_chain_tip_interval=1000),
            "kupo": kupo_mod.KupoChainContextExtension(WrappedBackend(), KUPO_BASE),
            "cardano_cli": cli_mod.CardanoCliChainContext(Path("/bin/sh"), Path("/nonexistent/node.socket"),
                                                          Path("/nonexistent/config.json"),
                                                          cli_mod.CardanoCliNetwork.PREPROD,
                                                          refetch_chain_tip_interval=1000),
        }

    def close(self):
        for p in self.patches:
            p.stop()

    def utxos(self, adapter, address, wires, keep_caches=False):
        """serve the wire images to the real adapter; ('ok', [UTxO...]) or ('err', exception class name)"""
        S = Services
        S.address = address
        S.entries = [{"main": dec(w["main"]), "key": w.get("key")} for w in wires]
        S.scripts, S.datums = {}, {}
        for w in wires:
            S.scripts.update({k: dec(v) for k, v in w["side"]["scripts"]})
            S.datums.update({k: dec(v) for k, v in w["side"]["datums"]})
        a = self.ad[adapter]
        for c in ("_utxo_cache", "_datum_cache"):
            if hasattr(a, c) and not keep_caches:
                getattr(a, c).clear()
        try:
            return "ok", a.utxos(address)
        except StubError:
            raise
        except Exception as e:  # noqa: BLE001 - the adapter's own failure on this response
            return "err", type(e).__name__


_RIG = None


def rig():
    global _RIG
    if _RIG is None:
        _RIG = Rig()
    return _RIG


# =================================================================================================================
# images of what the adapter returned
def dump_utxo(u):
    out = u.output
    amount = out.amount
    d = None
    if isinstance(out.datum, RawCBOR):
        d = {"bytes": out.datum.cbor.hex()}
    elif isinstance(out.datum, RawPlutusData):
        d = {"tree": norm_prim(out.datum.data)}
    elif out.datum is not None:
        d = {"other": type(out.datum).__name__}
    s = None
    if isinstance(out.script, (PlutusV1Script, PlutusV2Script, PlutusV3Script)):
        lang = 1 if isinstance(out.script, PlutusV1Script) else 2 if isinstance(out.script, PlutusV2Script) else 3
        s = {"lang": lang, "bytes": bytes(out.script).hex()}
    elif isinstance(out.script, NativeScript):
        s = {"lang": 0, "native": out.script.to_cbor_hex()}
    elif out.script is not None:
        s = {"other": type(out.script).__name__}
    return {"txid": u.input.transaction_id.payload.hex(), "index": u.input.index, "address": str(out.address),
            "coin": str(amount.coin), "ma": V.dump_ma(amount.multi_asset),
            "datum_hash": out.datum_hash.payload.hex() if out.datum_hash is not None else None, "datum": d, "script": s}


def assets_dict(ma_json):
    """dict-of-int view {policy.name: qty}; a key reported twice would show as a list"""
    out = {}
    for p, a in ma_json:
        for n, q in a:
            k = f"{p}.{n}"
            out[k] = int(q) if k not in out else [out[k], int(q)]
    return out


def model_image(mu):
    """the Lean `backend.parse` result in the vocabulary of dump_utxo"""
    d = None
    if mu["datum"] is not None:
        if "bytes" in mu["datum"]:
            d = {"bytes": mu["datum"]["bytes"]}
        else:   # cardano-cli: the JSON subtree handed to RawPlutusData.from_dict
            d = {"tree": norm_prim(RawPlutusData.from_dict(dec(mu["datum"]["json"])).data)}
    s = None
    if mu["script"] is not None:
        lang = int(mu["script"]["lang"])
        body = mu["script"]["body"]
        if "bytes" in body and lang == 0:   # Ogmios v6: the CBOR handed to NativeScript.from_cbor
            s = {"lang": 0, "native": NativeScript.from_cbor(body["bytes"]).to_cbor_hex()}
        elif "bytes" in body:
            s = {"lang": lang, "bytes": body["bytes"]}
        else:   # the JSON subtree handed to NativeScript.from_dict
            s = {"lang": 0, "native": NativeScript.from_dict(dec(body["json"])).to_cbor_hex()}
    return {"txid": mu["txid"], "index": int(mu["index"]), "address": mu["address"], "coin": mu["coin"],
            "ma": V.canon_ma(mu["ma"]), "datum_hash": mu["datum_hash"], "datum": d, "script": s}


def impl_image(du, adapter):
    """dump_utxo canonicalised; the cardano-cli adapter unwraps the envelope's CBOR byte string, the model
    carries the envelope payload opaquely: compare on the wrapped form"""
    s = du["script"]
    if s is not None and "bytes" in s and adapter == "cardano_cli":
        s = {"lang": s["lang"], "bytes": cbor2.dumps(bytes.fromhex(s["bytes"])).hex()}
    return {**du, "ma": V.canon_ma(du["ma"]), "script": s}


# =================================================================================================================
def expected(m, adapter):
    """what the property demands of the returned UTxO; fields that the service shape leaves ambiguous are absent"""
    e = {"txid": m["txid"], "index": m["index"], "address": m["address"], "coin": int(m["coin"]),
         "assets": {f"{p}.{n}": int(q) for p, a in m["ma"] for n, q in a}}
    df = m["dform"]
    if df in datum_forms(adapter)[0]:
        e["datum_hash"] = m["datum_hash"] if df == "hash" else None
        if df in ("inline", "inline_nohash"):
            e["datum"] = {"tree": norm_tree(m["datum_tree"])} if adapter == "cardano_cli" else \
                {"bytes": datum_cbor(m["datum_tree"]).hex()}
        else:
            e["datum"] = None
    sc = m["script"]
    if sc is None:
        e["script"] = None
    elif sc["lang"] == 0:
        if adapter != "cardano_cli":        # how cardano-cli reports a simple script is not known offline
            e["script"] = {"lang": 0, "native": NativeScript.from_dict(sc["native"]).to_cbor_hex()}
    else:
        e["script"] = {"lang": sc["lang"], "bytes": sc["bytes"]}
    return e


def check_valid(ctx, case):
    """case = {kind: valid, adapter, utxos: [model...]} : all models share one address"""
    adapter, models = case["adapter"], case["utxos"]
    address = models[0]["address"]
    wires = [wire(adapter, m) for m in models]
    drv = ctx.driver() if ctx.have_driver() else None
    # --- the Python renderer is the Lean renderer
    if drv:
        for m, w in zip(models, wires):
            if canonical(m, adapter):
                lw = drv.ok({"op": "backend.render", "adapter": adapter, "u": lean_model(m, adapter), "aux": lean_aux(m)})
                ctx.traces += 1
                ctx.count("render-crosschecked-with-lean")
                if lw != w:
                    ctx.diff("backend.render/" + adapter, {"kind": "valid", "adapter": adapter, "utxos": [m]}, lw, w)
    status, res = rig().utxos(adapter, address, wires)
    # --- Lean parse of each entry
    mres = []
    if drv:
        for w in wires:
            mres.append(drv.ok({"op": "backend.parse", "adapter": adapter, "addr": address, **w}))
    unsupported = [m for m in models if m["script"] is not None and m["script"]["lang"] not in SCRIPT_OK[adapter]]
    ctx.count(f"{adapter}")
    for m in models:
        flat = [(p, n) for p, a in m["ma"] for n, _ in a]
        ctx.count(f"{adapter}:assets={len(flat)}")
        ctx.count(f"policies={len(m['ma'])}")
        if any(n == "" for _, n in flat):
            ctx.count(f"{adapter}:empty-name")
        if any(len(a) > 1 for _, a in m["ma"]):
            ctx.count(f"{adapter}:multi-name-policy")
        if any(int(q) >= 2**63 for _, a in m["ma"] for _, q in a):
            ctx.count("qty>=2^63")
        ctx.count(f"{adapter}:datum={m['dform']}")
        ctx.count(f"{adapter}:script={'none' if m['script'] is None else m['script']['lang']}"
                  + ("/wrapped" if m["script"] and m["script"]["form"] == "wrapped" else ""))
        if m["var"]["order"]:
            ctx.count(f"{adapter}:interleaved-order")
        if m["var"]["empty_dot"]:
            ctx.count(f"{adapter}:policy-dot-form")
    if len(models) > 1:
        ctx.count(f"{adapter}:multi-utxo-response")
    ctx.case(case)
    if status == "err":
        if unsupported:
            # a reference script in a language the adapter has no branch for: the adapter raises for the whole
            # address.  Model and implementation must agree on that; documented shapes are recorded findings.
            sc = unsupported[0]["script"]
            ctx.count(f"{adapter}:rejects-script-lang-{sc['lang']}")
            if drv:
                ctx.traces += 1
                if all("ok" in r for r in mres):
                    ctx.diff("backend.parse/" + adapter, case, mres, {"err": res})
            fid = FINDINGS.get((adapter, sc["lang"]))
            if fid and len(models) == 1 and \
                    rig().utxos(adapter, address, [wire(adapter, {**models[0], "script": None})])[0] == "ok":
                ctx.pending_findings.setdefault(fid, (f"{adapter}: a UTxO carrying a reference script of language "
                                                      f"{sc['lang']} makes utxos() raise {res}", case, "a UTxO", res))
            return
        ctx.violation(f"{adapter}: the adapter raises {res} on a well-formed response", case, "a UTxO list", res)
        return
    if unsupported:
        ctx.violation(f"{adapter}: unsupported reference script accepted", case, "an error", [dump_utxo(u) for u in res])
        return
    if len(res) != len(models):
        ctx.violation(f"{adapter}: {len(models)} UTxOs reported, {len(res)} returned", case, len(models), len(res))
        return
    for i, (m, u) in enumerate(zip(models, res)):
        du = dump_utxo(u)
        one = {"kind": "valid", "adapter": adapter, "utxos": [m]} if len(models) > 1 else case
        exp = expected(m, adapter)
        got = {"txid": du["txid"], "index": du["index"], "address": du["address"], "coin": int(du["coin"]),
               "assets": assets_dict(du["ma"])}
        for k in ("datum_hash", "datum", "script"):
            if k in exp:
                got[k] = du[k]
            else:
                ctx.skipped += 1      # ambiguous service shape: compared with the model only
        if adapter == "kupo" and m["dform"] == "inline" and du["datum"] is not None and du["datum_hash"] is not None:
            ctx.count("observed:kupo-inline-datum-returned-with-datum_hash")     # Lean: kupo_inline_datum_gets_datum_hash
        if got != exp:
            bad = [k for k in exp if got.get(k) != exp[k]]
            ctx.violation(f"{adapter}: returned UTxO differs from the reported one in {', '.join(bad)}", one,
                          {k: exp[k] for k in bad}, {k: got.get(k) for k in bad})
            continue
        if drv:
            ctx.traces += 1
            r = mres[i]
            if "ok" not in r or r["ok"] is None:
                ctx.diff("backend.parse/" + adapter, one, r, du)
            elif m["script"] is not None and m["script"]["form"] == "wrapped":
                pass     # `_try_fix_script` (hash-directed unwrapping) is outside the model: judged directly above
            elif model_image(r["ok"]) != impl_image(du, adapter):
                ctx.diff("backend.parse/" + adapter, one, model_image(r["ok"]), impl_image(du, adapter))


def check_history(ctx, case):
    """case = {kind: history, adapter: kupo, steps: [[model...], [model...]]}: two successive responses served to ONE adapter
    instance (the chain advanced in between, so the per-slot UTxO cache does not apply): what is returned for the second
    response must be what is returned for it by a fresh instance — a UTxO is translated from the response that reports it,
    not from what an earlier response happened to leave behind"""
    adapter = case["adapter"]
    first, second = case["steps"]
    w1, w2 = [wire(adapter, m) for m in first], [wire(adapter, m) for m in second]
    WrappedBackend.last_block_slot = 1
    st_fresh, fresh = rig().utxos(adapter, second[0]["address"], w2)
    WrappedBackend.last_block_slot = 2
    rig().utxos(adapter, first[0]["address"], w1)
    WrappedBackend.last_block_slot = 3
    st_hist, hist = rig().utxos(adapter, second[0]["address"], w2, keep_caches=True)
    WrappedBackend.last_block_slot = 1
    ctx.count(f"history:{adapter}")
    ctx.case(case)
    a = [dump_utxo(u) for u in fresh] if st_fresh == "ok" else fresh
    b = [dump_utxo(u) for u in hist] if st_hist == "ok" else hist
    if st_fresh != st_hist or (st_hist == "ok" and len(hist) != len(second)):
        ctx.violation(f"{adapter}: accepting a response depends on an earlier response", case, a, b)
        return
    if st_hist != "ok":
        return
    # against the reported content itself.  A datum remembered from an earlier response may be attached to an output that
    # reports only its hash (content-addressed: it IS the preimage), so for that form both answers are right; everything
    # the second response itself reports must be carried over
    for m, u, f in zip(second, hist, a):
        du, exp = dump_utxo(u), expected(m, adapter)
        if m["dform"] in ("inline", "hash_known"):
            # the second response carries the datum itself (inline / preimage known to the service): it must be returned,
            # as a fresh adapter returns it, whatever an earlier response said about that hash
            want = {"bytes": datum_cbor(m["datum_tree"]).hex()}
            if f.get("datum") == want and du["datum"] != want:
                ctx.violation(f"{adapter}: the datum reported by a response is not returned after an earlier response left the "
                              f"same hash unresolved", case, want, du["datum"])
                continue
        for k in ("txid", "index", "address", "datum_hash", "datum", "script"):
            if k not in exp or du[k] == exp[k]:
                continue
            if k == "datum" and m["dform"] == "hash" and exp[k] is None and du[k] == {"bytes": datum_cbor(m["datum_tree"]).hex()}:
                ctx.count("history:kupo:remembered-preimage-attached")
                continue
            ctx.violation(f"{adapter}: after an earlier response, the returned UTxO differs from the reported one in {k} "
                          f"(a fresh adapter returns {f.get(k)!r})", case, exp[k], du[k])


def gen_history(rng):
    """Kupo: an output holding datum hash H whose preimage the service does not know, then (later) an output holding the
    same datum inline / with the preimage known; and the reverse order"""
    m1 = gen_model(rng, "kupo")
    for _ in range(50):
        if m1["datum_tree"] is not None and m1["script"] is None:
            break
        m1 = gen_model(rng, "kupo")
    else:
        return None
    m2 = gen_model(rng, "kupo", address=m1["address"])
    m2 = {**m2, "script": None, "datum_tree": m1["datum_tree"], "datum_hash": b2b(datum_cbor(m1["datum_tree"]), 32).hex(),
          "inline_hash": b2b(datum_cbor(m1["datum_tree"]), 32).hex()}
    m1 = {**m1, "datum_hash": m2["datum_hash"], "inline_hash": m2["inline_hash"]}
    forms = rng.choice([("hash", "inline"), ("hash", "hash_known"), ("inline", "hash"), ("hash_known", "hash"), ("hash", "hash")])
    return {"kind": "history", "adapter": "kupo", "steps": [[{**m1, "dform": forms[0]}], [{**m2, "dform": forms[1]}]]}


def check_raw(ctx, case):
    """case = {kind: raw, adapter, address, wire, what}: accept / reject only, model against implementation"""
    adapter = case["adapter"]
    status, res = rig().utxos(adapter, case["address"], [case["wire"]])
    ctx.count(f"malformed:{adapter}:{case['what']}")
    ctx.count(f"malformed:{'accept' if status == 'ok' else 'reject'}")
    ctx.case(case)
    if not ctx.have_driver():
        return
    r = ctx.driver().ok({"op": "backend.parse", "adapter": adapter, "addr": case["address"], **case["wire"]})
    ctx.traces += 1
    if ("ok" in r) != (status == "ok"):
        ctx.diff("backend.parse(malformed)/" + adapter, case, r,
                 res if status == "err" else [dump_utxo(u) for u in res])
    elif status == "ok" and r["ok"] is not None and len(res) == 1:
        du = dump_utxo(res[0])
        if V.canon_ma(r["ok"]["ma"]) != V.canon_ma(du["ma"]) or r["ok"]["coin"] != du["coin"]:
            ctx.diff("backend.parse(malformed)/" + adapter, case, r["ok"], du)


# ---------------------------------------------------------------------------------------------------------------
def hex_paths(adapter, main):
    """(container, key, role) of the hex identifiers in a rendered entry"""
    out = []
    if adapter == "blockfrost":
        for it in main["amount"][1:]:
            out.append((it, "unit", "value"))
        out.append((main, "tx_hash", "value"))
    elif adapter in ("ogmios_v5", "kupo"):
        v = (main[1] if adapter == "ogmios_v5" else main)["value"]["assets"]
        out += [(v, k, "key") for k in list(v)]
        out.append((main[0], "txId", "value") if adapter == "ogmios_v5" else (main, "transaction_id", "value"))
    else:
        v = main["value"]
        for p in list(v):
            if p in ("ada", "lovelace"):
                continue
            out.append((v, p, "key"))
            out += [(v[p], n, "key") for n in list(v[p])]
        if adapter == "ogmios_v6":
            out.append((main["transaction"], "id", "value"))
    return out


def rekey(d, old, new):
    items = [(new if k == old else k, v) for k, v in d.items()]
    d.clear()
    d.update(items)


def gen_malformed(rng, adapter):
    """one rendered UTxO with one defect; returns (wire, what) or None"""
    m = gen_model(rng, adapter)
    m["var"] = {"order": None, "empty_dot": False}
    if m["script"] is not None and (m["script"]["lang"] not in SCRIPT_OK[adapter] or m["script"]["form"] != "plain"
                                    or (m["script"]["lang"] == 0 and adapter == "cardano_cli")):
        m["script"] = None
    if m["dform"] not in ("none", "hash", "inline"):
        m["dform"], m["datum_tree"], m["datum_hash"] = "none", None, None
    if not m["ma"]:
        m["ma"] = [[rng.randbytes(28).hex(), [[rng.randbytes(3).hex(), "5"]]]]
    main, side, key = RENDER[adapter](m)
    what = rng.choice(["odd-hex", "non-hex", "short-policy", "long-name", "upper-hex", "unknown-key", "missing-key",
                       "string-quantity", "extra-separator", "bad-txid", "bad-quantity", "negative-quantity"])
    paths = hex_paths(adapter, main)
    asset_paths = [p for p in paths if p[1] not in ("tx_hash", "txId", "transaction_id", "id")]
    c, k, role = rng.choice(asset_paths)

    def put(new):
        if role == "key":
            rekey(c, k, new)
        else:
            c[k] = new

    cur = k if role == "key" else c[k]
    if what == "odd-hex":
        put(cur[:-1] if cur and not cur.endswith(".") else cur + "a")
    elif what == "non-hex":
        put(cur[:-1] + "g" if cur else "g0")
    elif what == "short-policy":
        put(cur[2:])                                   # 27-byte policy (Blockfrost: unit shorter by one byte)
    elif what == "long-name":
        put(cur + "." + "00" * 33 if adapter in ("kupo", "ogmios_v5") and "." not in cur else cur + "00" * 33)
    elif what == "upper-hex":
        put(cur.upper())
    elif what == "unknown-key":
        tgt = main[1] if adapter == "ogmios_v5" else main
        if rng.random() < 0.5:
            tgt["x_unknown"] = rng.choice([1, "a", None, {"y": 2}])
        else:       # inside the value object: the nested-map adapters take it for a policy
            (tgt["value"] if "value" in tgt else tgt["amount"][0])["x_unknown"] = rng.choice([{}, {"aa": 1}, 1])
    elif what == "missing-key":
        tgt = rng.choice(main) if adapter == "ogmios_v5" else main
        if rng.random() < 0.3 and isinstance(tgt.get("value"), dict):
            tgt = tgt["value"]
        del tgt[rng.choice(list(tgt))]
    elif what == "string-quantity":
        if adapter == "blockfrost":
            main["amount"][1]["quantity"] = int(main["amount"][1]["quantity"])     # a JSON number instead of a string
        elif role == "key" and isinstance(c[k], int):
            c[k] = str(c[k])
        else:
            inner = c[k]
            n0 = next(iter(inner))
            inner[n0] = str(inner[n0])
    elif what == "extra-separator":
        if adapter in ("kupo", "ogmios_v5"):
            put(cur + ".00" if "." in cur else cur + ".00.00")
        elif adapter == "cardano_cli":
            key = key + "#0" if rng.random() < 0.5 else key.replace("#", "")
        else:
            return None
    elif what == "bad-txid":
        if adapter == "cardano_cli":
            key = key[2:]
        else:
            c2, k2, _ = [p for p in paths if p[1] in ("tx_hash", "txId", "transaction_id", "id")][0]
            c2[k2] = c2[k2][2:]
    elif what == "bad-quantity":
        if adapter != "blockfrost":
            return None
        main["amount"][rng.randrange(len(main["amount"]))]["quantity"] = rng.choice(["12a", "", "0x10", "1.5", "--1"])
    elif what == "negative-quantity":
        if adapter != "blockfrost":
            return None
        main["amount"][1]["quantity"] = "-" + main["amount"][1]["quantity"]
    w = {"main": enc(main), "side": {"datums": [[a, enc(b)] for a, b in side["datums"].items()],
                                     "scripts": [[a, enc(b)] for a, b in side["scripts"].items()]}}
    if key is not None:
        w["key"] = key
    return {"kind": "raw", "adapter": adapter, "address": m["address"], "wire": w, "what": what}


# =================================================================================================================
def dispatch(ctx, case):
    if not hasattr(ctx, "pending_findings"):
        ctx.pending_findings = {}
    if case["kind"] == "valid":
        check_valid(ctx, case)
    elif case["kind"] == "raw":
        check_raw(ctx, case)
    elif case["kind"] == "history":
        check_history(ctx, case)


def flush_findings(ctx):
    for fid, (what, case, exp, act) in getattr(ctx, "pending_findings", {}).items():
        ctx.violation(what, case, exp, act, finding=fid)
    ctx.pending_findings = {}


def corpus(rng):
    """fixed shapes: ADA-only, the empty name next to other names under one policy, the same name under two
    policies, 2^63, every datum / script form"""
    out = []
    p1, p2 = "11" * 28, "22" * 28
    plain = {"txid": "ab" * 32, "index": 0, "address": "addr_test1vqqszqgpqyqszqgpqyqszqgpqyqszqgpqyqszqgpqyqszqgasfzjt",
             "coin": "2000000", "ma": [], "dform": "none", "datum_tree": None, "datum_hash": None,
             "inline_hash": "00" * 32, "script": None, "var": {"order": None, "empty_dot": False}}
    # an ADA-only UTxO carrying a reference script: a native script on Ogmios v6, a Plutus v3 script on cardano-cli.
    # Ordinary supported shapes, judged like every other case (they were the witnesses of the findings
    # KF-C20-ogmios6-native-refscript / KF-C20-cli-plutusv3-refscript until /repo was repaired)
    out.append({"kind": "valid", "adapter": "ogmios_v6", "utxos": [{**plain, "script": {
        "lang": 0, "native": {"type": "sig", "keyHash": "33" * 28}, "hash": "44" * 28, "form": "plain"}}]})
    out.append({"kind": "valid", "adapter": "cardano_cli", "utxos": [{**plain, "script": {
        "lang": 3, "bytes": "46010000222499", "hash": b2b(bytes([3]) + bytes.fromhex("46010000222499"), 28).hex(),
        "form": "plain"}}]})
    for adapter in ADAPTERS:
        base = gen_model(rng, adapter)
        base.update({"dform": "none", "datum_tree": None, "datum_hash": None, "script": None,
                     "var": {"order": None, "empty_dot": False}})
        for ma in ([], [[p1, [["", "1"]]]], [[p1, [["", "7"], ["00", "8"], ["0000", str(2**63)]]], [p2, [["", "9"], ["00", "1"]]]],
                   [[p1, [["61" * 32, "1"]]], [p2, [["61" * 32, "2"]]]]):
            out.append({"kind": "valid", "adapter": adapter, "utxos": [{**base, "ma": ma}]})
    return out


def run(ctx):
    ctx.rule = ("per adapter: UTxO models with 0..8 assets over 1..4 policies, names of 0..32 bytes (the empty name, "
                "names shared between policies, several names per policy), quantities and lovelace up to 2^63, "
                "ADA-only entries, datum hash / inline datum / reference script (Plutus v1-v3, native) in every "
                "combination, 1..3 UTxOs per response, entries also in interleaved order; rendered in the service's "
                "JSON shape by the Python renderer (cross-checked with the Lean render), served to the real adapter "
                "through a stub transport; a separate stream of single-defect responses (odd-length / non-hex "
                "identifiers, wrong sizes, extra separators, unknown and missing keys, wrong quantity types) is "
                "compared accept/reject only; a case is non-trivial if it is a distinct (adapter, response)")
    ctx.assumptions = [
        "service shapes are those of the canned responses in /repo/test/pycardano/backend and of the installed "
        "client libraries (blockfrost-python 0.6, ogmios-python 1.4.3); no other documentation is available offline",
        "ambiguous shapes are generated and compared between model and implementation only, not judged: an Ogmios "
        "v5/v6 entry carrying both `datum` and `datumHash`; Kupo entries with an inline datum (`datum_type` = inline: "
        "the adapter returns datum AND datum_hash) or a datum hash whose preimage Kupo knows; cardano-cli `datum` "
        "key and `inlineDatum` next to `datumhash`; native / Plutus-v3 reference scripts on Ogmios v5 and Kupo, "
        "native scripts on cardano-cli (accept/reject compared only)",
        "a cardano-cli inline datum is reported as detailed-schema JSON: the returned datum is compared "
        "structurally with the generated datum, not byte-wise; `RawPlutusData.from_dict`, `NativeScript.from_dict`, "
        "`NativeScript.from_cbor` (Ogmios v6), `Address.from_primitive` and `_try_fix_script` are outside the model "
        "(opaque payloads)",
        "CPython's `bytes.fromhex` / `int` tolerate blanks and `_`; the model does not, and the malformed stream does "
        "not probe them",
    ]
    ctx.extra["trusted"] = [
        "third-party client objects are real but fed by stub transports: blockfrost-python BlockFrostApi over a "
        "patched requests.get, ogmios-python Client over a fake websockets connection, websocket.WebSocket (v5), "
        "requests.get (Kupo), subprocess.run (cardano-cli)",
        "the Python renderers as the statement of each service's response shape (equal to the Lean render on every "
        "canonical case)",
    ]
    rng = ctx.rng
    ctx.pending_findings = {}
    try:
        for c in corpus(rng):
            dispatch(ctx, c)
        n = ctx.budget(1500, 20000)
        n_bad = ctx.budget(400, 4000)
        for adapter in ADAPTERS:
            for _ in range(n):
                k = 1 if rng.random() < 0.8 else rng.randint(2, 3)
                first = gen_model(rng, adapter)
                models = [first] + [gen_model(rng, adapter, address=first["address"]) for _ in range(k - 1)]
                if k > 1:
                    # keep responses with several UTxOs free of unsupported scripts (they fail as a whole)
                    for m in models:
                        if m["script"] is not None and m["script"]["lang"] not in SCRIPT_OK[adapter]:
                            m["script"] = None
                    if adapter == "cardano_cli" and len({f"{m['txid']}#{m['index']}" for m in models}) < k:
                        continue
                    if adapter == "kupo":
                        # one datum endpoint per response: keep hashes of different UTxOs apart
                        if len({m["inline_hash"] for m in models}) < k:
                            continue
                dispatch(ctx, {"kind": "valid", "adapter": adapter, "utxos": models})
                if len(ctx.violations) > 20:
                    break
            if adapter == "kupo":
                for _ in range(ctx.budget(150, 2000)):
                    c = gen_history(rng)
                    if c is not None:
                        dispatch(ctx, c)
            for _ in range(n_bad):
                if len(ctx.violations) > 20:
                    break
                c = gen_malformed(rng, adapter)
                if c is not None:
                    dispatch(ctx, c)
            if len(ctx.violations) > 20:
                break
        flush_findings(ctx)
    finally:
        rig().close()
        global _RIG
        _RIG = None


def replay(ctx, data):
    ctx.pending_findings = {}
    try:
        if "input" in data and isinstance(data["input"], dict) and "kind" in data["input"]:
            dispatch(ctx, data["input"])
        for d in data.get("correspondence", []):
            dispatch(ctx, d["input"])
        flush_findings(ctx)
    finally:
        rig().close()
        global _RIG
        _RIG = None
