"""C02 extension `gov` — credentials and governance items are written as the Conway CDDL prescribes.

The rules `credential`, `drep`, `voter`, `anchor`, `voting_procedure`, `gov_action_id`, `voting_procedures`,
`hard_fork_initiation_action` are transliterated in lean/Pyc/Spec/Gov.lean (theorems: Props/C02_Gov.lean).  Here:

  gov-conf    objects built through the public constructors: the bytes the implementation writes against the independent
              reference encoder harness/ref/conway.py (the oracle: a difference is a violation), against the encoder of
              Spec/Gov.lean (driver `gov.spec.enc`) and its recogniser (`gov.spec.valid`).  The content handed to both
              encoders is read off the object's FIELDS.  Objects outside the rule (a DRep whose kind and credential
              disagree, a url over 128 bytes, an empty `VotingProcedures` or inner dict: the counterexamples of
              Props/C02_Gov.lean) must be refused by the reference encoder and by the recogniser.
  gov-conf-embed   certificates, `voting_procedures`, proposals holding these classes, against the reference encoder
  gov-recog-fuzz   the same on random primitives one to three point mutations away from those shapes
  gov-recog   damaged primitives: the recogniser of Spec/Gov.lean against the reference reader (`Lifter`), and the
              theorem `X_accepts_cddl` on the implementation: whatever the rule admits must be decoded and written back
              unchanged
"""
from __future__ import annotations

import random

from pycardano.exception import DeserializeException

from ref import cbor_ref as R
from ref import conway as CW
from vlib import govgen as G

EXT = "gov"
CONF_CLASSES = ["cred", "drepcred", "coldcred", "drep", "voter", "anchor", "vp", "gaid", "votes", "vps", "hardfork"]
RULE = {"cred": "credential", "drep": "drep", "voter": "voter", "anchor": "anchor", "vp": "voting_procedure",
        "gaid": "gov_action_id", "hardfork": "hard_fork", "vps": "voting_procedures"}
RECOG_CLASSES = ["cred", "drep", "voter", "anchor", "vp", "gaid", "vps", "hardfork"]


def mcall(ctx, req):
    k, m = ctx.driver().call(req)
    ctx.traces += 1
    return k, m


# ------------------------------------------------------------------------------ content (read off the fields)
def payload(h):
    b = h.payload
    if not isinstance(b, bytes):
        raise CW.SpecError("payload is not bytes")
    return b


def content(cls, x):
    """-> (content for ref/conway.py, content for the driver's `gov.spec.enc` or None)"""
    from pycardano.hash import VerificationKeyHash
    m = G.MODEL_CLS[cls]
    if m == "cred":
        key = isinstance(x.credential, VerificationKeyHash)
        b = payload(x.credential)
        return {"k": "key" if key else "script", "hash": b}, {"k": 0 if key else 1, "hash": b.hex()}
    if m == "drep":
        k = G.DREP_KIND_CODE[x.kind.name]
        if (k < 2) != (x.credential is not None):
            raise CW.SpecError("drep: kind and credential disagree")        # no alternative of the rule has this shape
        if k < 2:
            b = payload(x.credential)
            return {"k": CW.DREP_NAME[k], "hash": b}, {"k": k, "hash": b.hex()}
        return {"k": CW.DREP_NAME[k]}, {"k": k, "hash": None}
    if m == "voter":
        key = isinstance(x.credential, VerificationKeyHash)
        code = {0: 0 if key else 1, 1: 2 if key else 3, 2: 4}[G.VTYPES.index(x.voter_type)]
        b = payload(x.credential)
        return {"code": code, "hash": b}, {"k": code, "hash": b.hex()}
    if m == "anchor":
        return ({"url": x.url, "hash": payload(x.data_hash)},
                {"url": x.url.encode("utf-8").hex(), "hash": payload(x.data_hash).hex()})
    if m == "vp":
        a = None if x.anchor is None else content("anchor", x.anchor)
        v = G.VOTE_CODE[x.vote.name]
        return ({"vote": v, "anchor": None if a is None else a[0]}, {"vote": v, "anchor": None if a is None else a[1]})
    if m == "gaid":
        t = payload(x.transaction_id)
        return {"txid": t, "ix": x.gov_action_index}, {"txid": t.hex(), "ix": x.gov_action_index}
    if m == "votes":
        return [[content("gaid", k)[0], content("vp", v)[0]] for k, v in x.data.items()], None
    if m == "vps":
        return [[content("voter", k)[0], content("votes", v)[0]] for k, v in x.data.items()], None
    if m == "hardfork":
        ma, mi = x.protocol_version
        g = None if x.gov_action_id is None else content("gaid", x.gov_action_id)
        return ({"code": 1, "prev": None if g is None else g[0], "version": [ma, mi]},
                {"prev": None if g is None else g[1], "major": ma, "minor": mi})
    raise ValueError(cls)


def ref_bytes(cls, c):
    """bytes the CDDL prescribes (reference encoder, strict); raises SpecError outside the rule"""
    m = G.MODEL_CLS[cls]
    w = CW.WireChoices()
    if m == "votes":
        if not c:
            raise CW.SpecError("empty inner table")
        return R.enc(CW.t_table([(CW.t_gaid(g), CW.t_voting_procedure(p)) for g, p in c], w, "votes"))
    if m == "hardfork":
        return CW.encode_part("gov_action", c, w)
    return CW.encode_part({"cred": "credential", "drep": "drep", "voter": "voter", "anchor": "anchor", "vp": "voting_procedure",
                           "gaid": "gov_action_id", "vps": "voting_procedures"}[m], c, w)


def check_conf(ctx, case):
    cls = case["cls"]
    C = G.CLASSES[cls]
    rng = random.Random(case["seed"])
    g = G.realise(G.gen(cls, rng, ctx.thorough))
    x = g["obj"]
    if x is None:
        ctx.count(f"gov-conf:{cls}:constructor-refuses")
        ctx.case(case, nontrivial=False)
        return
    try:
        b = x.to_cbor()
    except Exception as e:
        ctx.count(f"gov-conf:{cls}:unserializable:{type(e).__name__}")
        ctx.skipped += 1
        return
    desc = {**case, "hex": b.hex() if len(b) < 800 else b[:400].hex() + "…"}
    try:
        cref, cdrv = content(cls, x)
        want = ref_bytes(cls, cref)
    except CW.SpecError as e:
        cref, cdrv, want = None, None, None
        why = str(e)[:60]
    except Exception as e:
        ctx.diff("gov.conf.content", desc, "fields of the declared types", f"{type(e).__name__}: {str(e)[:200]}")
        return
    rule = RULE.get(G.MODEL_CLS[cls])
    valid = None
    if ctx.have_driver() and rule is not None:
        k, valid = mcall(ctx, {"op": "gov.spec.valid", "rule": rule, "hex": b.hex()})
        if k != "ok" or not isinstance(valid, bool):
            ctx.diff("gov.spec.valid", desc, valid, "a verdict")
            valid = None
    if want is None:
        # outside the rule: the counterexamples of Props/C02_Gov.lean (constructor accepts, bytes do not conform)
        ctx.count(f"gov-conf:{cls}:outside-the-rule:{why}")
        ctx.skipped += 1
        if valid is True:
            ctx.diff("gov.spec.valid(outside)", desc, True, "reference encoder refuses: " + why)
        ctx.case(case, nontrivial=False)
        return
    ctx.count(f"gov-conf:{cls}:conforming")
    if want != b:
        ctx.violation(f"{C.__name__}: the bytes written differ from the bytes the Conway CDDL prescribes for this content", desc,
                      want.hex()[:600], b.hex()[:600])
    if valid is False:
        ctx.diff("gov.spec.valid", desc, False, "conforming (reference encoder)")
    if ctx.have_driver() and cdrv is not None:
        k, m = mcall(ctx, {"op": "gov.spec.enc", "rule": rule, "v": cdrv})
        if k != "ok":
            ctx.diff("gov.spec.enc", desc, m, "encodable")
        else:
            if not m["ok"]:
                ctx.diff("gov.spec.enc.ok", desc, False, "within the limits of the rule (reference encoder)")
            if m["hex"] != want.hex():
                ctx.diff("gov.spec.enc", desc, m["hex"], want.hex())
    ctx.case(case)


# --------------------------------------------------------------------------------------------------- embedded
def check_conf_embed(ctx, case):
    try:
        check_conf_embed_inner(ctx, case)
    except Exception as e:
        ctx.diff("gov.conf.embed.build", case, "constructible and serializable", f"{type(e).__name__}: {str(e)[:200]}")


def check_conf_embed_inner(ctx, case):
    import pycardano as pc
    from pycardano import certificate as cert
    from pycardano import governance as gov
    from pycardano.certificate import DRep, DRepKind
    from pycardano.hash import PoolKeyHash
    from pycardano.serialization import NonEmptyOrderedSet
    rng = random.Random(case["seed"])
    where = case["where"]

    def cred(cls="cred"):
        o = G.CLASSES[cls](G.g_hashobj(rng))
        return o, content(cls, o)[0]

    def drep():
        k = rng.choice(list(DRepKind))
        o = DRep(kind=k, credential=G.g_hashobj(rng, True) if k == DRepKind.VERIFICATION_KEY_HASH else G.g_hashobj(rng, False)
                 if k == DRepKind.SCRIPT_HASH else None)
        return o, content("drep", o)[0]

    def anchor(opt=True):
        if opt and rng.random() < 0.4:
            return None, None
        while True:
            o = G.g_anchor(rng)
            if len(o.url.encode()) <= 128:
                return o, content("anchor", o)[0]

    pool = G.rb(rng, 28)
    coin = rng.choice([0, 1, 2_000_000, 2**32, 2**64 - 1])
    if where == "certificate":
        code = rng.choice([0, 1, 2, 7, 8, 9, 10, 11, 12, 13, 14, 15, 16, 17, 18])
        c1, j1 = cred("drepcred" if code >= 16 else "cred")
        P = PoolKeyHash(pool)
        if code in (0, 1):
            o, j = (cert.StakeRegistration if code == 0 else cert.StakeDeregistration)(c1), {"code": code, "cred": j1}
        elif code == 2:
            o, j = cert.StakeDelegation(c1, P), {"code": 2, "cred": j1, "pool": pool}
        elif code in (7, 8):
            o, j = (cert.StakeRegistrationConway if code == 7 else cert.StakeDeregistrationConway)(c1, coin), {"code": code, "cred": j1, "coin": coin}
        elif code == 9:
            d, dj = drep()
            o, j = cert.VoteDelegation(c1, d), {"code": 9, "cred": j1, "drep": dj}
        elif code == 10:
            d, dj = drep()
            o, j = cert.StakeAndVoteDelegation(c1, P, d), {"code": 10, "cred": j1, "pool": pool, "drep": dj}
        elif code == 11:
            o, j = cert.StakeRegistrationAndDelegation(c1, P, coin), {"code": 11, "cred": j1, "pool": pool, "coin": coin}
        elif code == 12:
            d, dj = drep()
            o, j = cert.StakeRegistrationAndVoteDelegation(c1, d, coin), {"code": 12, "cred": j1, "drep": dj, "coin": coin}
        elif code == 13:
            d, dj = drep()
            o, j = (cert.StakeRegistrationAndDelegationAndVoteDelegation(c1, P, d, coin),
                    {"code": 13, "cred": j1, "pool": pool, "drep": dj, "coin": coin})
        elif code == 14:
            c2, j2 = cred()
            o, j = cert.AuthCommitteeHotCertificate(c1, c2), {"code": 14, "cold": j1, "hot": j2}
        elif code == 15:
            a, aj = anchor()
            o, j = cert.ResignCommitteeColdCertificate(c1, a), {"code": 15, "cold": j1, "anchor": aj}
        elif code == 16:
            a, aj = anchor()
            o, j = cert.RegDRepCert(c1, coin, a), {"code": 16, "cred": j1, "coin": coin, "anchor": aj}
        elif code == 17:
            o, j = cert.UnregDRepCertificate(c1, coin), {"code": 17, "cred": j1, "coin": coin}
        else:
            a, aj = anchor()
            o, j = cert.UpdateDRepCertificate(c1, a), {"code": 18, "cred": j1, "anchor": aj}
        kind, what = "certificate", f"certificate:{code}"
    elif where == "voting_procedures":
        while True:
            vps = G.g_vps(rng, ctx.thorough)
            try:
                j = content("vps", vps)[0]
                ref_bytes("vps", j)
                break
            except CW.SpecError:
                continue
        body = pc.TransactionBody(inputs=[], outputs=[], fee=0, voting_procedures=vps)
        bb = body.to_cbor()
        item = R.dec(bb)
        got = [v for k, v in item.pairs if k == 19]
        want = CW.encode_part("voting_procedures", j)
        ctx.count("gov-conf-embed:voting_procedures")
        if len(got) != 1 or R.enc(got[0]) != want:
            ctx.violation("TransactionBody.voting_procedures: key 19 does not hold the bytes the CDDL prescribes",
                          {**case, "hex": bb.hex()[:800]}, want.hex()[:600], R.enc(got[0]).hex()[:600] if got else None)
        ctx.case(case)
        return
    elif where == "proposal":
        a, aj = anchor(opt=False)
        prev = G.g_gaid(rng) if rng.random() < 0.5 else None
        pj = None if prev is None else content("gaid", prev)[0]
        ra = bytes([0xE1]) + G.rb(rng, 28)
        dep = rng.choice([0, 10**9])
        k = rng.choice(["hardfork", "noconfidence", "info", "newconstitution"])
        if k == "hardfork":
            ma, mi = rng.randint(1, 10), rng.choice(G.UINTS)
            act, actj = gov.HardForkInitiationAction(gov_action_id=prev, protocol_version=(ma, mi)), {"code": 1, "prev": pj, "version": [ma, mi]}
        elif k == "noconfidence":
            act, actj = gov.NoConfidence(prev), {"code": 3, "prev": pj}
        elif k == "newconstitution":
            a2, a2j = anchor(opt=False)
            act, actj = gov.NewConstitution(prev, (a2, None)), {"code": 5, "prev": pj, "anchor": a2j, "script_hash": None}
        else:
            act, actj = gov.InfoAction(), {"code": 6}
        o = gov.ProposalProcedure(dep, ra, act, a)
        j = {"deposit": dep, "reward_account": ra, "action": actj, "anchor": aj}
        kind, what = "proposal", f"proposal:{k}"
    else:
        raise ValueError(where)
    b = o.to_cbor()
    ctx.count("gov-conf-embed:" + what)
    try:
        want = CW.encode_part(kind, j)
    except CW.SpecError as e:
        ctx.diff("gov.conf.embed.ref", case, f"SpecError: {e}", "expressible content")
        return
    if want != b:
        ctx.violation(f"{type(o).__name__}: the bytes written differ from the bytes the Conway CDDL prescribes", {**case, "hex": b.hex()},
                      want.hex(), b.hex())
    ctx.case(case)


# -------------------------------------------------------------------------------------------------- recogniser
class TagSpy(R.Dec):
    """ref/cbor_ref decoder that notes tags (it folds bignum tags into integers) and booleans: no rule of this family
    admits either, and Python would take `False` / `True` for the integers 0 / 1"""
    saw = False

    def item(self):
        if self.i < len(self.b) and (self.b[self.i] >> 5 == 6 or self.b[self.i] in (0xF4, 0xF5)):
            self.saw = True
        return super().item()


def sort_tables(x):
    """the item with the entries of every map in canonical order (the CDDL does not prescribe one; the library writes this one)"""
    if isinstance(x, R.Map):
        return R.sorted_map([(sort_tables(k), sort_tables(v)) for k, v in x.pairs])
    if isinstance(x, R.IndefList):
        return R.IndefList([sort_tables(i) for i in x])
    if isinstance(x, list):
        return [sort_tables(i) for i in x]
    return x


def ref_decode(mb):
    """-> (item, saw a tag or a boolean) ; raises ValueError"""
    d = TagSpy(mb)
    x = d.item()
    if d.i != len(mb):
        raise ValueError("trailing bytes")
    return x, d.saw


def ref_valid(cls, item):
    """the reference reader's verdict on a decoded item (ref/cbor_ref model): does the CDDL rule admit it?"""
    L = CW.Lifter()
    try:
        if cls == "cred":
            L.credential(item)
        elif cls == "drep":
            L.drep(item)
        elif cls == "voter":
            L.voter(item)
        elif cls == "anchor":
            L.anchor(item)
        elif cls == "vp":
            L.voting_procedure(item)
        elif cls == "gaid":
            g = L.gaid(item)
            L.no(g["ix"] < 65536, "uint .size 2")
        elif cls == "hardfork":
            a = L.gov_action(item)
            L.no(a["code"] == 1 and a["version"][0] <= 12, "hard fork, major_protocol_version = 0 .. 12")
            L.no(a["prev"] is None or a["prev"]["ix"] < 65536, "uint .size 2")
        elif cls == "vps":
            vps = L.voting_procedures(item)
            L.no(len(vps) > 0 and all(len(v) > 0 for _, v in vps), "{+ …}")
            L.no(all(g["ix"] < 65536 for _, v in vps for g, _ in v), "uint .size 2")
            ks = [R.enc(CW.t_voter(k)) for k, _ in vps]
            L.no(len(set(ks)) == len(ks), "repeated key")
            for _, v in vps:
                gs = [R.enc(CW.t_gaid(g)) for g, _ in v]
                L.no(len(set(gs)) == len(gs), "repeated key")
        else:
            raise ValueError(cls)
        return True
    except (CW.NotExpressible, CW.SpecError, TypeError, ValueError, KeyError, IndexError, AttributeError):
        return False


def extra_prims(cls):
    """conforming primitives (so that the recogniser is exercised on its accepting side too)"""
    an = ["u", G.H32]
    if cls == "cred":
        return {"ok0": [0, G.H28], "ok1": [1, G.G28]}
    if cls == "drep":
        return {"ok0": [0, G.H28], "ok1": [1, G.H28], "ok2": [2], "ok3": [3]}
    if cls == "voter":
        return {f"ok{c}": [c, G.H28] for c in range(5)}
    if cls == "anchor":
        return {"ok": an, "ok-empty-url": ["", G.H32], "ok-128": ["x" * 128, G.H32], "url-129": ["x" * 129, G.H32],
                "ok-2byte-64": ["é" * 64, G.H32], "url-2byte-65": ["é" * 65, G.H32]}
    if cls == "vp":
        return {"ok-null": [1, None], "ok-anchor": [2, an], "anchor-url-129": [0, ["x" * 129, G.H32]]}
    if cls == "gaid":
        return {"ok0": [G.H32, 0], "ok65535": [G.H32, 65535]}
    if cls == "hardfork":
        return {"major12": [1, None, [12, 0]], "major13": [1, None, [13, 0]]}
    if cls == "vps":
        vp = [1, None]
        return {"ok-two": R.Map([([0, G.H28], R.Map([([G.H32, 0], vp), ([G.H32, 1], [0, an])])), ([4, G.G28], R.Map([([G.G32, 5], vp)]))]),
                "wire-duplicate-key": R.Map([([0, G.H28], R.Map([([G.H32, 0], vp)])), ([0, G.H28], R.Map([([G.H32, 1], vp)]))]),
                "inner-duplicate-key": R.Map([([0, G.H28], R.Map([([G.H32, 0], vp), ([G.H32, 0], [2, None])]))]),
                "inner-ix-65536": R.Map([([0, G.H28], R.Map([([G.H32, 65536], vp)]))])}
    return {}


def check_recog(ctx, case):
    cls = case["cls"]
    if case["kind"] == "gov-recog-fuzz":
        rng = random.Random(case["seed"])
        near_valid = {k: v for k, v in extra_prims(cls).items() if k.startswith("ok")}
        prims = {"fuzz": G.fuzz_prim(cls, rng, near_valid if near_valid and rng.random() < 0.6 else None)}
        case = {**case, "damage": "fuzz"}
    else:
        prims = {**G.malformed(cls), **extra_prims(cls)}
    if case["damage"] not in prims:
        return
    mb = G.enc_mal(prims[case["damage"]])
    desc = {**case, "hex": mb.hex() if len(mb) < 600 else mb[:300].hex() + "…"}
    try:
        item, spied = ref_decode(mb)
        refv = (not spied) and ref_valid(cls, item)
        canon = R.enc(sort_tables(item))               # the item in the deterministic encoding (shortest heads, sorted tables)
    except ValueError:
        refv, canon = False, None                      # simple values: no rule of this family admits one
    ctx.count(f"{case['kind']}:{cls}:{'admitted' if refv else 'not-admitted'}")
    if ctx.have_driver():
        k, v = mcall(ctx, {"op": "gov.spec.valid", "rule": RULE[cls], "hex": mb.hex()})
        if k != "ok" or v is not refv:
            ctx.diff(f"gov.spec.valid({cls})", desc, v, refv)
    if cls == "hardfork" and refv:
        ma = item[2][0]
        if not 1 <= ma <= 10:
            refv = False                               # the library supports major versions 1..10 (hypothesis of hardfork_accepts_cddl)
    C = G.CLASSES[cls]
    try:
        y = C.from_cbor(mb)
        impl = "ok"
    except DeserializeException:
        y, impl = None, "deser"
    except Exception:
        y, impl = None, "crash"
    if refv:
        # X_accepts_cddl on the implementation: an admitted item is decoded and written back unchanged
        if impl != "ok":
            ctx.violation(f"{C.__name__}: an item the CDDL admits is refused by the decoder", desc, "decoded", impl)
        else:
            try:
                b2 = y.to_cbor()
            except Exception:
                b2 = None
            if b2 != canon:
                ctx.violation(f"{C.__name__}: an item the CDDL admits is written back differently", desc, canon.hex()[:400],
                              b2.hex()[:400] if b2 else None)
    elif impl == "ok":
        ctx.count(f"gov-recog:{cls}:decoder-lenient")
    ctx.case(case, nontrivial=False)


# ------------------------------------------------------------------------------------------------- entry points
def dispatch(ctx, case):
    k = case["kind"]
    if k == "gov-conf":
        check_conf(ctx, case)
    elif k == "gov-conf-embed":
        check_conf_embed(ctx, case)
    elif k in ("gov-recog", "gov-recog-fuzz"):
        check_recog(ctx, case)
    else:
        raise ValueError(k)


def run_ext(ctx):
    ctx.extra.setdefault("trusted", []).append("lean/Pyc/Spec/Gov.lean: hand transliteration of the CDDL rules credential, drep, voter, anchor, voting_procedure, gov_action_id, voting_procedures, hard_fork_initiation_action (compared with the reference encoder / reader harness/ref/conway.py on every run)")
    ctx.assumptions.append(
        "gov extension: the reference encoder harness/ref/conway.py is the oracle for the bytes; objects outside the CDDL rule "
        "that the constructors accept (DRep with kind / credential in disagreement, anchor url over 128 bytes, empty voting "
        "procedure maps) are the counterexamples proved in Props/C02_Gov.lean and are counted, not judged")
    n = ctx.budget(60, 1200)
    for cls in CONF_CLASSES:
        for i in range(n if cls not in ("votes", "vps") else max(n // 2, 1)):
            dispatch(ctx, {"ext": EXT, "kind": "gov-conf", "cls": cls, "seed": f"{ctx.seed}/govc/{cls}/{i}"})
    m = ctx.budget(60, 800)
    for where, k in (("certificate", m), ("voting_procedures", max(m // 4, 1)), ("proposal", max(m // 2, 1))):
        for i in range(k):
            dispatch(ctx, {"ext": EXT, "kind": "gov-conf-embed", "where": where, "seed": f"{ctx.seed}/govc/embed/{where}/{i}"})
    for cls in RECOG_CLASSES:
        for name in {**G.malformed(cls), **extra_prims(cls)}:
            dispatch(ctx, {"ext": EXT, "kind": "gov-recog", "cls": cls, "damage": name})
    f = ctx.budget(60, 2500)
    for cls in RECOG_CLASSES:
        for i in range(f):
            dispatch(ctx, {"ext": EXT, "kind": "gov-recog-fuzz", "cls": cls, "seed": f"{ctx.seed}/govc/fuzz/{cls}/{i}"})


def replay_ext(ctx, case):
    c = {k: v for k, v in case.items() if k in ("ext", "kind", "cls", "seed", "where", "damage")}
    dispatch(ctx, c)
