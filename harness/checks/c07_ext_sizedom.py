"""C07 extension `sizedom` — the builder's estimate is taken on a transaction that dominates the signed one in size.

Theorems (lean/Pyc/Props/C07_SizeDom.lean): `domB fake real = true -> size real <= size fake` for all CBOR items, and
`built_fee_sufficient / built_fee_covers_ledger`: a fee that covers the estimate on the fake bytes covers the fee formula
(integer coefficients: the ledger minimum) of the real bytes.  This module ties the hypotheses to the implementation:

A. every scenario is built AND signed by the real `TransactionBuilder`; the fake transaction of the builder's LAST
   `_estimate_fee` call is recorded (harness-side wrapper of `_build_full_fake_tx`, no change to the code under test) and
   compared with the one `_build_full_fake_tx()` yields on the finished builder; both byte strings are decoded by the
   independent decoder ref/cbor_ref.py into item trees, the driver evaluates `domB fake real` and both sizes:
   * driver size != len(bytes)                                   -> ctx.diff   (model of the encoder / the item tree)
   * exit hypothesis `estimate(last fake) + buffer <= body.fee`   -> ctx.diff when it fails (theorem `fee_loop_post`)
   * `domB` false although the fee suffices                       -> ctx.diff("sizedom")  (the tie is broken)
   * body.fee < exact ledger minimum fee of the signed bytes      -> ctx.violation (judged with Fractions, no model)
B. synthetic item pairs (dominated and non-dominated edits of random trees): the driver's verdict against an
   independent Python rendering of the relation, and `dom => size` evaluated on the bytes.
C. `_build_fake_vkey_witnesses()` for witness counts on both sides of 24 / 256 / 512 (257, 300, 513 included) against the
   model `fakeWitnessSet` and against the count itself (n pairwise distinct placeholders of 32 + 64 bytes).
"""
from __future__ import annotations

import math
import random
from fractions import Fraction as F

from pycardano.txbuilder import TransactionBuilder as _TB

from checks import c07 as C
from ref import cbor_ref as R
from ref import ledger_ref as L
from vlib import bgen
from vlib import plutus_scen as P   # also registers the `x_*` builder ops a replayed script scenario needs
from vlib import scenario as S

EXT = "sizedom"
SLACK_BYTES = 64     # "a few dozen bytes" (as in checks/c07.py)

# ---- recording the fake transaction of every estimate (harness side) ----------------------------------------------------------
_LAST_FAKE = {}      # id(builder) -> [bytes of every fake transaction built, in order]
if not getattr(_TB._build_full_fake_tx, "_sizedom_wrapped", False):
    _orig_full_fake = _TB._build_full_fake_tx

    def _recording_full_fake(self):
        tx = _orig_full_fake(self)
        try:
            _LAST_FAKE.setdefault(id(self), []).append(tx.to_cbor())
        except Exception:  # noqa: BLE001  (the estimator itself will meet the same exception)
            pass
        return tx
    _recording_full_fake._sizedom_wrapped = True
    _recording_full_fake._sizedom_orig = _orig_full_fake
    _TB._build_full_fake_tx = _recording_full_fake
else:
    _orig_full_fake = _TB._build_full_fake_tx._sizedom_orig


# ---- item trees ---------------------------------------------------------------------------------------------------------------------
def item_json(x):
    """ref/cbor_ref.py data model -> the JSON tree of lean/Pyc/Driver/SizeDom.lean"""
    if x is None:
        return {"s": "22"}
    if x is True:
        return {"s": "21"}
    if x is False:
        return {"s": "20"}
    if isinstance(x, int):
        if 0 <= x < 1 << 64:
            return {"u": str(x)}
        if -(1 << 64) <= x < 0:
            return {"n": str(-1 - x)}
        y = x if x > 0 else -1 - x
        return {"g": ["2" if x > 0 else "3", {"b": y.to_bytes((y.bit_length() + 7) // 8, "big").hex()}]}
    if isinstance(x, (bytes, bytearray)):
        return {"b": bytes(x).hex()}
    if isinstance(x, R.Chunked):
        return {"bc": [bytes(c).hex() for c in x.chunks]}
    if isinstance(x, str):
        return {"t": x.encode("utf-8").hex()}
    if isinstance(x, R.IndefList):
        return {"ai": [item_json(i) for i in x]}
    if isinstance(x, (list, tuple)):
        return {"a": [item_json(i) for i in x]}
    if isinstance(x, R.Map):
        return {"m": [[item_json(k), item_json(v)] for k, v in x.pairs]}
    if isinstance(x, R.Tag):
        return {"g": [str(x.tag), item_json(x.value)]}
    raise TypeError(type(x))


def kind(x):
    if x is None or isinstance(x, bool):
        return "simple"
    if isinstance(x, int):
        if 0 <= x < 1 << 64:
            return "uint"
        if -(1 << 64) <= x < 0:
            return "nint"
        return "tag"                      # bignum: tag 2 / 3 over a byte string
    if isinstance(x, (bytes, bytearray)):
        return "bytes"
    if isinstance(x, R.Chunked):
        return "chunked"
    if isinstance(x, str):
        return "text"
    if isinstance(x, R.IndefList):
        return "array*"
    if isinstance(x, (list, tuple)):
        return "array"
    if isinstance(x, R.Map):
        return "map"
    if isinstance(x, R.Tag):
        return "tag"
    raise TypeError(type(x))


def _hl(major, n):
    return len(R.head(major, n))


def py_dom(f, r, st=None, path=""):
    """the relation `domB` written again in Python over the reference decoder's data model (greedy matching as in the
    model); `st` collects how the dominance was established"""
    st = st if st is not None else {}

    def note(k):
        st[k] = st.get(k, 0) + 1
    kf, kr = kind(f), kind(r)
    if kf != kr:
        return False
    if kf == "simple":
        code = {None: 22, True: 21, False: 20}
        return _hl(7, code[r]) <= _hl(7, code[f])
    if kf == "uint":
        ok = _hl(0, r) <= _hl(0, f)
        if ok:
            note("uint:equal" if r == f else "uint:real-below-fake" if r < f else "uint:real-above-fake-same-width")
        return ok
    if kf == "nint":
        return _hl(1, -1 - r) <= _hl(1, -1 - f)
    if kf in ("bytes", "text"):
        lf, lr = (len(f), len(r)) if kf == "bytes" else (len(f.encode()), len(r.encode()))
        if lr <= lf and lr != lf:
            note(kf + ":shorter")
        return lr <= lf
    if kf == "chunked":
        return sum(len(R.enc(c)) for c in r.chunks) <= sum(len(R.enc(c)) for c in f.chunks)
    if kf == "tag":
        if isinstance(f, int) or isinstance(r, int):     # bignums: tag 2/3 over bytes
            if not (isinstance(f, int) and isinstance(r, int)) or (f > 0) != (r > 0):
                return False
            yf, yr = (f if f > 0 else -1 - f), (r if r > 0 else -1 - r)
            return (yr.bit_length() + 7) // 8 <= (yf.bit_length() + 7) // 8
        return f.tag == r.tag and py_dom(f.value, r.value, st, path + f"/tag{f.tag}")
    if kf in ("array", "array*"):
        i = 0
        for x in r:
            while True:
                if i >= len(f):
                    return False
                i += 1
                if py_dom(f[i - 1], x, st, path + "[]"):
                    break
                note("array:fake-element-skipped" + path)
        for _ in f[i:]:
            note("array:fake-element-skipped" + path)
        return True
    if kf == "map":
        i = 0
        for k, v in r.pairs:
            while True:
                if i >= len(f.pairs):
                    return False
                i += 1
                fk, fv = f.pairs[i - 1]
                if R.enc(fk) == R.enc(k) and py_dom(fv, v, st, path + "/" + (str(k) if isinstance(k, int) else "k")):
                    break
                note("map:fake-entry-skipped" + path + ":" + (str(fk) if isinstance(fk, int) else "k"))
        for fk, _ in f.pairs[i:]:
            note("map:fake-entry-skipped" + path + ":" + (str(fk) if isinstance(fk, int) else "k"))
        return True
    raise TypeError(kf)


def driver_check(ctx, case, fake_b, real_b, fake_t, real_t):
    """-> (dom verdict of the model | None, why)"""
    if not ctx.have_driver():
        return None, None
    m = ctx.driver().ok({"op": "dom.check", "fake": item_json(fake_t), "real": item_json(real_t)})
    ctx.traces += 1
    if int(m["size_fake"]) != len(fake_b) or int(m["size_real"]) != len(real_b):
        ctx.diff("dom.size", case, {"size_fake": m["size_fake"], "size_real": m["size_real"]},
                 {"len_fake": len(fake_b), "len_real": len(real_b)})
    if int(m["slack"]) != max(0, len(fake_b) - len(real_b)):
        ctx.diff("dom.slack", case, m["slack"], max(0, len(fake_b) - len(real_b)))
    # the same question with the bytes decoded by the model's own decoder
    m2 = ctx.driver().call({"op": "dom.check", "fake": fake_b.hex(), "real": real_b.hex()})
    ctx.traces += 1
    if m2[0] != "ok" or m2[1]["dom"] != m["dom"] or m2[1]["size_fake"] != m["size_fake"] or m2[1]["size_real"] != m["size_real"]:
        ctx.diff("dom.check:hex-route", case, m2[1] if m2[0] == "ok" else str(m2[1])[:200], m)
    return bool(m["dom"]), m.get("why")


# ---- A. built and signed scenarios ----------------------------------------------------------------------------------------------
def exact_estimate(p, length, steps, mem, ref):
    return C.exact_fee(p, length, steps, mem, ref)


def check_built(ctx, case):
    sc = dict(case["sc"])
    if "sign" not in sc:
        sc["sign"] = C.ALL_KEYS
    _LAST_FAKE.clear()
    run = S.run(sc, sign=True)
    if run.error:
        ctx.count("sizedom:refused:" + run.error)
        ctx.case(case, nontrivial=False)
        return
    b = run.builder
    p = {**S.DEFAULT_PARAMS, **sc.get("params", {})}
    try:
        real_b = run.tx.to_cbor()
    except Exception as e:  # noqa: BLE001
        ctx.count("sizedom:unserializable:" + type(e).__name__)
        ctx.case(case, nontrivial=False)
        return
    fakes = _LAST_FAKE.get(id(b), [])
    if not fakes:
        ctx.diff("sizedom.record", case, "at least one estimate on a fake transaction per build", "none recorded")
        return
    last_b = fakes[-1]
    try:
        post_b = _orig_full_fake(b).to_cbor()
    except Exception as e:  # noqa: BLE001
        post_b = None
        ctx.count("sizedom:post-build-fake-raises:" + type(e).__name__)
    ctx.count("sizedom:built")
    ctx.count("sizedom:estimates-per-build:" + str(min(len(fakes), 8)))
    # -- does the finished builder reproduce the transaction the last estimate was made on?
    if post_b is not None:
        if post_b == last_b:
            ctx.count("sizedom:post-build-fake==last-fake")
        else:
            why_post = "no-change-address(placeholder fee in the last fake)" if sc.get("build", {}).get("change") is None else "other"
            ctx.count(f"sizedom:post-build-fake!=last-fake:{why_post}:len{len(post_b) - len(last_b):+d}")
    # -- the ledger's view of the signed bytes (independent of pycardano and of the model)
    body_b, ws_b, _aux = L.tx_parts(real_b)
    B = L.Body(body_b)
    a, bb = S.frac(p["a"]), S.frac(p["b"])
    refb = C.ref_script_bytes(sc, B)
    ref = None
    if p.get("ref") is not None:
        ref = (S.frac(p["ref"]["base"]), int(p["ref"]["range"]), S.frac(p["ref"]["mult"]))
    need = L.min_fee(real_b, a, bb, S.frac(p["price_mem"]), S.frac(p["price_step"]), refb, ref)
    mem_l, steps_l = L.redeemer_units(real_b)
    sufficient = B.fee >= need
    # -- the exit hypothesis of the theorem: estimate on the last fake transaction (+ buffer) <= body.fee
    steps = sum(int(r.ex_units.steps) for r in b._redeemer_list)
    mem = sum(int(r.ex_units.mem) for r in b._redeemer_list)
    buf = int(b.fee_buffer or 0)
    try:
        refsize = int(b._ref_script_size())
    except Exception:  # noqa: BLE001
        refsize = refb
    eF = exact_estimate(p, len(last_b), steps, mem, refsize)
    exit_ok = eF is not None and eF + buf <= B.fee
    if eF is not None:
        d = B.fee - eF - buf
        ctx.count("sizedom:fee-minus-last-estimate:" + ("0" if d == 0 else "<0" if d < 0 else f"<={4 * math.ceil(d / a / 4)}B" if a else ">0(a=0)"))
    if not exit_ok:
        ctx.diff("sizedom.exit", case, f"estimate on the last fake transaction {eF} + buffer {buf} <= body.fee", B.fee)
    if (steps, mem) != (steps_l, mem_l):
        ctx.diff("sizedom.units", case, {"builder": [steps, mem]}, {"signed bytes": [steps_l, mem_l]})
    if refsize != refb:
        ctx.count("sizedom:ref-bytes:builder!=oracle")
    # -- structural dominance, by the model (driver) and by the Python rendering
    fake_t, real_t = R.dec(last_b), R.dec(real_b)
    st = {}
    pd = py_dom(fake_t, real_t, st)
    md, why = driver_check(ctx, case, last_b, real_b, fake_t, real_t)
    if md is not None and md != pd:
        ctx.diff("dom.check", case, {"dom": md, "why": why}, {"py_dom": pd})
    dom = pd if md is None else md
    for k, v in st.items():
        if k.startswith(("uint:", "bytes:", "text:")):
            ctx.count("sizedom:how:" + k, v)
        else:
            ctx.count("sizedom:how:" + k)
    if post_b is not None and post_b != last_b:
        ctx.count("sizedom:post-build-fake-dominates-real:" + str(py_dom(R.dec(post_b), real_t)))
        ctx.count("sizedom:last-fake-dominates-post-build-fake:" + str(py_dom(fake_t, R.dec(post_b))))
    slack = len(last_b) - len(real_b)
    ctx.count("sizedom:dom=" + str(dom))
    ctx.count("sizedom:slack:" + ("<0" if slack < 0 else str(slack) if slack < 8 else f"{slack // 16 * 16}+"))
    # -- witnesses: real ones among the placeholders
    wsr, wsf = dict(R.dec(ws_b).pairs), dict(fake_t[1].pairs)
    nreal = len(L.unset(wsr[0])) if 0 in wsr else 0
    nfake = len(L.unset(wsf[0])) if 0 in wsf else 0
    ctx.count(f"sizedom:witnesses:real={min(nreal, 9)}/fake={min(nfake, 9)}")
    override = b.witness_override
    if override and nreal > nfake:
        # the caller told the builder to count fewer witnesses than it then supplied keys for: outside the property
        # ("signs with the keys it requires" under the builder's own count)
        ctx.count("sizedom:skipped:witness_override-below-supplied-keys")
        ctx.skipped += 1
        ctx.case(case, nontrivial=False)
        return
    # -- verdicts
    if not sufficient:
        hyp = (f"domB(last fake, signed)={dom}" + (f" [{why}]" if why else "") + f"; exit hypothesis {'holds' if exit_ok else 'FAILS'}"
               f"; sizes fake {len(last_b)} / signed {len(real_b)}")
        ctx.violation(f"body.fee {B.fee} is below the ledger minimum fee {need} of the final {len(real_b)}-byte signed transaction "
                      f"({hyp})", case, need, B.fee)
    elif not dom:
        ctx.diff("sizedom", case, {"domB": False, "why": why, "len_fake": len(last_b), "len_real": len(real_b)},
                 {"fee": B.fee, "ledger_min": need, "sufficient": True})
    if dom and exit_ok:
        # the conclusion of `built_fee_sufficient`, evaluated: the fee formula of the REAL bytes (+ buffer) is covered
        eR = exact_estimate(p, len(real_b), steps, mem, refsize)
        if eR is None or eR + buf > B.fee or len(real_b) > len(last_b):
            ctx.diff("sizedom.theorem", case, "fee formula of the signed bytes + buffer <= body.fee, size real <= size fake",
                     {"eR": eR, "buf": buf, "fee": B.fee, "len_real": len(real_b), "len_fake": len(last_b)})
        ctx.traces += 1
    # -- tightness (only when every required key signed: otherwise placeholders nobody signed for are paid for by design)
    if sufficient and dom and nreal == nfake and not override:
        over = B.fee - need
        bound = math.ceil(a * (SLACK_BYTES + max(0, slack))) + 3 + buf
        net = over - buf
        ctx.count("sizedom:over-ledger-min(net of buffer):" + ("0" if net == 0 else f"<={8 * math.ceil(net / a / 8)}B" if a else ">0(a=0)"))
        if over > bound:
            ctx.violation(f"body.fee {B.fee} exceeds the ledger minimum fee {need} by {over} lovelace: more than {SLACK_BYTES} bytes plus the "
                          f"{max(0, slack)} bytes by which the estimated transaction exceeds the signed one plus the buffer {buf}",
                          case, need + bound, B.fee)
    ctx.case(case)


# ---- scenario generation: the generators of checks/c07.py plus the knobs that change the fake / signed relation ------------------
def gen_built(rng, i):
    fam = ("value", "width", "script", "value", "script", "width", "value")[i % 7]
    if fam == "value":
        sc = bgen.gen_value_scenario(rng)
    elif fam == "width":
        sc = C.width_scenario(rng)
    else:
        sc = P.gen(rng)
        sc.pop("x", None)
    ops = sc["ops"]
    knobs = []
    if rng.random() < 0.25:
        # not every key the builder counts is supplied: real witnesses are a proper sub-set of the placeholders
        sc["sign"] = [k for k in C.ALL_KEYS if rng.random() < 0.6]
        knobs.append("sign-subset")
    if rng.random() < 0.2:
        ops.append({"op": "fee_buffer", "n": rng.choice([0, 1, 23, 1000, 200_000])})
        knobs.append("fee-buffer")
    if rng.random() < 0.15:
        ops.append({"op": "witness_override", "n": rng.choice([1, 2, 3, 5, 8, 12])})
        knobs.append("witness-override")
    if rng.random() < 0.2:
        for k in rng.sample(["k4", "k5", "k6", "s5", "s6"], rng.choice([1, 1, 2, 3])):
            ops.append({"op": "required_signer", "key": k})
        knobs.append("required-signers")
    if rng.random() < 0.2 and not any(o["op"] == "metadata" for o in ops):
        ops.append({"op": "metadata", "label": rng.choice([0, 23, 24, 674, 65536]), "value": "m" * rng.choice([0, 1, 23, 24, 60])})
        knobs.append("metadata")
    if fam != "script" and rng.random() < 0.2:
        # no change address: a single estimate with the `max_tx_fee` placeholder in the fee field
        sc["build"] = {**sc["build"], "change": None, "merge_change": False}
        knobs.append("no-change")
    if fam != "script" and rng.random() < 0.15 and not any(o["op"] == "native_script" for o in ops):
        ops.append({"op": "native_script", "script": rng.choice([["all", [["pk", "k7"], ["pk", "k8"], ["pk", "k9"]]],
                                                                 ["any", [["pk", "k6"], ["all", [["pk", "k7"], ["pk", "k8"]]]]]])})
        knobs.append("native-script-keys")
    # the randomized selector draws from the global `random` module: pin it so that one case replays alone
    sc["build"].setdefault("pyseed", rng.randrange(2**32))
    return {"ext": EXT, "kind": "built", "family": fam, "knobs": knobs, "sc": sc}


# ---- B. synthetic pairs ----------------------------------------------------------------------------------------------------------
BOUND = [0, 1, 23, 24, 255, 256, 65535, 65536, 2**32 - 1, 2**32, 2**63 - 1, 2**64 - 1]


def gen_tree(rng, depth=0):
    k = rng.choice(["uint", "uint", "nint", "bytes", "text", "array", "map", "tag", "simple", "array*", "chunked"]
                   if depth < 3 else ["uint", "nint", "bytes", "text", "simple"])
    if k == "uint":
        return rng.choice(BOUND + [rng.randrange(2**64)])
    if k == "nint":
        return -1 - rng.choice(BOUND + [rng.randrange(2**64)])
    if k == "bytes":
        return bytes(rng.randrange(256) for _ in range(rng.choice([0, 1, 23, 24, 28, 32, 64, 255, 256])))
    if k == "text":
        return "".join(rng.choice("abé€") for _ in range(rng.choice([0, 1, 7, 23, 24, 90])))
    if k == "simple":
        return rng.choice([None, True, False])
    if k == "chunked":
        return R.Chunked([bytes(rng.randrange(256) for _ in range(rng.choice([0, 1, 24, 64]))) for _ in range(rng.randint(0, 3))])
    if k == "tag":
        return R.Tag(rng.choice([24, 258, 121, 102, 1280, 30]), gen_tree(rng, depth + 1))
    n = rng.choice([0, 1, 2, 3, 5, 23, 24, 25]) if depth < 2 else rng.randint(0, 3)
    if k == "array":
        return [gen_tree(rng, depth + 1) for _ in range(n)]
    if k == "array*":
        return R.IndefList([gen_tree(rng, depth + 1) for _ in range(n)])
    return R.Map([(rng.choice([j, bytes([j % 256]) * 2]), gen_tree(rng, depth + 1)) for j in range(n)])


def shrink(rng, x):
    """an item the model should find dominated by `x` (structure-preserving edits that never lengthen anything)"""
    k = kind(x)
    if k == "uint" and not isinstance(x, bool):
        w = _hl(0, x)
        return rng.choice([x, 0, rng.randrange(x + 1), {1: 23, 2: 255, 3: 65535, 5: 2**32 - 1, 9: 2**64 - 1}[w]])
    if k == "nint":
        return -1 - rng.randrange(-x)
    if k == "bytes":
        return bytes(rng.randrange(256) for _ in range(rng.choice([len(x), len(x), rng.randint(0, len(x))])))
    if k == "text":
        return x[:rng.choice([len(x), rng.randint(0, len(x))])] if all(ord(c) < 128 for c in x) else x
    if k == "tag" and isinstance(x, R.Tag):
        return R.Tag(x.tag, shrink(rng, x.value))
    if k in ("array", "array*"):
        out = [shrink(rng, e) for e in x if rng.random() < 0.8]
        return R.IndefList(out) if k == "array*" else out
    if k == "map":
        return R.Map([(kk, shrink(rng, v)) for kk, v in x.pairs if rng.random() < 0.8])
    return x


def spoil(rng, x):
    """one edit somewhere in `x` that usually breaks dominance (wider integer, longer string, extra element, other
    constructor, other tag); the expected verdict is whatever the Python rendering says"""
    k = kind(x)
    if k in ("array", "array*") and x and rng.random() < 0.6:
        j = rng.randrange(len(x))
        out = [spoil(rng, e) if i == j else e for i, e in enumerate(x)]
        return R.IndefList(out) if k == "array*" else out
    if k == "map" and x.pairs and rng.random() < 0.6:
        j = rng.randrange(len(x.pairs))
        return R.Map([(kk, spoil(rng, v) if i == j else v) for i, (kk, v) in enumerate(x.pairs)])
    if k == "tag" and isinstance(x, R.Tag) and rng.random() < 0.6:
        return R.Tag(x.tag, spoil(rng, x.value))
    if k == "uint":
        return rng.choice([{1: 24, 2: 256, 3: 65536, 5: 2**32, 9: 0}[_hl(0, x)], -1 - x if x < 2**64 else 0, b"\x00"])
    if k == "nint":
        return rng.choice([x - 1 if -1 - x < 2**64 - 1 else 5, -1 - {1: 24, 2: 256, 3: 65536, 5: 2**32, 9: 0}[_hl(1, -1 - x)]])
    if k == "bytes":
        return rng.choice([x + b"\x00", x.hex(), [x]])
    if k == "text":
        return rng.choice([x + "a", x.encode()])
    if k in ("array", "array*"):
        return rng.choice([list(x) + [0], R.IndefList(x) if k == "array" else list(x), R.Map([(0, e) for e in x][:1])])
    if k == "map":
        return rng.choice([R.Map(x.pairs + [(99, 0)]), R.Map([(b"zz", v) for _, v in x.pairs]), [v for _, v in x.pairs]])
    if k == "tag" and isinstance(x, R.Tag):
        return rng.choice([R.Tag(x.tag + 1, x.value), x.value])
    if k == "simple":
        return rng.choice([0, [], None if x is not None else True])
    return [x]


def check_pair(ctx, case):
    fake_b, real_b = bytes.fromhex(case["fake"]), bytes.fromhex(case["real"])
    fake_t, real_t = R.dec(fake_b), R.dec(real_b)
    pd = py_dom(fake_t, real_t)
    ctx.count(f"sizedom:pair:{case.get('how', '?')}:dom={pd}")
    if pd and len(real_b) > len(fake_b):
        ctx.violation("dominance holds (independent rendering) but the dominated item is longer on the wire", case,
                      f"<= {len(fake_b)}", len(real_b))
    if case.get("expect") is not None and pd != case["expect"]:
        ctx.diff("dom.expect", case, case["expect"], {"py_dom": pd})
    md, why = driver_check(ctx, case, fake_b, real_b, fake_t, real_t)
    if md is not None and md != pd:
        ctx.diff("dom.check", case, {"dom": md, "why": why}, {"py_dom": pd})
    ctx.case(case)


def gen_pair(rng):
    x = gen_tree(rng)
    how = rng.choice(["same", "shrink", "shrink", "spoil", "spoil-shrunk", "swap"])
    if how == "same":
        f, r, exp = x, x, True
    elif how == "shrink":
        f, r, exp = x, shrink(rng, x), True
    elif how == "spoil":
        f, r, exp = x, spoil(rng, x), None
    elif how == "spoil-shrunk":
        f, r, exp = x, spoil(rng, shrink(rng, x)), None
    else:
        f, r, exp = shrink(rng, x), x, None
    return {"ext": EXT, "kind": "pair", "how": how, "fake": R.enc(f).hex(), "real": R.enc(r).hex(), "expect": exp}


def corpus():
    # the non-vacuity pair of Props/C07_SizeDom.lean (exFake / exReal): 303 and 165 bytes, dominated, slack 138
    def body(fee):
        return R.Map([(0, [[b"\xaa" * 32, 0]]), (1, [[b"\x01", 1500000]]), (2, fee)])

    def wit(v, s):
        return [bytes([v]) * 32, bytes([s]) * 64]
    fake = [body(1000000), R.Map([(0, R.Tag(258, [wit(0, 0), wit(0, 1)])), (1, R.Tag(258, [[0, b"\x07" * 28]]))]), True, None]
    real = [body(170000), R.Map([(0, R.Tag(258, [wit(0x5c, 0x99)]))]), True, None]
    built = [{"ext": EXT, "kind": "built", "family": "corpus", "knobs": [], "sc": c["sc"]} for c in C.corpus() if c.get("kind") == "signed"]
    # more than 256 required keys, all signing, under max_tx_size 65536 (the configuration in which the former AND masks
    # under-paid by 101 bytes per repeated placeholder): judged like every other scenario
    keys = [f"k{100 + i}" for i in range(256)]
    built.append({"ext": EXT, "kind": "built", "family": "corpus", "knobs": ["257-required-signers"], "sc": {
        "params": {"max_tx_size": 65536}, "utxos": [{"id": "u0", "txid": "aa" * 32, "ix": 0, "addr": "k0", "coin": 50_000_000}],
        "address_utxos": {}, "ops": [{"op": "add_input", "u": "u0"}, {"op": "add_output", "addr": "k1", "coin": 2_000_000}]
        + [{"op": "required_signer", "key": k} for k in keys], "build": {"change": "k0", "selectors": [["largest"]]}, "sign": ["k0"] + keys}})
    return built + [{"ext": EXT, "kind": "pair", "how": "lean-example", "fake": R.enc(fake).hex(), "real": R.enc(real).hex(), "expect": True},
            {"ext": EXT, "kind": "pair", "how": "lean-example-reversed", "fake": R.enc(real).hex(), "real": R.enc(fake).hex(), "expect": False},
            {"ext": EXT, "kind": "pair", "how": "lean-example-fee-width", "fake": R.enc(body(65535)).hex(), "real": R.enc(body(170000)).hex(),
             "expect": False}]


# ---- C. the placeholder witnesses ------------------------------------------------------------------------------------------------
def check_wits(ctx, case):
    """`_build_fake_vkey_witnesses()` for a witness count n against the model (`fakeWitnessSet n`) and against what the
    estimate needs of it (theorem fake_witness_count): n pairwise distinct elements `[32-byte key, 64-byte signature]`,
    for every n (the masks are XORed with the index since repair 504b48a; under the former AND masks placeholder 256
    equalled placeholder 0 and was dropped by the OrderedSet)."""
    from pycardano.transaction import TransactionWitnessSet
    n = int(case["n"])
    b = _TB(S.StubContext({}))
    b.witness_override = n
    ws = b._build_fake_vkey_witnesses()
    enc = TransactionWitnessSet(vkey_witnesses=ws).to_cbor()
    t = R.dec(enc)
    val = dict(t.pairs)[0]
    items = L.unset(val)
    shape_ok = all(isinstance(w, list) and len(w) == 2 and isinstance(w[0], bytes) and len(w[0]) == 32
                   and isinstance(w[1], bytes) and len(w[1]) == 64 for w in items)
    distinct = len({(w[0], w[1]) for w in items}) == len(items)
    if not shape_ok or not distinct:
        ctx.violation("a placeholder witness is not a distinct [32-byte key, 64-byte signature] pair: the estimate is taken on "
                      "witnesses shorter than real ones", case, "n x [bytes(32), bytes(64)], pairwise distinct",
                      {"count": len(items), "first": [x.hex() for x in items[0]] if items else None})
    if len(items) != n:
        ctx.violation(f"{len(items)} placeholder witnesses for a witness count of {n}: the estimate misses "
                      f"{101 * (n - len(items))} bytes of the witnesses the signed transaction will carry", case, n, len(items))
    ctx.count("sizedom:wits:n" + ("<=24" if n <= 24 else "<=256" if n <= 256 else ">256"))
    if ctx.have_driver():
        m = ctx.driver().ok({"op": "dom.fakewits", "n": str(n)})
        ctx.traces += 1
        if m["hex"] != R.enc(val).hex() or int(m["count"]) != len(items):
            ctx.diff("dom.fakewits", case, {"count": m["count"], "hex": m["hex"][:80] + "..."},
                     {"count": len(items), "hex": R.enc(val).hex()[:80] + "..."})
    ctx.case(case)


def dispatch(ctx, case):
    if case.get("kind") == "pair":
        check_pair(ctx, case)
    elif case.get("kind") == "wits":
        check_wits(ctx, case)
    else:
        check_built(ctx, case)


def run_ext(ctx):
    ctx.rule += (" | ext sizedom: scenarios of bgen / width / plutus_scen with sign-subset, fee_buffer, witness_override, extra "
                 "required signers, metadata, no change address, nested native scripts: last fake transaction vs signed "
                 "transaction, `domB` by the model, sizes, exit hypothesis, exact ledger minimum; synthetic item pairs "
                 "(dominated / spoiled edits of random trees) against an independent rendering of the relation")
    ctx.assumptions.append("sizedom: the fake transaction of the LAST `_build_full_fake_tx` call of a build is the one the final "
                           "estimate priced (recorded by a harness-side wrapper, serialized at the moment of the call)")
    ctx.extra.setdefault("trusted", []).append("sizedom: ref/cbor_ref.py decodes both transactions into the item trees the model "
                                               "compares (tied back by size == len(bytes) and by the model's own decoder)")
    for c in corpus():
        dispatch(ctx, c)
    for i in range(ctx.budget(300, 20000)):
        dispatch(ctx, gen_pair(random.Random(f"C07/{ctx.seed}/sizedom/pair/{i}")))
    for i in range(ctx.budget(60, 1200)):
        dispatch(ctx, gen_built(random.Random(f"C07/{ctx.seed}/sizedom/built/{i}"), i))
    wr = random.Random(f"C07/{ctx.seed}/sizedom/wits")
    for n in [1, 2, 3, 5, 23, 24, 25, 100, 255, 256, 257, 258, 300, 511, 512, 513] + [wr.randint(1, 700) for _ in range(ctx.budget(3, 40))]:
        dispatch(ctx, {"ext": EXT, "kind": "wits", "n": n})


def replay_ext(ctx, case):
    dispatch(ctx, case)
