"""C07 — the fee of a built transaction is sufficient and tight; the fee functions are the exact formula.

A. `fee`, `max_tx_fee`, `tiered_reference_script_fee` on rational parameter grids against an exact-Fraction oracle
   (direct) and the Lean model (correspondence).
B. Signed builder scenarios: body.fee against the ledger minimum fee of the FINAL serialized transaction, computed
   with Fractions from the transaction bytes (ref/ledger_ref.py)."""
from __future__ import annotations

import math
from fractions import Fraction as F

from pycardano.utils import fee as py_fee
from pycardano.utils import max_tx_fee, tiered_reference_script_fee

from ref import ledger_ref as L
from vlib import bgen
from vlib import scenario as S

ALL_KEYS = [f"k{i}" for i in range(10)] + [f"s{i}" for i in range(1, 10)]


def exact_fee(p, length, steps, mem, ref):
    a, b = S.frac(p["a"]), S.frac(p["b"])
    t = 0
    if p.get("ref") is not None:
        r = p["ref"]
        if ref > int(r["max"]):
            return None
        t = math.ceil(L.tier_fee(ref, S.frac(r["base"]), int(r["range"]), S.frac(r["mult"]))) if ref else 0
    return (math.ceil(length * a) + math.ceil(b) + math.ceil(steps * S.frac(p["price_step"]))
            + math.ceil(mem * S.frac(p["price_mem"])) + t)


def model_params(p):
    ref = None
    if p.get("ref") is not None:
        r = p["ref"]
        ref = {"base": [str(r["base"][0]), str(r["base"][1])], "range": str(r["range"]),
               "mult": [str(r["mult"][0]), str(r["mult"][1])], "max": str(r["max"])}
    return {"a": [str(x) for x in p["a"]], "b": [str(x) for x in p["b"]], "price_step": [str(x) for x in p["price_step"]],
            "price_mem": [str(x) for x in p["price_mem"]], "max_tx_size": str(p["max_tx_size"]),
            "max_steps": str(p["max_steps"]), "max_mem": str(p["max_mem"]), "ref": ref}


def gen_params(rng):
    p = dict(S.DEFAULT_PARAMS)
    p["a"] = rng.choice([[44, 1], [1, 1], [0, 1], [443, 10], [1, 3], [500, 1]])
    p["b"] = rng.choice([[155381, 1], [0, 1], [100, 1], [1553811, 10], [65536, 1]])
    p["price_step"] = rng.choice([[721, 10000000], [1, 1], [0, 1], [1, 3], [7, 13]])
    p["price_mem"] = rng.choice([[577, 10000], [1, 1], [0, 1], [2, 3], [1, 1000]])
    p["max_tx_size"] = rng.choice([16384, 1, 65536])
    p["max_steps"] = rng.choice([10_000_000_000, 0, 7])
    p["max_mem"] = rng.choice([10_000_000, 0, 11])
    if rng.random() < 0.75:
        rg = rng.choice([25600, 1000, 7, 1, 4096])
        p["ref"] = {"base": rng.choice([[15, 1], [44, 1], [1, 3], [0, 1]]), "range": rg,
                    "mult": rng.choice([[6, 5], [1, 1], [3, 2], [11, 10], [1, 2]]), "max": rg * rng.choice([1, 3, 8, 12])}
    else:
        p["ref"] = None
    return p


def check_fee_case(ctx, case):
    p = case["p"]
    cx = S.StubContext({"params": p})
    length, steps, mem, ref = case["length"], case["steps"], case["mem"], case["ref"]
    exp = exact_fee(p, length, steps, mem, ref)
    try:
        got = py_fee(cx, length, steps, mem, ref)
    except ValueError:
        got = None
    if got != exp:
        ctx.violation("fee() differs from the ledger formula evaluated in exact rational arithmetic", case, exp, got)
    exp_max = exact_fee(p, p["max_tx_size"], p["max_steps"], p["max_mem"], ref)
    try:
        got_max = max_tx_fee(cx, ref)
    except ValueError:
        got_max = None
    if got_max != exp_max:
        ctx.violation("max_tx_fee() differs from the formula at the protocol maxima", case, exp_max, got_max)
    if p.get("ref") is not None and ref <= int(p["ref"]["max"]):
        t = tiered_reference_script_fee(cx, ref)
        te = math.ceil(L.tier_fee(ref, S.frac(p["ref"]["base"]), int(p["ref"]["range"]), S.frac(p["ref"]["mult"]))) if ref else 0
        if t != te:
            ctx.violation("tiered_reference_script_fee() differs from the exact tier formula", case, te, t)
        ctx.count(f"tiers:{min(12, (ref - 1) // int(p['ref']['range']) + 1) if ref else 0}")
    if ctx.have_driver():
        mp = model_params(p)
        m = ctx.driver().ok({"op": "fee.fee", "p": mp, "length": str(length), "steps": str(steps), "mem": str(mem), "ref": str(ref)})
        mm = ctx.driver().ok({"op": "fee.max", "p": mp, "ref": str(ref)})
        ctx.traces += 2
        mv = None if isinstance(m, dict) else int(m)
        mmv = None if isinstance(mm, dict) else int(mm)
        if mv != got:
            ctx.diff("fee.fee", case, m, got)
        if mmv != got_max:
            ctx.diff("fee.max", case, mm, got_max)
    ctx.case(case)


def gen_fee_case(rng):
    p = gen_params(rng)
    ref = 0
    if p["ref"] is not None:
        rg, mx = p["ref"]["range"], p["ref"]["max"]
        ref = rng.choice([0, 1, rg - 1, rg, rg + 1, 2 * rg, 2 * rg + 1, mx - 1, mx, mx + 1, rng.randint(0, mx)])
        ref = max(0, ref)
    return {"kind": "fee", "p": p, "length": rng.choice([0, 1, 23, 24, 255, 256, 300, 16384, 65535, 65536, rng.randint(0, 20000)]),
            "steps": rng.choice([0, 1, 13, 175940720, 10**10]), "mem": rng.choice([0, 1, 3, 399882, 10**7]), "ref": ref}


# ---- the builder's final fee loop: every call of _estimate_fee is recorded as (builder, fee in force, estimate) ------------------
from pycardano.txbuilder import TransactionBuilder as _TB  # noqa: E402

_EST_LOG = []
if not getattr(_TB._estimate_fee, "_c07_wrapped", False):
    _orig_estimate = _TB._estimate_fee

    def _recording_estimate(self):
        v = _orig_estimate(self)
        _EST_LOG.append((id(self), int(self.fee or 0), int(v)))
        return v
    _recording_estimate._c07_wrapped = True
    _TB._estimate_fee = _recording_estimate


def check_fee_loop(ctx, sc, run, body_fee):
    """the trailing chain of recorded estimates (f0, e0 > f0), (e0, e1 > e0), ..., (f, e <= f) is the run of the final loop of
    _add_change_and_fee; the Lean loop over that table must end at the fee of the body, and the loop's post-condition
    (theorem fee_loop_post) must hold on the implementation: a fresh estimate on the finished builder is <= body.fee"""
    recs = [(f, e) for (i, f, e) in _EST_LOG if i == id(run.builder)]
    if not recs or not sc.get("build", {}).get("change"):
        return
    chain = [recs[-1]]
    for f, e in reversed(recs[:-1]):
        if e == chain[0][0] and e > f:
            chain.insert(0, (f, e))
        else:
            break
    ctx.count(f"fee-loop:passes={len(chain)}")
    if chain[-1][1] > chain[-1][0] or chain[-1][0] != body_fee:
        ctx.diff("fee.loop:exit", sc, {"exit": "estimate <= fee == body.fee"}, {"chain": chain, "body_fee": body_fee})
        return
    if ctx.have_driver():
        m = ctx.driver().ok({"op": "fee.loop", "f": str(chain[0][0]), "table": [[str(f), str(e)] for f, e in chain]})
        ctx.traces += 1
        if m is None or int(m) != body_fee:
            ctx.diff("fee.loop", sc, m, body_fee)
    try:
        again = _orig_estimate(run.builder)
    except Exception:  # noqa: BLE001
        return
    if again > body_fee:
        ctx.diff("fee.loop:post-condition", sc, f"estimate on the finished builder <= {body_fee}", again)


# ---- B. built and signed transactions ------------------------------------------------------------------------------------
SLACK_BYTES = 64   # "a few dozen bytes": fee / change field widths, placeholder vs final values


def ref_script_bytes(sc, body):
    """bytes of reference scripts the ledger charges: scripts on reference inputs and on spent inputs"""
    total = 0
    umap = {(u["txid"], int(u["ix"])): u for u in sc["utxos"]}
    for ref in set(body.reference_inputs) | set(body.inputs):
        u = umap.get(ref)
        if u is not None and u.get("script") is not None:
            s = S.any_script(u["script"])
            total += len(s.to_cbor()) if hasattr(s, "to_cbor") else len(s)
    return total


def check_signed(ctx, sc):
    sc = dict(sc)
    sc["sign"] = ALL_KEYS
    del _EST_LOG[:]
    run = S.run(sc, sign=True)
    if run.error:
        ctx.count("refused:" + run.error)
        ctx.case(sc, nontrivial=False)
        return
    p = {**S.DEFAULT_PARAMS, **sc.get("params", {})}
    try:
        txb = run.tx.to_cbor()
    except Exception as e:
        ctx.count("unserializable:" + type(e).__name__)
        ctx.case(sc, nontrivial=False)
        return
    body_b, ws_b, aux_b = L.tx_parts(txb)
    B = L.Body(body_b)
    a, b = S.frac(p["a"]), S.frac(p["b"])
    refb = ref_script_bytes(sc, B)
    ref = None
    if p.get("ref") is not None:
        ref = (S.frac(p["ref"]["base"]), int(p["ref"]["range"]), S.frac(p["ref"]["mult"]))
    need = L.min_fee(txb, a, b, S.frac(p["price_mem"]), S.frac(p["price_step"]), refb, ref)
    over = B.fee - need
    ctx.count("built")
    check_fee_loop(ctx, sc, run, B.fee)
    ctx.count("over-bytes:" + str(min(20, max(-1, int(over / a) // 8 * 8 if a else 0))))
    nwit = len(dict(L.R.dec(ws_b).pairs).get(0, L.R.Tag(258, [])).value) if ws_b != b"\xa0" else 0
    ctx.count(f"witnesses:{min(nwit, 8)}")
    if over < 0:
        # recorded defect: an amount sits just above a CBOR width boundary (it crossed it when the fee dropped between
        # the estimate and the final change computation) and the shortfall is at most 8 bytes' worth
        drift = int(a * int(p["max_tx_size"]) + b) + 1
        amounts = [o["coin"] for o in B.outputs] + [B.fee]
        near = any(0 <= v - w <= drift for v in amounts for w in (24, 256, 65536, 2**32))
        fid = "KF-C07-width-boundary" if near and -over <= math.ceil(a * 8) else None
        ctx.violation(f"body.fee {B.fee} is below the ledger minimum fee {need} of the final {len(txb)}-byte transaction", sc, need, B.fee,
                      finding=fid)
    else:
        bound = math.ceil(a * SLACK_BYTES) + 3
        if over > bound:
            # tolerated only when the builder omitted scripts (or witnesses for keys nobody supplied) from the final set
            fake = run.builder._build_fake_witness_set()
            fake_tx_len = len(type(run.tx)(run.body, fake, True, run.builder.auxiliary_data).to_cbor())
            omitted = max(0, fake_tx_len - len(txb))
            if over > bound + math.ceil(a * omitted):
                ctx.violation(f"body.fee {B.fee} exceeds the minimum fee {need} by {over} lovelace: more than {SLACK_BYTES} bytes "
                              f"plus the {omitted} bytes deliberately omitted from the final witness set", sc,
                              need + bound + math.ceil(a * omitted), B.fee)
            ctx.count("omitted-bytes>0")
    ctx.case(sc)


def width_scenario(rng):
    """small fee coefficients and amounts that put the fee and the change on both sides of CBOR integer-width
    boundaries (23/24, 255/256, 65535/65536, 2^32)"""
    p = {"a": rng.choice([[1, 1], [0, 1], [1, 10], [3, 1]]), "b": rng.choice([[0, 1], [20, 1], [200, 1], [65000, 1], [65400, 1]]),
         "cpb": rng.choice([0, 1, 4310])}
    fee_guess = int(S.frac(p["a"]) * 300 + S.frac(p["b"]))
    out_coin = rng.choice([1_000_000, 100, 65_000])
    target_change = rng.choice([20, 23, 24, 30, 250, 255, 256, 300, 65_500, 65_535, 65_536, 65_600, 2**32 - 50, 2**32, 2**32 + 100, 2_000_000])
    coin = out_coin + fee_guess + target_change + rng.randint(-6, 6)
    u = {"id": "u0", "txid": bgen.txid(rng), "ix": 0, "addr": "k0", "coin": max(1, coin)}
    return {"params": p, "utxos": [u], "address_utxos": {}, "ops": [{"op": "add_input", "u": "u0"}, {"op": "add_output", "addr": "k1", "coin": out_coin}],
            "build": {"change": rng.choice(["k0", "k0+s1"]), "merge_change": rng.random() < 0.2, "selectors": [["largest"]]}}


def corpus():
    return [{"kind": "signed", "sc": {"params": {"a": [1, 1], "b": [20, 1], "cpb": 4310},
             "utxos": [{"id": "u0", "txid": "a701f586d7e2239b0a22953486f844dbfe84dec87fe78fbfa1a57b90aa77de1d", "ix": 0, "addr": "k0", "coin": 4295967718}],
             "address_utxos": {}, "ops": [{"op": "add_input", "u": "u0"}, {"op": "add_output", "addr": "k1", "coin": 1000000}],
             "build": {"change": "k0+s1", "merge_change": True, "selectors": [["largest"]]}}}]


def dispatch(ctx, case):
    if case.get("kind") == "fee":
        check_fee_case(ctx, case)
    else:
        check_signed(ctx, case.get("sc", case))


def run(ctx):
    ctx.rule = ("A: fee / max fee / tier fee on rational parameter grids (integer and rational coefficients, prices, tier "
                "parameters, sizes and reference bytes on tier and width boundaries); B: builder scenarios of vlib/bgen.py "
                "(value transfers, mint with native scripts, withdrawals, certificates, metadata) plus width-boundary "
                "scenarios with small fee coefficients, plus Plutus / native script scenarios of vlib/plutus_scen.py (witness, "
                "reference, own-output and address-resolved scripts), signed with every key; non-trivial = distinct case")
    ctx.assumptions = ["ledger minimum fee = a*size + b + ceil(script price) + floor(tier fee) on the final bytes",
                       "reference-script bytes charged = scripts on reference inputs and spent inputs",
                       "float-valued protocol parameters are not exercised (exact rationals only); the tier loop's float "
                       "accumulator is exact for the <= 12 tiers generated"]
    rng = ctx.rng
    for c in corpus():
        dispatch(ctx, c)
    for _ in range(ctx.budget(2000, 50000)):
        dispatch(ctx, gen_fee_case(rng))
    for i in range(ctx.budget(260, 9000)):
        sc = width_scenario(rng) if i % 3 == 0 else bgen.gen_value_scenario(rng)
        dispatch(ctx, {"kind": "signed", "sc": sc})
    # script transactions (vlib/plutus_scen.py): scripts in the witness set, on reference inputs (the same script on
    # several reference UTxOs included), on the spent output itself, found at the script address; redeemers, datums,
    # collateral, execution units supplied or estimated
    from vlib import plutus_scen as P
    for i in range(ctx.budget(160, 6000)):
        sc = P.gen(rng)
        sc.pop("x", None)
        ctx.count("family:script")
        dispatch(ctx, {"kind": "signed", "sc": sc})


def replay(ctx, data):
    if "input" in data:
        dispatch(ctx, data["input"])
    for d in data.get("correspondence", []):
        dispatch(ctx, d["input"])
