"""C08 — built outputs are ledger-valid; otherwise the builder refuses.

Direct evaluation (independent reader of the body bytes + ledger min-UTxO formula): every output of a returned body
has non-negative ADA and positive asset quantities; every change output holds at least its minimum ADA and fits the
maximum value size; bundles are split without loss (balance, shared with C06); negative quantities are refused by
serialization at every nesting level; the min-ADA utility equals the ledger formula and leaves its argument alone.
Correspondence: Lean `out.minada`, `builder.pack`, `builder.change` against the implementation's own functions."""
from __future__ import annotations

import copy

from pycardano import (Address, Asset, AssetName, MultiAsset, ScriptHash, Transaction, TransactionBody,
                       TransactionBuilder, TransactionInput, TransactionOutput, TransactionWitnessSet, UTxO, Value)
from pycardano.hash import TransactionId
from pycardano.utils import min_lovelace_post_alonzo

from ref import cbor_ref as R
from ref import ledger_ref as L
from vlib import bgen
from vlib import scenario as S
from vlib import values as V


def params_of(sc):
    return {**S.DEFAULT_PARAMS, **sc.get("params", {})}


# ---- A. builder scenarios -----------------------------------------------------------------------------------------
def bundle_scenario(rng):
    """a wallet holding a large token bundle (0..60 assets over 1..6 policies, names 0..32 bytes), small left-over ADA,
    small maximum value sizes: forces packing into several change outputs"""
    npol = rng.randint(1, 6)
    nassets = rng.choice([0, 1, 3, 8, 15, 30, 60])
    assets = {}
    pols = [bytes([0xB0 + i]) * 28 for i in range(npol)]
    for _ in range(nassets):
        p = rng.choice(pols).hex()
        n = bytes(rng.randrange(256) for _ in range(rng.choice([0, 1, 4, 8, 16, 32]))).hex()
        assets[(p, n)] = rng.choice([1, 2, 1000, 2**31, 2**62])
    alist = [[p, n, str(q)] for (p, n), q in assets.items()]
    nutx = rng.randint(1, 3)
    utxos = []
    for i in range(nutx):
        part = alist[i::nutx]
        utxos.append({"id": f"u{i}", "txid": bgen.txid(rng), "ix": i, "addr": "k0",
                      "coin": rng.choice([1_200_000, 1_500_000, 2_000_000, 2_500_000, 4_000_000, 10_000_000, 40_000_000]),
                      "assets": part})
    sc = {"params": {"max_val_size": rng.choice([100, 150, 200, 300, 600, 1500, 5000]), "cpb": rng.choice([4310, 4310, 1000, 34482])},
          "utxos": utxos, "address_utxos": {}, "ops": [{"op": "add_input", "u": u["id"]} for u in utxos],
          "build": {"change": "k0", "merge_change": rng.random() < 0.35, "selectors": [["largest"]]}}
    if rng.random() < 0.5:
        sc["ops"].append({"op": "add_output", "addr": rng.choice(["k1", "k0"]), "coin": rng.choice([1_000_000, 1_500_000, 0])})
    return sc


def threshold_scenario(rng):
    """explicit inputs only (no selection): the ADA left after outputs and fee lands around the minimum ADA of the
    change output, on both sides — the refusal branch must fire exactly below it"""
    with_tokens = rng.random() < 0.4
    assets = []
    if with_tokens:
        assets = [[(bytes([0xD0 + rng.randrange(2)]) * 28).hex(), bytes(rng.randrange(256) for _ in range(rng.choice([0, 4, 32]))).hex(), "7"]
                  for _ in range(rng.randint(1, 3))]
        assets = list({(a[0], a[1]): a for a in assets}.values())
    out_coin = rng.choice([1_000_000, 2_000_000, 3_333_333])
    approx_fee = 170_000
    approx_min = 970_000 if not with_tokens else 1_150_000 + 40_000 * len(assets)
    left = approx_min + rng.choice([-400_000, -60_000, -20_000, -5_000, -1_000, 0, 1_000, 5_000, 20_000, 60_000, 400_000])
    u = {"id": "u0", "txid": bgen.txid(rng), "ix": 0, "addr": "k0", "coin": out_coin + approx_fee + left, "assets": assets}
    return {"params": {}, "utxos": [u], "address_utxos": {}, "ops": [{"op": "add_input", "u": "u0"}, {"op": "add_output", "addr": "k1", "coin": out_coin}],
            "build": {"change": "k0", "merge_change": rng.random() < 0.2, "selectors": [["largest"]]}}


def check_change(ctx, case):
    """`_calc_change` called directly on generated arguments: refusal branches and outputs vs the Lean model, and the
    returned change outputs judged against the ledger minimum"""
    p = {**S.DEFAULT_PARAMS, **case["params"]}
    cx = S.StubContext({"params": case["params"]})
    b = TransactionBuilder(cx)
    addr = S.address("k0")
    ins = [UTxO(TransactionInput(TransactionId(bytes([i + 1]) * 32), 0), TransactionOutput(S.address("k2"), V.load_value(v)))
           for i, v in enumerate(case["inputs"])]
    outs = [TransactionOutput(S.address("k1"), V.load_value(v)) for v in case["outputs"]]
    try:
        res = b._calc_change(case["fee"], ins, outs, addr, True, case["respect"])
        impl = [[str(o.amount.coin), V.canon_ma(V.dump_ma(o.amount.multi_asset))] for o in res]
        err = None
    except Exception as e:
        impl, err = None, S.classify(e)
    if impl is not None and case["respect"]:
        for i, o in enumerate(res):
            po = L.parse_output(R.dec(TransactionOutput(addr, o.amount, post_alonzo=True).to_cbor()))
            need = L.min_utxo(po, int(p["cpb"]))
            if po["coin"] < need:
                ctx.violation(f"_calc_change returned change output {i} with {po['coin']} lovelace, below its minimum ADA {need}",
                              case, need, po["coin"])
    if ctx.have_driver():
        req = {"op": "builder.change", "p": model_params(p), "fee": str(case["fee"]), "inputs": case["inputs"], "mint": [],
               "withdrawals": [], "certs": [], "initial_pool": False, "proposals": [], "donation": "0",
               "addr": bytes(addr.to_primitive()).hex(), "out_values": case["outputs"], "respect": case["respect"]}
        m = ctx.driver().ok(req)
        ctx.traces += 1
        if "err" in m:
            if err != m["err"]:
                ctx.diff("builder.change", case, m, err or impl)
        else:
            mod = [[o["amount"]["coin"], V.canon_ma(o["amount"]["ma"])] for o in m["outs"]]
            if mod != impl:
                ctx.diff("builder.change", case, mod, err or impl)
    ctx.count("change:" + (err or f"ok{min(len(impl), 4)}"))
    ctx.case(case)


def gen_change_case(rng):
    bundle = gen_bundle_value(rng) if rng.random() < 0.6 else {"coin": "0", "ma": []}
    out_coin = rng.choice([0, 1_000_000, 2_000_000])
    fee = rng.choice([0, 170_000, 200_000])
    approx_min = 970_000 if not bundle["ma"] else 1_100_000 + 30_000 * sum(len(a) for _, a in bundle["ma"])
    left = approx_min + rng.choice([-10**6, -60_000, -5_000, -1, 0, 1, 5_000, 60_000, 10**6, 10**7])
    inp = {"coin": str(max(0, out_coin + fee + left)), "ma": bundle["ma"]}
    outs = [{"coin": str(out_coin), "ma": []}] if out_coin or rng.random() < 0.3 else []
    if bundle["ma"] and rng.random() < 0.3:
        p, a = bundle["ma"][0]
        outs.append({"coin": "0", "ma": [[p, [[a[0][0], str(max(1, int(a[0][1]) // 2))]]]]})
    return {"kind": "change", "params": {"max_val_size": rng.choice([100, 150, 300, 5000]), "cpb": rng.choice([4310, 1000, 34482])},
            "fee": fee, "inputs": [inp], "outputs": outs, "respect": rng.random() < 0.75}


def requested_count(sc):
    return sum(1 for o in sc["ops"] if o["op"] == "add_output")


def check_build(ctx, sc):
    run = S.run(sc, sign=False)
    if run.error:
        ctx.count("refused:" + run.error)
        ctx.case(sc, nontrivial=False)
        return
    p = params_of(sc)
    try:
        body_bytes = run.body.to_cbor()
    except Exception as e:
        # the builder RETURNED a body that serialization refuses: it should have refused itself
        ctx.violation(f"build() returned a body that cannot be serialized ({type(e).__name__}: {str(e)[:160]})", sc,
                      "a serializable body or a refusal", "unserializable body")
        ctx.case(sc)
        return
    B = L.Body(body_bytes)
    ctx.count("built")
    nreq = requested_count(sc)
    merge = bool(sc["build"].get("merge_change"))
    for i, o in enumerate(B.outputs):
        if o["coin"] < 0 or any(q <= 0 for q in o["assets"].values()):
            ctx.violation(f"output {i} of the returned body carries negative ADA or a non-positive asset quantity", sc,
                          "coin >= 0 and quantities > 0", {"coin": o["coin"], "assets": {f'{k[0]}.{k[1]}': v for k, v in o['assets'].items()}})
    if sc["build"].get("change") is None:
        ctx.case(sc)
        return
    # change outputs: those appended after the requested ones; with merge_change and a single change the merged one
    # change outputs the builder ADDS are those appended after the requested ones.  With merge_change and a single
    # change the amount is added into an output the caller requested; that output's funding is the caller's choice
    # (the builder never validates requested outputs against min-ADA), so it is judged for sign only, above.
    change_idx = list(range(nreq, len(B.outputs)))
    if merge and len(B.outputs) == nreq:
        ctx.count("merged-into-existing")
        ctx.skipped += 1
    ctx.count(f"change-outputs:{min(len(change_idx), 5)}")
    for i in change_idx:
        o = B.outputs[i]
        need = L.min_utxo(o, int(p["cpb"]))
        if o["coin"] < need:
            ctx.violation(f"change output {i} holds {o['coin']} lovelace, less than its minimum ADA {need}", sc, need, o["coin"])
        if o["assets"] and len(L.value_bytes(o)) > int(p["max_val_size"]):
            # a single asset that alone exceeds the limit cannot be split further
            if len(o["assets"]) > 1:
                ctx.violation(f"change output {i}: value of {len(L.value_bytes(o))} bytes exceeds max_val_size "
                              f"{p['max_val_size']}", sc, int(p["max_val_size"]), len(L.value_bytes(o)))
    ctx.case(sc)


# ---- B. utilities ---------------------------------------------------------------------------------------------------------
def gen_output_json(rng, negative=False):
    v = V.gen_value_json(rng, npol=4, nname=6, negatives=False, zeros=rng.random() < 0.2, empties=rng.random() < 0.1)
    v["coin"] = str(rng.choice([0, 0, 1, 1_000_000, 2**32 - 1, 2**32, 65535, 65536, 23, 24, 255, 256, 5_000_000]))
    o = {"addr": rng.choice(["k0", "k1+s1", ["script", "p2:a"]]), "value": v,
         "datum_hash": rng.random() < 0.2, "inline": rng.random() < 0.2, "script": rng.random() < 0.15,
         "post_alonzo": rng.random() < 0.5}
    if o["datum_hash"]:
        o["inline"] = False
    return o


def build_output(o):
    import pycardano as pc
    out = TransactionOutput(S.address(o["addr"]), V.load_value(o["value"]), post_alonzo=o["post_alonzo"])
    if o["datum_hash"]:
        out.datum_hash = pc.datum_hash(S.datum(["constr", 0, [1, 2]]))
    if o["inline"]:
        out.datum = S.datum(["constr", 1, [["bytes", "00ff"]]])
    if o["script"]:
        out.script = S.plutus_script("p2:ref")
    return out


def model_output(out):
    import cbor2
    from pycardano.serialization import default_encoder
    from pycardano.transaction import _Script
    return {"addr": bytes(out.address.to_primitive()).hex(), "amount": V.dump_value(out.amount),
            "datum_hash": bytes(out.datum_hash.payload).hex() if out.datum_hash else None,
            "datum": [cbor2.dumps(out.datum, default=default_encoder).hex(), bool(out.datum)] if out.datum is not None else None,
            "script": cbor2.dumps(_Script(out.script), default=default_encoder).hex() if out.script is not None else None,
            "post_alonzo": bool(out.post_alonzo)}


def check_minada(ctx, case):
    o = case["o"]
    cx = S.StubContext({"params": {"cpb": case["cpb"]}})
    out = build_output(o)
    before = (out.to_cbor(), V.dump_value(out.amount))
    got = min_lovelace_post_alonzo(out, cx)
    after = (out.to_cbor(), V.dump_value(out.amount))
    if before != after:
        ctx.violation("min_lovelace_post_alonzo modified the output it was given", case, before[1], after[1])
    # ledger formula on an independently re-serialized map-form output (coin 0 priced as 1 ADA, as documented)
    parsed = L.parse_output(R.dec(TransactionOutput(out.address, out.amount, out.datum_hash, out.datum, out.script, True).to_cbor()))
    parsed_for_size = dict(parsed)
    if parsed["coin"] == 0:
        parsed_for_size["coin"] = 1_000_000
    exp = (160 + len(L.output_map_form_bytes(parsed_for_size))) * case["cpb"]
    if got != exp:
        ctx.violation("min_lovelace_post_alonzo differs from the ledger formula (160 + |output|) * coinsPerUTxOByte", case, exp, got)
    if ctx.have_driver():
        m = ctx.driver().ok({"op": "out.minada", "cpb": str(case["cpb"]), "o": model_output(out)})
        ctx.traces += 1
        if int(m) != got:
            ctx.diff("out.minada", case, m, got)
        mb = ctx.driver().ok({"op": "out.enc", "o": model_output(out)})
        ctx.traces += 1
        if mb != out.to_cbor().hex():
            ctx.diff("out.enc", case, mb, out.to_cbor().hex())
    ctx.count("minada")
    ctx.case(case)


NEST = ["output", "body.outputs", "body.collateral_return", "tx", "utxo"]


def check_negative(ctx, case):
    """a negative quantity anywhere in an output must make serialization raise, at every nesting level"""
    rngv = case["value"]
    out = TransactionOutput(S.address("k0"), V.load_value(rngv), post_alonzo=case["post_alonzo"])
    neg = int(rngv["coin"]) < 0 or any(int(q) < 0 for _, a in rngv["ma"] for _, q in a)
    tin = TransactionInput(TransactionId(b"\x01" * 32), 0)
    good = TransactionOutput(S.address("k1"), Value(2_000_000))
    nest = case["nest"]
    if nest == "output":
        obj = out
    elif nest == "body.outputs":
        obj = TransactionBody(inputs=[tin], outputs=[good, out], fee=1)
    elif nest == "body.collateral_return":
        obj = TransactionBody(inputs=[tin], outputs=[good], fee=1, collateral_return=out)
    elif nest == "tx":
        obj = Transaction(TransactionBody(inputs=[tin], outputs=[out], fee=1), TransactionWitnessSet())
    else:
        obj = UTxO(tin, out)
    try:
        obj.to_cbor()
        raised = False
    except Exception:
        raised = True
    if neg and not raised:
        ctx.violation(f"a negative quantity nested at '{nest}' was serialized without complaint", case, "refusal", "serialized")
    if not neg and raised:
        ctx.violation(f"a valid output nested at '{nest}' was refused by serialization", case, "bytes", "raised")
    if ctx.have_driver():
        m = ctx.driver().ok({"op": "out.negative", "o": {"addr": "00", "amount": rngv, "datum_hash": None, "datum": None,
                                                          "script": None, "post_alonzo": case["post_alonzo"]}})
        ctx.traces += 1
        if m != raised:
            ctx.diff("out.negative", case, m, raised)
    ctx.count("neg:" + nest + (":neg" if neg else ":ok"))
    ctx.case(case)


def model_params(p):
    return {"cpb": str(p["cpb"]), "max_val_size": str(p["max_val_size"]), "key_deposit": str(p["key_deposit"]),
            "pool_deposit": str(p["pool_deposit"])}


def check_pack(ctx, case):
    """_pack_tokens_for_change directly: Σ bundles = bundle, sizes, model correspondence"""
    p = {**S.DEFAULT_PARAMS, **case["params"]}
    cx = S.StubContext({"params": case["params"]})
    b = TransactionBuilder(cx)
    addr = S.address("k0")
    val = V.load_value(case["change"])
    before = V.dump_value(val)
    arr = b._pack_tokens_for_change(addr, val, int(p["max_val_size"]))
    if V.dump_value(val) != before:
        ctx.violation("_pack_tokens_for_change altered the value it was given", case, before, V.dump_value(val))
    got = [V.dump_ma(m) for m in arr]
    total = {}
    for m in got:
        for k, q in V.content_ma(m).items():
            total[k] = total.get(k, 0) + q
    exp = V.content_ma(case["change"]["ma"])
    if total != exp:
        ctx.violation("token packing lost or duplicated assets", case,
                      {f"{k[0]}.{k[1]}": v for k, v in exp.items()}, {f"{k[0]}.{k[1]}": v for k, v in total.items()})
    for i, m in enumerate(got):
        c = V.content_ma(m)
        if len(c) > 1:
            o = {"addr": bytes(addr.to_primitive()), "coin": 0, "assets": c, "datum_hash": None, "inline_datum": None, "script_ref": None}
            o["coin"] = L.min_utxo({**o, "coin": 1_000_000}, int(p["cpb"]))
            if len(L.value_bytes(o)) > int(p["max_val_size"]):
                ctx.violation(f"packed bundle {i} (with its minimum ADA) exceeds max_val_size", case, int(p["max_val_size"]), len(L.value_bytes(o)))
    if ctx.have_driver():
        m = ctx.driver().ok({"op": "builder.pack", "p": model_params(p), "addr": bytes(addr.to_primitive()).hex(), "change": case["change"]})
        ctx.traces += 1
        if [V.canon_ma(x) for x in m["arr"]] != [V.canon_ma(x) for x in got]:
            ctx.diff("builder.pack", case, m["arr"], got)
        if m["break"]:
            ctx.count("pack-break-taken")
    ctx.count(f"pack-bundles:{min(len(got), 6)}")
    ctx.case(case)


def gen_bundle_value(rng):
    npol = rng.randint(1, 6)
    pols = [bytes([0xC0 + i]) * 28 for i in range(npol)]
    ma = []
    for p in pols:
        names = {bytes(rng.randrange(256) for _ in range(rng.choice([0, 1, 4, 8, 16, 32]))).hex() for _ in range(rng.choice([1, 1, 2, 5, 12]))}
        ma.append([p.hex(), [[n, str(rng.choice([1, 2, 1000, 2**31, 2**62]))] for n in names]])
    return {"coin": str(rng.choice([0, 1_000_000, 2_000_000, 50_000_000])), "ma": ma}


def dispatch(ctx, case):
    k = case["kind"]
    if k == "build":
        check_build(ctx, case["sc"])
    elif k == "minada":
        check_minada(ctx, case)
    elif k == "negative":
        check_negative(ctx, case)
    elif k == "pack":
        check_pack(ctx, case)
    elif k == "change":
        check_change(ctx, case)


def corpus():
    pol = "b0" * 28
    import json as _json
    import os as _os
    _f = _os.path.join(_os.path.dirname(_os.path.dirname(_os.path.abspath(__file__))), "corpus", "c08-merge-split.json")
    return [
        # merge_change WITH an output at the change address, but the change comes out split over several outputs (nothing is
        # merged): found by the thorough tier; the last change output held less than its minimum ADA (repaired: recomputed
        # with the requirement, here the builder now refuses)
        {"kind": "build", "sc": _json.load(open(_f))},
        # merge_change with a bundle needing several change outputs and little ADA (was: negative change output returned)
        {"kind": "build", "sc": {"params": {"max_val_size": 150}, "utxos": [{"id": "u0", "txid": "11" * 32, "ix": 0, "addr": "k0", "coin": 2_500_000,
                                 "assets": [[pol[:54] + f"{i % 3:02x}", f"{i:02x}" * 8, "5"] for i in range(18)]}],
                                 "address_utxos": {}, "ops": [{"op": "add_input", "u": "u0"}, {"op": "add_output", "addr": "k0", "coin": 1_000_000}],
                                 "build": {"change": "k0", "merge_change": True, "selectors": [["largest"]]}}},
        {"kind": "negative", "nest": "body.outputs", "post_alonzo": False, "value": {"coin": "-5", "ma": []}},
        {"kind": "negative", "nest": "tx", "post_alonzo": True, "value": {"coin": "5", "ma": [[pol, [["aa", "-1"]]]]}},
        {"kind": "minada", "cpb": 4310, "o": {"addr": "k0", "value": {"coin": "0", "ma": [[pol, [["aa", "3"]]]]}, "datum_hash": False,
                                              "inline": False, "script": False, "post_alonzo": False}},
    ]


def run(ctx):
    ctx.rule = ("builder scenarios (vlib/bgen.py + token-bundle wallets: 0..60 assets over 1..6 policies, names 0..32 bytes, "
                "left-over ADA around the minimum, max_val_size 100..5000, merge_change on/off with and without an output "
                "at the change address); min-ADA utility on generated outputs (datum hash / inline datum / reference script "
                "/ both output forms, coin width boundaries); negative quantities at 5 nesting levels; direct packing of "
                "generated bundles; non-trivial = distinct case of any of these kinds")
    ctx.assumptions = ["ledger min-UTxO = (160 + |output in map form|) * coinsPerUTxOByte, coin 0 priced as 1 ADA (utility's documented convention)"]
    for c in corpus():
        dispatch(ctx, c)
    rng = ctx.rng
    for i in range(ctx.budget(260, 9000)):
        sc = [bundle_scenario, threshold_scenario, bgen.gen_value_scenario][i % 3](rng)
        dispatch(ctx, {"kind": "build", "sc": sc})
    for _ in range(ctx.budget(400, 20000)):
        dispatch(ctx, gen_change_case(rng))
    for _ in range(ctx.budget(400, 20000)):
        dispatch(ctx, {"kind": "minada", "cpb": rng.choice([4310, 1, 0, 34482]), "o": gen_output_json(rng)})
    for _ in range(ctx.budget(300, 10000)):
        v = V.gen_value_json(rng, npol=3, nname=4, negatives=False)
        r = rng.random()
        if r < 0.35:
            v["coin"] = str(-rng.choice([1, 5, 10**6]))
        elif r < 0.7 and v["ma"]:
            v["ma"][rng.randrange(len(v["ma"]))][1][0][1] = str(-rng.choice([1, 7, 2**40]))
        dispatch(ctx, {"kind": "negative", "nest": rng.choice(NEST), "post_alonzo": rng.random() < 0.5, "value": v})
    for _ in range(ctx.budget(300, 10000)):
        dispatch(ctx, {"kind": "pack", "params": {"max_val_size": rng.choice([100, 150, 200, 300, 600, 1500, 5000]), "cpb": rng.choice([4310, 1000, 34482])},
                       "change": gen_bundle_value(rng)})


def replay(ctx, data):
    if "input" in data:
        inp = data["input"]
        dispatch(ctx, inp if "kind" in inp and inp["kind"] in ("build", "minada", "negative", "pack", "change") else {"kind": "build", "sc": inp})
    for d in data.get("correspondence", []):
        dispatch(ctx, d["input"])
