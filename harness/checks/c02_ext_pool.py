"""C02 extension `pool` — the bytes of pool registration / retirement certificates against the Conway CDDL.

Three independent statements of the wire format meet on every generated object:
  * the implementation (`PoolRegistration(...).to_cbor()`, `PoolRetirement`, each relay class),
  * the Lean model of the implementation (`pool.reg.mk` …) and the Lean transliteration of the CDDL
    (`lean/Pyc/Spec/Pool.lean`: encoder `pool.spec.reg` / `pool.spec.relay` / `pool.spec.ret`, recogniser `pool.spec.is`),
  * the Python reference encoder / lifter written from the CDDL (`harness/ref/conway.py`: `t_cert`, `t_relay`, `lift`) over the
    RFC 8949 codec `harness/ref/cbor_ref.py` — neither uses pycardano or cbor2.

Judged on the implementation without the model: for every object that has spec content (theorem
`registration_conforms_partial`: relays a list, names present, no `id`) the bytes equal the reference encoding of that
content — addresses as the bytes the `socket` module computes for the stored text, the margin as `Fraction` reduces it,
the owner set tagged iff it is an `OrderedSet` with the tag; content outside the value ranges of the CDDL (negative or
> 64-bit coins, ports > 65535, texts > 128 bytes) is compared with a range-free rendering of the same rule.  `PoolParams(...)`
with the relays omitted or `None` holds `[]` (daec0e4) and is judged like any other object (the former counterexample).
Objects without spec content (`dns_name=None`, a set `id`) are the recorded counterexamples of
`registration_conforms_goal`: they are counted, both the Lean recogniser and the reference lifter must refuse their bytes,
and the fixed witnesses are replayed on every run."""
from __future__ import annotations

import random
from fractions import Fraction

from ref import cbor_ref as R
from ref import conway as C
from vlib import poolgen as P

EXT = "pool"


def attempt(f):
    try:
        return f(), None
    except Exception as e:  # noqa: BLE001
        return None, e


def mcall(ctx, req):
    ctx.traces += 1
    return ctx.driver().ok(req)


free_relay = P.free_relay
free_registration = P.free_registration


def why_outside(j):
    out = []
    if any(r["k"] != "addr" and r["dns"] is None for r in (j["relays"] or [])):
        out.append("dns_name=None")
    if j["id"] is not None:
        out.append("id")
    return out


def lifts(kind, b):
    try:
        C.lift(kind, R.dec(b))
        return True
    except (C.NotExpressible, C.SpecError, ValueError, TypeError, KeyError, IndexError):
        return False


def check_reg(ctx, case):
    from pycardano.certificate import PoolRegistration
    rng = random.Random(case["seed"])
    j = P.gen_params(rng, allow_bad=False)
    desc = {**case, "params": j}
    pp, cerr = attempt(lambda: P.build_params(j))
    if cerr is not None:
        ctx.count("pool-reg:constructor-raises")
        return
    x = PoolRegistration(pp)
    b, eerr = attempt(x.to_cbor)
    if eerr is not None:
        ctx.count("pool-reg:unencodable")
        return
    desc["hex"] = b.hex()
    sp = P.spec_params(j)
    reasons = why_outside(j)
    if (sp is None) != bool(reasons):
        raise AssertionError("harness: spec_params and why_outside disagree")
    is_reg = mcall(ctx, {"op": "pool.spec.is", "rule": "pool_registration", "hex": b.hex()}) if ctx.have_driver() else None
    lifted = lifts("certificate", b)
    if sp is None:
        for r in reasons:
            ctx.count(f"pool-reg:no-spec-content:{r} (registration_conforms_counterexample_{'dns' if r.startswith('dns') else 'id'})")
        ctx.skipped += 1
        # both independent statements of the grammar must refuse these bytes — otherwise the counterexample is gone
        if is_reg is True:
            ctx.diff("pool.spec.is(outside)", desc, True, "an object without spec content")
        if lifted:
            ctx.diff("ref.lift(outside)", desc, "lifted", "an object without spec content")
        ctx.case(case)
        return
    content, tagged = sp
    free = R.enc(free_registration(content, tagged))
    if b != free:
        ctx.violation("PoolRegistration: bytes differ from [3, operator, vrf, pledge, cost, #6.30([n, d]), reward_account, "
                      "set<owner>, [* relay], metadata / null] of the content", desc, free.hex(), b.hex())
    ref, rerr = attempt(lambda: R.enc(C.t_cert({"code": 3, "params": content}, C.WireChoices(sets={"pool_owners": tagged}))))
    in_ranges = rerr is None
    ctx.count("pool-reg:" + ("within-cddl-ranges" if in_ranges else "outside-cddl-value-ranges"))
    if in_ranges:
        if b != ref:
            ctx.violation("PoolRegistration: bytes differ from the reference encoder (ref/conway.py t_cert)", desc, ref.hex(), b.hex())
        if not lifted:
            ctx.violation("PoolRegistration: the reference lifter (ref/conway.py) refuses the emitted certificate", desc, "liftable", "refused")
    elif not isinstance(rerr, C.SpecError):
        raise rerr
    ow = j["owners"]
    ctx.count(f"pool-reg:owners:{'tagged' if tagged else 'untagged'}:n={min(len(content['owners']), 25)}")
    ctx.count("pool-reg:relays:" + ("None/omitted -> []" if j["relays"] is None else f"n={len(content['relays'])}"))
    if ctx.have_driver():
        m = mcall(ctx, {"op": "pool.reg.mk", "p": j})
        if "err" in m or m["hex"] != b.hex():
            ctx.diff("pool.reg.mk(hex)", desc, m.get("hex"), b.hex())
        neg = (content["pledge"] < 0 or content["cost"] < 0 or content["margin"][0] < 0 or
               any(r["k"] != "multi" and r["port"] is not None and r["port"] < 0 for r in content["relays"]))
        if neg:
            ctx.count("pool-reg:negative-integer (no spec content: not a uint)")
            if is_reg is True:
                ctx.diff("pool.spec.is(negative)", desc, True, "a negative integer where the CDDL has uint")
            ctx.case(case)
            return
        s = mcall(ctx, {"op": "pool.spec.reg", "p": P.spec_json(content, tagged)})
        # outside the sizes / ranges of the CDDL the spec encoder has nothing to say (`Item.uint n` with n >= 2^64 is no item)
        if s["ok"] and s["hex"] != free.hex():
            ctx.diff("pool.spec.reg vs reference", desc, s["hex"], free.hex())
        if s["ok"] and s["hex"] != b.hex():
            ctx.diff("pool.spec.reg vs implementation", desc, s["hex"], b.hex())
        # the Lean statement of sizes + ranges against the reference encoder's own refusals: the reference also insists on
        # margin <= 1 (`unit_interval`), which the CDDL type does not say
        q = Fraction(*content["margin"])
        if in_ranges and not s["ok"]:
            ctx.diff("pool.spec.reg(ok)", desc, s["ok"], "reference accepts")
        if s["ok"] and not in_ranges and q <= 1:
            ctx.diff("pool.spec.reg(ok)", desc, s["ok"], f"reference refuses: {rerr}")
        if is_reg != s["ok"]:
            ctx.diff("pool.spec.is vs paramsOk", desc, is_reg, s["ok"])
        ctx.count("pool-reg:" + ("in_theorem_scope" if s["ok"] else "outside_theorem_scope"))
    ctx.case(case)


def check_relay(ctx, case):
    rng = random.Random(case["seed"])
    j = P.gen_relay(rng, allow_bad=False)
    desc = {**case, "relay": j}
    x, cerr = attempt(lambda: P.build_relay(j))
    if cerr is not None:
        return
    b, eerr = attempt(x.to_cbor)
    if eerr is not None:
        return
    desc["hex"] = b.hex()
    c = P.spec_relay(j)
    is_relay = mcall(ctx, {"op": "pool.spec.is", "rule": "relay", "hex": b.hex()}) if ctx.have_driver() else None
    if c is None:
        ctx.count("pool-relay:no-spec-content:dns_name=None (registration_conforms_counterexample_dns)")
        ctx.skipped += 1
        if is_relay is True or lifts("relay", b):
            ctx.diff("relay without a name is accepted by a statement of the grammar", desc, is_relay, "refused")
        ctx.case(case)
        return
    free = R.enc(free_relay(c))
    if b != free:
        ctx.violation("relay: bytes differ from the CDDL rendering of its content", desc, free.hex(), b.hex())
    ref, rerr = attempt(lambda: R.enc(C.t_relay(c)))
    if rerr is None:
        if ref != b:
            ctx.violation("relay: bytes differ from the reference encoder (ref/conway.py t_relay)", desc, ref.hex(), b.hex())
        if not lifts("relay", b):
            ctx.violation("relay: the reference lifter refuses the emitted relay", desc, "liftable", "refused")
    elif not isinstance(rerr, C.SpecError):
        raise rerr
    ctx.count(f"pool-relay:{c['k']}:" + ("within-cddl-ranges" if rerr is None else "outside-cddl-value-ranges"))
    if ctx.have_driver():
        sj = {"k": c["k"]}
        if c["k"] != "multi":
            sj["port"] = None if c["port"] is None else str(c["port"])
        if c["k"] == "addr":
            sj["ipv4"] = None if c["ipv4"] is None else c["ipv4"].hex()
            sj["ipv6"] = None if c["ipv6"] is None else c["ipv6"].hex()
        else:
            sj["dns"] = P.hx(c["dns"])
        if c["k"] != "multi" and c["port"] is not None and c["port"] < 0:
            ctx.case(case)
            return                                   # a negative port has no spec content (absPort undefined)
        s = mcall(ctx, {"op": "pool.spec.relay", "r": sj})
        if s["ok"] and s["hex"] != b.hex():
            ctx.diff("pool.spec.relay vs implementation", desc, s["hex"], b.hex())
        if s["ok"] != (rerr is None) or is_relay != s["ok"]:
            ctx.diff("pool.spec.relay(ok)", desc, [s["ok"], is_relay], rerr is None)
    ctx.case(case)


def check_ret(ctx, case):
    from pycardano.certificate import PoolRetirement
    from pycardano.hash import PoolKeyHash
    rng = random.Random(case["seed"])
    kh = P.rbytes(rng, 28)
    epoch = rng.choice(P.INTS) if rng.random() < 0.8 else rng.randint(0, 10**6)
    desc = {**case, "kh": kh.hex(), "epoch": str(epoch)}
    b = PoolRetirement(PoolKeyHash(kh), epoch).to_cbor()
    ref = R.enc(C.t_cert({"code": 4, "pool": kh, "epoch": epoch}, C.WireChoices()))
    if b != ref:
        ctx.violation("PoolRetirement: bytes differ from the reference encoder", desc, ref.hex(), b.hex())
    if ctx.have_driver():
        s = mcall(ctx, {"op": "pool.spec.ret", "kh": kh.hex(), "epoch": str(epoch)})
        ok = mcall(ctx, {"op": "pool.spec.is", "rule": "pool_retirement", "hex": b.hex()})
        if s != b.hex() or ok is not True:
            ctx.diff("pool.spec.ret", desc, [s, ok], b.hex())
    ctx.case(case)


def check_body(ctx, case):
    """the certificates inside a transaction body: the item under key 4 is the reference encoding"""
    from pycardano import Address, Network, TransactionBody, TransactionId, TransactionInput, TransactionOutput
    from pycardano.certificate import PoolRegistration, PoolRetirement
    from pycardano.hash import PoolKeyHash, VerificationKeyHash
    from pycardano.serialization import NonEmptyOrderedSet
    rng = random.Random(case["seed"])
    j = P.gen_params(rng, allow_bad=False)
    sp = P.spec_params(j)
    if sp is None:
        return
    content, tagged = sp
    kh, epoch = P.rbytes(rng, 28), rng.choice([0, 300, 2**32 - 1])
    certs = [PoolRegistration(P.build_params(j)), PoolRetirement(PoolKeyHash(kh), epoch)]
    as_set = rng.random() < 0.5
    desc = {**case, "params": j, "set": as_set}
    body = TransactionBody(
        inputs=[TransactionInput(TransactionId(P.rbytes(rng, 32)), 0)],
        outputs=[TransactionOutput(Address(VerificationKeyHash(P.rbytes(rng, 28)), network=Network.TESTNET), 2_000_000)],
        fee=170_000, certificates=NonEmptyOrderedSet(certs) if as_set else certs)
    bb, eerr = attempt(body.to_cbor)
    if eerr is not None:
        ctx.violation("TransactionBody with pool certificates cannot be serialized", desc, "bytes", repr(eerr)[:200])
        return
    desc["hex"] = bb.hex()
    field = dict(R.dec(bb).pairs)[4]
    want = [free_registration(content, tagged), [4, kh, epoch]]
    want = R.Tag(258, want) if as_set else want
    if R.enc(field) != R.enc(want):
        ctx.violation("TransactionBody: the certificates field differs from the CDDL rendering of its content", desc,
                      R.enc(want).hex(), R.enc(field).hex())
    ctx.count("pool-body:" + ("tagged-set" if as_set else "list"))
    ctx.case(case)


def witness_cases(ctx):
    """fixed objects: the default constructor call (relays omitted — the former registration_conforms_counterexample, repaired by
    daec0e4: judged like any other case, it must conform) and the witnesses of the two remaining counterexample theorems"""
    from pycardano.certificate import PoolRegistration
    from pycardano.hash import PoolKeyHash, RewardAccountHash, VerificationKeyHash, VrfKeyHash
    from pycardano.pool_params import PoolId, PoolParams, SingleHostName

    def base(**kw):
        return PoolParams(PoolKeyHash(bytes([1]) * 28), VrfKeyHash(bytes([2]) * 32), 100, 200, Fraction(1, 2),
                          RewardAccountHash(b"\xe1" + bytes([3]) * 28), [VerificationKeyHash(bytes([4]) * 28)], **kw)
    content = {"operator": bytes([1]) * 28, "vrf": bytes([2]) * 32, "pledge": 100, "cost": 200, "margin": [1, 2],
               "reward_account": b"\xe1" + bytes([3]) * 28, "owners": [bytes([4]) * 28], "relays": [], "metadata": None}
    for name, pp in (("relays omitted", base()), ("relays=None", base(relays=None))):
        b = PoolRegistration(pp).to_cbor()
        desc = {"ext": EXT, "kind": "witness", "witness": name, "hex": b.hex()}
        ref = R.enc(C.t_cert({"code": 3, "params": content}, C.WireChoices(sets={"pool_owners": False})))
        ctx.count(f"pool-witness:{name}:" + ("conforms" if b == ref else "differs from the reference"))
        if b != ref or not lifts("certificate", b):
            ctx.violation(f"PoolRegistration(PoolParams(...)) with {name}: bytes differ from the reference encoder (relays: [* relay])",
                          desc, ref.hex(), b.hex())
        if ctx.have_driver() and mcall(ctx, {"op": "pool.spec.is", "rule": "pool_registration", "hex": b.hex()}) is not True:
            ctx.diff("pool.spec.is(default relays)", desc, False, "the default constructor call conforms")
    wits = {"dns_name=None": base(relays=[SingleHostName(port=3001, dns_name=None)]),
            "id set": base(relays=[], id=PoolId("pool1qyqszqgpqyqszqgpqyqszqgpqyqszqgpqyqszqgpqyqszp9s8mq"))}
    for name, pp in wits.items():
        b = PoolRegistration(pp).to_cbor()
        lifted = lifts("certificate", b)
        is_reg = mcall(ctx, {"op": "pool.spec.is", "rule": "pool_registration", "hex": b.hex()}) if ctx.have_driver() else None
        ctx.extra.setdefault("pool_cddl_witnesses", []).append({"witness": name, "hex": b.hex(), "reference_lifter_accepts": lifted,
                                                                "lean_recogniser_accepts": is_reg})
        ctx.count(f"pool-witness:{name}:" + ("outside the CDDL (as the counterexample theorem says)" if not lifted else "now inside the CDDL"))
        if lifted or is_reg is True:
            # the theorem says these bytes are outside the grammar: a change of the code that repairs this must change the model
            ctx.diff("pool.witness.cddl", {"ext": EXT, "kind": "witness", "witness": name, "hex": b.hex()},
                     "outside the CDDL", "accepted by the reference lifter / recogniser")


KINDS = {"pool-reg": check_reg, "pool-relay": check_relay, "pool-ret": check_ret, "pool-body": check_body}


def run_ext(ctx):
    ctx.assumptions.append(
        "pool (C02_Pool): objects without spec content — a SingleHostName / MultiHostName with dns_name=None (written as null), a set "
        "PoolParams.id (a tenth item) — are outside the Conway CDDL (theorems registration_conforms_counterexample_dns, _id); they are "
        "counted, not judged")
    n = ctx.budget(200, 6000)
    for i in range(n):
        KINDS["pool-reg"](ctx, {"ext": EXT, "kind": "pool-reg", "seed": f"{ctx.seed}/pool2/reg{i}"})
    for i in range(2 * n):
        KINDS["pool-relay"](ctx, {"ext": EXT, "kind": "pool-relay", "seed": f"{ctx.seed}/pool2/relay{i}"})
    for i in range(n // 4):
        KINDS["pool-ret"](ctx, {"ext": EXT, "kind": "pool-ret", "seed": f"{ctx.seed}/pool2/ret{i}"})
    for i in range(n // 4):
        KINDS["pool-body"](ctx, {"ext": EXT, "kind": "pool-body", "seed": f"{ctx.seed}/pool2/body{i}"})
    witness_cases(ctx)


def replay_ext(ctx, case):
    if case.get("kind") == "witness":
        witness_cases(ctx)
        return
    KINDS[case["kind"]](ctx, {k: v for k, v in case.items() if k in ("ext", "kind", "seed")})
