"""C01 (extension) — native scripts: `NativeScript.from_primitive` / `to_primitive`, `to_dict` / `from_dict`, `hash`.

The model is lean/Pyc/Model/NativeScript.lean (driver ops `ns.*`), the theorems are in Props/C01_NativeScript.lean.
This module ties the model to /repo and, in the same pass, judges the property on the implementation with oracles that
do not involve the model:

  ns       scripts built through the public constructors (depth up to 5; 0, 1, 2, 23, 24, 25, 256 children now and then;
           boundary slots / n, a few outside the CDDL ranges): `to_cbor` vs the model's bytes; `from_cbor(to_cbor(x))` must
           be `== x`, of the same classes and fields (structural description), and re-serialize to the same bytes; the
           model's decode must describe the same script; `to_dict` vs an independent rendering of the cardano-cli JSON form,
           `from_dict(to_dict(x))`, `from_dict` of the reference JSON (through JSON text), key-order permutations
           (model vs implementation); `hash()` vs hashlib; the script inside a `TransactionOutput`, a
           `TransactionWitnessSet`, `AlonzoMetadata` and `ShelleyMarryMetadata` must survive the container's round trip.
  ns-mal   damaged primitives (wrong code, arity, kind, length, nesting): accept / DeserializeException / other exception
           of `NativeScript.from_cbor` vs the model, and on acceptance the decoded script and its re-encoding.
  ns-probe points outside the model (documented deviations: booleans as ints, floats, bytes after the item): the
           implementation's answer is recorded, not compared.
  ns-jmal  damaged JSON dictionaries: `from_dict` vs the model.
"""
from __future__ import annotations

import hashlib
import json
import random

from pycardano.exception import DeserializeException

from ref import cbor_ref as R

EXT = "nativescript"

SLOTS_IN = [0, 1, 23, 24, 255, 256, 65535, 65536, 2**32 - 1, 2**32, 2**63 - 1, 2**63, 2**64 - 1]
SLOTS_OUT = [2**64, 2**64 + 1, 3 * 2**70, -1, -24, -25, -(2**63), -(2**64), -(2**64) - 1]
NS_IN = [0, 1, 2, 3, 23, 24, 255, 256, 65536, 2**32, 2**63 - 1, -1, -24, -25, -(2**63)]
NS_OUT = [2**63, 2**64 - 1, 2**64, 5 * 2**80, -(2**63) - 1, -(2**64), -(2**64) - 1]
WIDTHS_BIG = [23, 24, 25, 256]


def classify(e):
    return "deser" if isinstance(e, DeserializeException) else "crash"


# ------------------------------------------------------------------------------------------------ descriptions
# a script description is the JSON the driver speaks: {"k":"pubkey","h":hex} | {"k":"all"|"any","s":[…]} |
# {"k":"nofk","n":"<int>","s":[…]} | {"k":"before"|"hereafter","t":"<int>"}
def gen_desc(rng, depth, stats=None, wide_ok=True, root=False):
    def hit(k):
        if stats is not None:
            stats[k] = stats.get(k, 0) + 1

    if depth <= 0 or rng.random() < (0.1 if root else 0.3):
        k = rng.choice(["pubkey", "pubkey", "before", "hereafter"])
        hit("kind:" + k)
        if k == "pubkey":
            r = rng.random()
            h = bytes(28) if r < 0.05 else b"\xff" * 28 if r < 0.1 else bytes(rng.getrandbits(8) for _ in range(28))
            return {"k": "pubkey", "h": h.hex()}
        out = rng.random() < 0.08
        t = rng.choice(SLOTS_OUT if out else SLOTS_IN) if rng.random() < 0.8 else rng.randint(0, 10**9)
        hit("slot:" + ("out-of-range" if not 0 <= t < 2**64 else "boundary" if t in SLOTS_IN else "random"))
        return {"k": k, "t": str(t)}
    k = rng.choice(["all", "any", "nofk"])
    hit("kind:" + k)
    if wide_ok and rng.random() < 0.04:
        w = rng.choice(WIDTHS_BIG)
        subs = [gen_desc(rng, 0, stats, False) for _ in range(w)]
    else:
        w = rng.choice([0, 1, 1, 2, 2, 3])
        subs = [gen_desc(rng, depth - 1, stats, wide_ok and depth >= 2) for _ in range(w)]
    hit("children:" + str(w))
    if k != "nofk":
        return {"k": k, "s": subs}
    r = rng.random()
    if r < 0.07:
        n = rng.choice(NS_OUT)
    elif r < 0.5:
        n = rng.choice(NS_IN)
    else:
        n = rng.choice([0, len(subs), max(len(subs) - 1, 0), len(subs) + 1])
    hit("n:" + ("out-of-range" if not -(2**63) <= n < 2**63 else "negative" if n < 0 else "nonneg"))
    return {"k": "nofk", "n": str(n), "s": subs}


def build(d):
    """the pycardano object, through the public constructors"""
    from pycardano import InvalidBefore, InvalidHereAfter, ScriptAll, ScriptAny, ScriptNofK, ScriptPubkey
    from pycardano.hash import VerificationKeyHash
    k = d["k"]
    if k == "pubkey":
        return ScriptPubkey(key_hash=VerificationKeyHash(bytes.fromhex(d["h"])))
    if k == "all":
        return ScriptAll(native_scripts=[build(x) for x in d["s"]])
    if k == "any":
        return ScriptAny(native_scripts=[build(x) for x in d["s"]])
    if k == "nofk":
        return ScriptNofK(n=int(d["n"]), native_scripts=[build(x) for x in d["s"]])
    if k == "before":
        return InvalidBefore(before=int(d["t"]))
    if k == "hereafter":
        return InvalidHereAfter(after=int(d["t"]))
    raise ValueError(k)


def describe(x):
    """structural description of a pycardano script object (exact classes, field by field; a bool is not an int)"""
    from pycardano import InvalidBefore, InvalidHereAfter, ScriptAll, ScriptAny, ScriptNofK, ScriptPubkey

    def num(v):
        return str(v) if type(v) is int else f"<{type(v).__name__}:{v!r}>"

    def subs(v):
        return [describe(y) for y in v] if isinstance(v, list) else f"<{type(v).__name__}>"

    t = type(x)
    if t is ScriptPubkey:
        return {"k": "pubkey", "h": bytes(x.key_hash.payload).hex() if hasattr(x.key_hash, "payload") else repr(x.key_hash)}
    if t is ScriptAll:
        return {"k": "all", "s": subs(x.native_scripts)}
    if t is ScriptAny:
        return {"k": "any", "s": subs(x.native_scripts)}
    if t is ScriptNofK:
        return {"k": "nofk", "n": num(x.n), "s": subs(x.native_scripts)}
    if t is InvalidBefore:
        return {"k": "before", "t": num(x.before)}
    if t is InvalidHereAfter:
        return {"k": "hereafter", "t": num(x.after)}
    return {"k": f"<{t.__name__}>"}


def cost_of(d):
    """estimate of the work `to_cbor` does: `CBORSerializable.validate` re-validates a nested script once per alternative of
    the `Union` hint that precedes its class, at every level (about 0.1 ms per unit; a chain nested 8 deep takes a minute)"""
    return 1 + 5 * sum(cost_of(x) for x in d.get("s", []))


def gen_case(rng, stats=None):
    """depth (of inner nodes) 0-4, i.e. scripts nested up to 5 deep; the rare expensive ones are regenerated shallower"""
    depth = rng.choice([0, 1, 1, 2, 2, 2, 3, 3, 3, 4])
    while True:
        st = {}
        d = gen_desc(rng, depth, st, True, True)
        if cost_of(d) <= 6000 or depth == 0:
            break
        depth -= 1
    if stats is not None:
        stats.update(st)
    return d


def depth_of(d):
    return 1 + max([depth_of(x) for x in d.get("s", [])], default=0)


def size_of(d):
    return 1 + sum(size_of(x) for x in d.get("s", []))


def in_range(d):
    k = d["k"]
    if k == "pubkey":
        return len(d["h"]) == 56
    if k in ("before", "hereafter"):
        return 0 <= int(d["t"]) < 2**64
    ok = all(in_range(x) for x in d["s"])
    return ok and (k != "nofk" or -(2**63) <= int(d["n"]) < 2**63)


# the cardano-cli "simple script" JSON form, rendered independently of pycardano (key order as cardano-cli writes it)
TAGS = {"pubkey": "sig", "all": "all", "any": "any", "nofk": "atLeast", "before": "after", "hereafter": "before"}


def ref_dict(d):
    k = d["k"]
    if k == "pubkey":
        return {"type": "sig", "keyHash": d["h"]}
    if k in ("all", "any"):
        return {"type": k, "scripts": [ref_dict(x) for x in d["s"]]}
    if k == "nofk":
        return {"type": "atLeast", "required": int(d["n"]), "scripts": [ref_dict(x) for x in d["s"]]}
    return {"type": TAGS[k], "slot": int(d["t"])}


def ref_prim(d):
    """independent reference of the CDDL rule native_script (cbor_ref data model; ints as they are)"""
    k = d["k"]
    if k == "pubkey":
        return [0, bytes.fromhex(d["h"])]
    if k == "all":
        return [1, [ref_prim(x) for x in d["s"]]]
    if k == "any":
        return [2, [ref_prim(x) for x in d["s"]]]
    if k == "nofk":
        return [3, int(d["n"]), [ref_prim(x) for x in d["s"]]]
    return [4 if k == "before" else 5, int(d["t"])]


# ------------------------------------------------------------------------------------------------ NJ (driver JSON trees)
def to_nj(v):
    if v is None:
        return {"z": True}
    if isinstance(v, bool):
        return {"b": v}
    if isinstance(v, int):
        return {"n": str(v)}
    if isinstance(v, str):
        return {"s": v.encode("utf-8").hex()}
    if isinstance(v, list):
        return {"a": [to_nj(x) for x in v]}
    if isinstance(v, dict):
        return {"o": [[k, to_nj(x)] for k, x in v.items()]}
    raise TypeError(type(v))


def from_nj(j):
    if "z" in j:
        return None
    if "b" in j:
        return j["b"]
    if "n" in j:
        return int(j["n"])
    if "s" in j:
        return bytes.fromhex(j["s"]).decode("utf-8")
    if "a" in j:
        return [from_nj(x) for x in j["a"]]
    return {k: from_nj(v) for k, v in j["o"]}


def ordered(v):
    """a JSON value with the key ORDER made visible (dict -> list of pairs)"""
    if isinstance(v, dict):
        return [[k, ordered(x)] for k, x in v.items()]
    if isinstance(v, list):
        return [ordered(x) for x in v]
    return v


def model_res(m):
    return m["err"] if "err" in m else "ok"


# ------------------------------------------------------------------------------------------------ the main family
def containers(x, rng):
    """(name, object, getter of the scripts it holds after a round trip)"""
    from pycardano import (Address, AlonzoMetadata, AuxiliaryData, Metadata, ShelleyMarryMetadata, TransactionOutput,
                           TransactionWitnessSet, Value)
    addr = Address.from_primitive(bytes([0x61]) + bytes(range(28)))
    other = build({"k": "before", "t": str(rng.randint(1, 10**6))})
    return [
        ("output", TransactionOutput(addr, Value(2_000_000), script=x), lambda o: [o.script]),
        ("witness_set", TransactionWitnessSet(native_scripts=[other, x]), lambda w: list(w.native_scripts)[-1:]),
        ("alonzo_aux", AuxiliaryData(AlonzoMetadata(metadata=Metadata({1: "m"}), native_scripts=[x, other])),
         lambda a: a.data.native_scripts[:1]),
        ("shelley_ma_aux", AuxiliaryData(ShelleyMarryMetadata(Metadata({2: 7}), [other, x])),
         lambda a: a.data.native_scripts[-1:]),
    ]


def embedded_scripts(name, b):
    """the native-script items inside the container bytes (cbor_ref trees), in wire order"""
    t = R.dec(b)
    if name == "output":
        ref = dict(t.pairs)[3]
        inner = R.dec(ref.value)
        return [inner[1]] if inner[0] == 0 else []
    if name == "witness_set":
        v = dict(t.pairs)[1]
        return list(v.value if isinstance(v, R.Tag) else v)
    if name == "alonzo_aux":
        return list(dict(t.value.pairs)[1])
    if name == "shelley_ma_aux":
        return list(t[1])
    raise ValueError(name)


def check_script(ctx, case):
    from pycardano import NativeScript
    rng = random.Random(case["seed"])
    stats = {}
    d = gen_case(rng, stats)
    cost = cost_of(d)
    desc = {**case, "script": d if size_of(d) <= 40 else "(large: regenerate from the seed)"}
    x = build(d)
    try:
        b = x.to_cbor()
    except Exception as e:
        ctx.violation(f"NativeScript: a script built through the constructors cannot be serialized ({type(e).__name__})",
                      desc, "bytes", type(e).__name__)
        return
    desc["hex"] = b.hex() if len(b) <= 400 else b[:400].hex() + "…"
    for k, n in stats.items():
        ctx.count("ns:" + k, n)
    ctx.count(f"ns:depth:{depth_of(d)}")
    inr = in_range(d)
    ctx.count("ns:" + ("in-cddl-range" if inr else "outside-cddl-range"))
    # ---- the property on the implementation: decode(encode(x)) == x, same classes, same bytes again
    try:
        y = NativeScript.from_cbor(b)
        err = None
    except Exception as e:
        y, err = None, e
    if err is not None:
        ctx.violation(f"NativeScript: the encoded script cannot be decoded ({type(err).__name__}: {str(err)[:100]})", desc,
                      "a script", classify(err))
    else:
        dy = describe(y)
        if dy != d:
            ctx.violation("NativeScript: decode(encode(x)) is a different script (class or field)", desc, d if size_of(d) <= 40 else "x",
                          dy if size_of(d) <= 40 else "differs")
        elif not (y == x) or not (x == y):
            ctx.violation("NativeScript: decode(encode(x)) != x", desc, True, False)
        try:
            b2 = y.to_cbor()
        except Exception:
            b2 = None
        if b2 != b:
            ctx.violation("NativeScript: re-encoding the decoded script gives different bytes", desc, b.hex()[:200],
                          b2.hex()[:200] if b2 else None)
    # ---- hash: blake2b-224 over 0x00 || cbor (hashlib)
    expect_h = hashlib.blake2b(b"\x00" + b, digest_size=28).digest()
    if cost <= 1500:
        try:
            from pycardano.plutus import script_hash
            h1 = bytes(x.hash().payload)
            h2 = bytes(script_hash(x).payload) if cost <= 400 else h1
        except Exception as e:
            h1 = h2 = type(e).__name__.encode()
        if h1 != expect_h or h2 != expect_h:
            ctx.violation("NativeScript.hash / script_hash is not blake2b-224(0x00 || to_cbor())", desc, expect_h.hex(),
                          [h1.hex(), h2.hex()])
    # ---- the JSON route
    rd = ref_dict(d)
    try:
        td = x.to_dict()
        terr = None
    except Exception as e:
        td, terr = None, e
    if terr is not None:
        ctx.violation(f"NativeScript.to_dict raises {type(terr).__name__}", desc, "a dict", type(terr).__name__)
    else:
        if td != rd:
            ctx.violation("NativeScript.to_dict is not the cardano-cli JSON form of the script", desc,
                          rd if size_of(d) <= 40 else "reference", td if size_of(d) <= 40 else "differs")
        for name, src in (("to_dict(x)", td), ("json text of to_dict(x)", json.loads(json.dumps(td))), ("reference JSON", rd)):
            try:
                z = NativeScript.from_dict(src)
                zerr = None
            except Exception as e:
                z, zerr = None, e
            if zerr is not None:
                ctx.violation(f"NativeScript.from_dict({name}) raises {type(zerr).__name__}: {str(zerr)[:100]}", desc, "a script",
                              classify(zerr))
            elif describe(z) != d or not (z == x):
                ctx.violation(f"NativeScript.from_dict({name}) is a different script", desc, d if size_of(d) <= 40 else "x",
                              describe(z) if size_of(d) <= 40 else "differs")
    # ---- embedded in transactions: the container's round trip returns the script, and re-serializes to the same bytes
    if cost <= 400:
        cs = containers(x, rng)
        for name, obj, get in [cs[rng.randrange(len(cs))]]:
            try:
                cb = obj.to_cbor()
                back = type(obj).from_cbor(cb)
                got = get(back)
                cb2 = back.to_cbor()
            except Exception as e:
                ctx.violation(f"NativeScript inside {name}: round trip raises {type(e).__name__}: {str(e)[:100]}", desc, "ok",
                              type(e).__name__)
                continue
            ctx.count("ns:embedded:" + name)
            if len(got) != 1 or describe(got[0]) != d or not (got[0] == x):
                ctx.violation(f"NativeScript inside {name}: the decoded container holds a different script", desc,
                              d if size_of(d) <= 40 else "x", [describe(g) for g in got] if size_of(d) <= 40 else "differs")
            if cb2 != cb:
                ctx.violation(f"NativeScript inside {name}: re-encoding the decoded container gives different bytes", desc,
                              cb.hex()[:200], cb2.hex()[:200])
            try:
                items = embedded_scripts(name, cb)
            except Exception as e:
                items = None
            if items is None or b not in [R.enc(i) for i in items]:
                ctx.violation(f"NativeScript inside {name}: the embedded bytes are not the stand-alone bytes of the script", desc,
                              b.hex()[:200], None if items is None else [R.enc(i).hex()[:200] for i in items])
    # ---- correspondence with the model
    if ctx.have_driver():
        dr = ctx.driver()
        m = dr.ok({"op": "ns.enc", "s": d})
        ctx.traces += 1
        if m["hex"] != b.hex():
            ctx.diff("ns.enc", desc, m["hex"][:400], b.hex()[:400])
        if m["preimage"] != (b"\x00" + b).hex():
            ctx.diff("ns.preimage", desc, m["preimage"][:400], (b"\x00" + b).hex()[:400])
        if not m["wf"]:
            ctx.diff("ns.wf", desc, False, "built by the constructors")
        if int(m["depth"]) != depth_of(d):
            ctx.diff("ns.depth", desc, m["depth"], depth_of(d))
        if m["inrange"] != inr:
            ctx.diff("ns.inrange", desc, m["inrange"], inr)
        # theorems ns_roundtrip / ns_json_roundtrip evaluated at the least fuel
        for f in ("rt", "rtjson"):
            if "err" in m[f] or m[f]["script"] != d or m[f]["reenc"] != m["hex"]:
                ctx.diff("ns.theorem." + f, desc, m[f] if size_of(d) <= 40 else model_res(m[f]), "the script")
        if td is not None and ordered(from_nj(m["dict"])) != ordered(td):
            ctx.diff("ns.todict", desc, ordered(from_nj(m["dict"])) if size_of(d) <= 40 else "model", ordered(td) if size_of(d) <= 40 else "impl")
        k, md = dr.call({"op": "ns.dec", "hex": b.hex()})
        ctx.traces += 1
        if k != "ok":
            ctx.diff("ns.dec", desc, md, "ok")
        elif "err" in md:
            if err is None:
                ctx.diff("ns.dec", desc, md, "decoded")
        elif err is not None:
            ctx.diff("ns.dec", desc, "decoded", classify(err))
        else:
            if md["script"] != describe(y):
                ctx.diff("ns.dec.script", desc, md["script"] if size_of(d) <= 40 else "model", describe(y) if size_of(d) <= 40 else "impl")
            if md["reenc"] != (b2.hex() if b2 else None):
                ctx.diff("ns.dec.reenc", desc, md["reenc"][:400], b2.hex()[:400] if b2 else None)
        # key order of the JSON form: `from_dict` walks the dict in its order (model vs implementation)
        if td is not None and size_of(d) <= 60:
            pd = permute_keys(rd, random.Random(case["seed"] + "/perm"))
            impl = run_from_dict(pd)
            k, mj = dr.call({"op": "ns.fromdict", "d": to_nj(pd)})
            ctx.traces += 1
            mod = "fail" if k != "ok" else model_res(mj)
            ctx.count(f"ns:json-key-order:{'same' if ordered(pd) == ordered(rd) else 'permuted'}:{impl[0]}")
            if mod != impl[0]:
                ctx.diff("ns.fromdict(permuted keys)", {**desc, "dict": ordered(pd)}, mod, impl[0])
            elif impl[0] == "ok" and mj["script"] != describe(impl[1]):
                ctx.diff("ns.fromdict(permuted keys).script", {**desc, "dict": ordered(pd)}, mj["script"], describe(impl[1]))
    ctx.case({k: v for k, v in case.items()})


def permute_keys(v, rng):
    if isinstance(v, dict):
        ks = list(v.keys())
        if rng.random() < 0.6:
            rng.shuffle(ks)
        return {k: permute_keys(v[k], rng) for k in ks}
    if isinstance(v, list):
        return [permute_keys(x, rng) for x in v]
    return v


def run_from_dict(j):
    from pycardano import NativeScript
    try:
        return ("ok", NativeScript.from_dict(j))
    except DeserializeException:
        return ("deser", None)
    except Exception:
        return ("crash", None)


# ------------------------------------------------------------------------------------------------ malformed primitives
KH = bytes(range(28))
PK = [0, KH]


def damage(kind):
    """a primitive (cbor_ref data model) near the image of the script encoder"""
    T = {
        "good-pubkey": PK,
        "good-nested": [1, [[3, 1, [PK, [4, 5]]], [2, []], [5, 2**64 - 1]]],
        "top-empty": [], "top-int": 5, "top-bytes": b"\x00", "top-text": "sig", "top-null": None, "top-map": R.Map([(0, KH)]),
        "top-indef": R.IndefList([0, KH]), "top-tag": R.Tag(24, PK),
        "code-6": [6, 1], "code-neg": [-1, KH], "code-bytes": [b"\x00", KH], "code-text": ["0", KH], "code-null": [None, KH],
        "code-list": [[0], KH], "code-big": [2**64, KH], "code-bignum-1": [R.Tag(2, b"\x01"), [PK]],
        "pub-short": [0], "pub-27": [0, KH[:27]], "pub-29": [0, KH + b"x"], "pub-empty": [0, b""], "pub-hextext": [0, KH.hex()],
        "pub-hextext-upper": [0, KH.hex().upper()], "pub-hextext-27": [0, KH[:27].hex()], "pub-badhex": [0, "zz"],
        "pub-oddhex": [0, "abc"], "pub-int": [0, 5], "pub-list": [0, [1]], "pub-null": [0, None], "pub-extra": [0, KH, 7],
        "pub-chunked": [0, R.Chunked([KH[:14], KH[14:]])], "pub-chunked-27": [0, R.Chunked([KH[:14], KH[14:27]])],
        "pub-tag": [0, R.Tag(24, KH)],
        "all-short": [1], "all-int": [1, 5], "all-null": [1, None], "all-bytes-empty": [1, b""], "all-bytes": [1, b"ab"],
        "all-text-empty": [1, ""], "all-text": [1, "ab"], "all-map-empty": [1, R.Map([])], "all-map-int": [1, R.Map([(1, 2)])],
        "all-map-scriptkey": [1, R.Map([(PK, 2)])], "all-indef": [1, R.IndefList([PK])], "all-indef-empty": [1, R.IndefList([])],
        "all-extra": [1, [], 9], "all-tag24": [1, R.Tag(24, b"")], "all-tag258": [1, R.Tag(258, [PK])],
        "all-chunked-empty": [1, R.Chunked([])], "all-chunked": [1, R.Chunked([b"a"])],
        "all-child-deser-then-crash": [1, [[6], []]], "all-child-crash-then-deser": [1, [[], [6]]],
        "all-child-indef-script": [1, [R.IndefList([0, KH])]], "all-child-int": [2, [7]], "all-child-27": [2, [PK, [0, KH[:27]]]],
        "any-good": [2, [PK]], "any-nested-bad-deep": [2, [[1, [[3, 1, [[9]]]]]]], "any-nested-crash-deep": [2, [[1, [[3, 1, [[4]]]]]]],
        "nofk-short": [3], "nofk-short2": [3, 1], "nofk-nonint": [3, b"x", []], "nofk-nonint-short": [3, b"x"],
        "nofk-text-n": [3, "1", []], "nofk-null-n": [3, None, []], "nofk-neg": [3, -1, []], "nofk-big": [3, 2**64, []],
        "nofk-bigneg": [3, -(2**64) - 1, []], "nofk-swapped": [3, [], 1], "nofk-list-int": [3, 1, 5], "nofk-extra": [3, 1, [], 4],
        "nofk-bignum-small": [3, R.Tag(2, b"\x05"), [PK]], "nofk-negbignum": [3, R.Tag(3, b"\x00"), []],
        "before-short": [4], "before-neg": [4, -1], "before-big": [4, 2**64], "before-bytes": [4, b""], "before-text": [4, "5"],
        "before-null": [4, None], "before-list": [4, []], "before-extra": [4, 0, 7], "before-bignum": [4, R.Tag(2, b"\x01\x00")],
        "after-good": [5, 0], "after-list": [5, [1]], "after-short": [5], "after-map": [5, R.Map([])],
    }
    return T[kind]


DAMAGE = ["good-pubkey", "good-nested", "top-empty", "top-int", "top-bytes", "top-text", "top-null", "top-map", "top-indef", "top-tag",
          "code-6", "code-neg", "code-bytes", "code-text", "code-null", "code-list", "code-big", "code-bignum-1", "pub-short", "pub-27", "pub-29", "pub-empty", "pub-hextext", "pub-hextext-upper", "pub-hextext-27",
          "pub-badhex", "pub-oddhex", "pub-int", "pub-list", "pub-null", "pub-extra", "pub-chunked", "pub-chunked-27", "pub-tag",
          "all-short", "all-int", "all-null", "all-bytes-empty", "all-bytes", "all-text-empty", "all-text", "all-map-empty",
          "all-map-int", "all-map-scriptkey", "all-indef", "all-indef-empty", "all-extra", "all-tag24", "all-tag258",
          "all-chunked-empty", "all-chunked", "all-child-deser-then-crash", "all-child-crash-then-deser", "all-child-indef-script",
          "all-child-int", "all-child-27", "any-good", "any-nested-bad-deep", "any-nested-crash-deep", "nofk-short", "nofk-short2",
          "nofk-nonint", "nofk-nonint-short", "nofk-text-n", "nofk-null-n", "nofk-neg", "nofk-big", "nofk-bigneg", "nofk-swapped",
          "nofk-list-int", "nofk-extra", "nofk-bignum-small", "nofk-negbignum", "before-short", "before-neg", "before-big",
          "before-bytes", "before-text", "before-null", "before-list", "before-extra", "before-bignum", "after-good", "after-list",
          "after-short", "after-map"]


def mutate_prim(rng, p):
    """random structural damage of a well-formed primitive: one position is replaced / dropped / duplicated"""
    junk = [0, 1, 5, 6, -1, 2**64, b"", KH, KH[:27], "", "00", None, [], [[]], [6, 0], R.Map([]), R.IndefList([]), R.Tag(24, b"\x00"),
            R.IndefList([PK]), PK, [4, 1]]
    if isinstance(p, list) and p and rng.random() < 0.75:
        i = rng.randrange(len(p))
        q = list(p)
        r = rng.random()
        if r < 0.5:
            q[i] = mutate_prim(rng, p[i])
        elif r < 0.65:
            del q[i]
        elif r < 0.8:
            q.insert(i, rng.choice(junk))
        elif r < 0.9 and isinstance(p, list) and not isinstance(p, R.IndefList):
            return R.IndefList(q)
        else:
            q[i] = rng.choice(junk)
        return R.IndefList(q) if isinstance(p, R.IndefList) else q
    return rng.choice(junk)


def check_malformed(ctx, case):
    from pycardano import NativeScript
    if "damage" in case:
        prim = damage(case["damage"])
        label = case["damage"]
    else:
        rng = random.Random(case["seed"])
        good = ref_prim(gen_desc(rng, rng.choice([1, 2, 3]), None, False))
        prim = mutate_prim(rng, good)
        if rng.random() < 0.3:
            prim = mutate_prim(rng, prim)
        label = "random"
    mb = R.enc(prim)
    desc = {**case, "hex": mb.hex()[:600]}
    try:
        y = NativeScript.from_cbor(mb)
        impl = "ok"
    except DeserializeException:
        y, impl = None, "deser"
    except Exception:
        y, impl = None, "crash"
    ctx.count(f"ns-mal:{label}:{impl}")
    if ctx.have_driver():
        k, m = ctx.driver().call({"op": "ns.dec", "hex": mb.hex()})
        ctx.traces += 1
        mod = "fail" if k != "ok" else model_res(m)
        if mod != impl:
            ctx.diff("ns.dec(malformed)", desc, mod, impl)
        elif impl == "ok":
            if m["script"] != describe(y):
                ctx.diff("ns.dec(malformed).script", desc, m["script"], describe(y))
            try:
                rb = y.to_cbor().hex()
            except Exception:
                rb = "unserializable"
            if m["reenc"] != rb:
                ctx.diff("ns.dec(malformed).reenc", desc, m["reenc"][:400], rb[:400])
            if label != "random" and rb != mb.hex():
                ctx.count(f"ns-mal:{label}:accepted-but-rewritten")
    ctx.case({k: v for k, v in case.items()}, nontrivial=False)


# points outside the model (documented deviations): the implementation's answer is recorded, never compared
PROBES = {
    "bool-code-false": "82f4581c" + KH.hex(),                      # False == 0 (modelled; compared below as well)
    "bool-code-true": "82f580",
    "bool-n": "8303f580",                                         # ScriptNofK(n=True): the model answers deser
    "bool-slot": "8204f4",
    "float-code": "82f93c0080",                                   # 1.0 == 1
    "float-slot": "8204f93c00",
    "trailing-bytes": "820400ff",                                 # cbor2.loads ignores what follows the item
    "dup-map-keys": "8201a2" + "8200581c" + KH.hex() + "00" + "8200581c" + KH.hex() + "01",
    "empty-bignum-code": "82c240581c" + KH.hex(),                 # cbor2 itself fails on a bignum without digits
    "self-described-code": "82d9d9f700581c" + KH.hex(),           # cbor2 strips tag 55799: the code is 0
}
PROBE_MODELLED = {"bool-code-false", "bool-code-true"}


def check_probe(ctx, case):
    from pycardano import NativeScript
    mb = bytes.fromhex(PROBES[case["probe"]])
    try:
        y = NativeScript.from_cbor(mb)
        impl = "ok:" + json.dumps(describe(y), sort_keys=True)[:80] + ":" + y.to_cbor().hex()[:40]
    except DeserializeException:
        impl = "deser"
    except Exception as e:
        impl = "crash"
    ctx.count(f"ns-probe:{case['probe']}:{impl}")
    if case["probe"] in PROBE_MODELLED and ctx.have_driver():
        k, m = ctx.driver().call({"op": "ns.dec", "hex": mb.hex()})
        ctx.traces += 1
        mod = "fail" if k != "ok" else model_res(m)
        if mod != impl.split(":")[0]:
            ctx.diff("ns.dec(probe)", {**case, "hex": mb.hex()}, mod, impl)
    ctx.case({k: v for k, v in case.items()}, nontrivial=False)


# ------------------------------------------------------------------------------------------------ malformed JSON
def jdamage(kind):
    sig = {"type": "sig", "keyHash": KH.hex()}
    T = {
        "good-sig": sig, "good-atleast": {"type": "atLeast", "required": 1, "scripts": [sig, {"type": "after", "slot": 5}]},
        "no-type": {"keyHash": KH.hex()}, "unknown-type": {"type": "sigg", "keyHash": KH.hex()}, "type-int": {"type": 0, "keyHash": KH.hex()},
        "type-null": {"type": None}, "type-list": {"type": ["sig"]}, "top-list": [sig], "top-str": "sig", "top-int": 3, "top-null": None,
        "sig-no-hash": {"type": "sig"}, "sig-int-hash": {"type": "sig", "keyHash": 5}, "sig-badhex": {"type": "sig", "keyHash": "zz"},
        "sig-27": {"type": "sig", "keyHash": KH[:27].hex()}, "sig-upper": {"type": "sig", "keyHash": KH.hex().upper()},
        "sig-extra": {"type": "sig", "keyHash": KH.hex(), "note": "x"}, "sig-extra-first": {"note": "x", "type": "sig", "keyHash": KH.hex()},
        "sig-type-last": {"keyHash": KH.hex(), "type": "sig"}, "sig-hash-null": {"type": "sig", "keyHash": None},
        "sig-hash-list": {"type": "sig", "keyHash": [KH.hex()]}, "sig-hash-bool": {"type": "sig", "keyHash": True},
        "all-no-scripts": {"type": "all"}, "all-scripts-int": {"type": "all", "scripts": 5}, "all-scripts-null": {"type": "all", "scripts": None},
        "all-scripts-str": {"type": "all", "scripts": "ab"}, "all-scripts-str-empty": {"type": "all", "scripts": ""},
        "all-scripts-dict": {"type": "all", "scripts": {"a": 1}}, "all-scripts-dict-empty": {"type": "all", "scripts": {}},
        "all-scripts-bool": {"type": "any", "scripts": False},
        "all-child-str": {"type": "all", "scripts": ["sig"]}, "all-child-int": {"type": "all", "scripts": [1]},
        "all-child-notype": {"type": "all", "scripts": [{"keyHash": KH.hex()}]}, "all-child-list": {"type": "all", "scripts": [[sig]]},
        "all-other-key-list": {"type": "all", "items": [[0, KH.hex()]]}, "all-other-key-dicts": {"type": "all", "items": [sig]},
        "all-child-bad-then-unknown": {"type": "all", "scripts": [{"type": "sig", "keyHash": 5}, {"type": "bogus"}]},
        "atleast-swapped": {"type": "atLeast", "scripts": [sig], "required": 1}, "atleast-no-required": {"type": "atLeast", "scripts": [sig]},
        "atleast-str-required": {"type": "atLeast", "required": "1", "scripts": [sig]}, "atleast-neg": {"type": "atLeast", "required": -1, "scripts": []},
        "atleast-big": {"type": "atLeast", "required": 2**70, "scripts": []}, "atleast-null": {"type": "atLeast", "required": None, "scripts": []},
        "after-str": {"type": "after", "slot": "5"}, "after-neg": {"type": "after", "slot": -5}, "after-big": {"type": "before", "slot": 2**64},
        "after-none": {"type": "after"}, "after-list": {"type": "after", "slot": [5]}, "after-dict": {"type": "after", "slot": {"a": 1}},
        "after-extra": {"type": "after", "slot": 1, "x": 2}, "after-slot-bool": {"type": "after", "slot": True},
    }
    return T[kind]


JDAMAGE = ["good-sig", "good-atleast", "no-type", "unknown-type", "type-int", "type-null", "type-list", "top-list", "top-str", "top-int",
           "top-null", "sig-no-hash", "sig-int-hash", "sig-badhex", "sig-27", "sig-upper", "sig-extra", "sig-extra-first", "sig-type-last",
           "sig-hash-null", "sig-hash-list", "sig-hash-bool", "all-scripts-bool", "all-no-scripts", "all-scripts-int", "all-scripts-null", "all-scripts-str",
           "all-scripts-str-empty", "all-scripts-dict", "all-scripts-dict-empty", "all-child-str", "all-child-int", "all-child-notype",
           "all-child-list", "all-other-key-list", "all-other-key-dicts", "all-child-bad-then-unknown", "atleast-swapped",
           "atleast-no-required", "atleast-str-required", "atleast-neg", "atleast-big", "atleast-null", "after-str", "after-neg",
           "after-big", "after-none", "after-list", "after-dict", "after-extra"]
# booleans in a JSON dictionary are outside the model (a bool is an int for the implementation): probed, not compared
JPROBES = ["after-slot-bool"]


def check_json_malformed(ctx, case):
    j = jdamage(case["jdamage"])
    impl = run_from_dict(j)
    ctx.count(f"ns-jmal:{case['jdamage']}:{impl[0]}")
    if case["jdamage"] not in JPROBES and ctx.have_driver():
        k, m = ctx.driver().call({"op": "ns.fromdict", "d": to_nj(j)})
        ctx.traces += 1
        mod = "fail" if k != "ok" else model_res(m)
        desc = {**case, "dict": ordered(j)}
        if mod != impl[0]:
            ctx.diff("ns.fromdict(malformed)", desc, mod, impl[0])
        elif impl[0] == "ok":
            if m["script"] != describe(impl[1]):
                ctx.diff("ns.fromdict(malformed).script", desc, m["script"], describe(impl[1]))
            if m["reenc"] != impl[1].to_cbor().hex():
                ctx.diff("ns.fromdict(malformed).reenc", desc, m["reenc"], impl[1].to_cbor().hex())
    ctx.case({k: v for k, v in case.items()}, nontrivial=False)


# ------------------------------------------------------------------------------------------------ entry points
def dispatch(ctx, case):
    k = case["kind"]
    if k == "ns":
        check_script(ctx, case)
    elif k == "ns-mal":
        check_malformed(ctx, case)
    elif k == "ns-probe":
        check_probe(ctx, case)
    elif k == "ns-jmal":
        check_json_malformed(ctx, case)
    else:
        raise ValueError(k)


def run_ext(ctx):
    ctx.assumptions.append(
        "native scripts (extension): model Model/NativeScript.lean; hypotheses of the theorems: key hashes of 28 bytes (asserted by "
        "VerificationKeyHash), CBOR-representable primitives for the byte-level statements; outside the model (probed, recorded as "
        "ns-probe:*): booleans in int fields, floats, bytes after the first item, duplicate map keys")
    ctx.extra.setdefault("trusted", []).append(
        "Lean model of NativeScript.from_primitive / to_dict / from_dict (lean/Pyc/Model/NativeScript.lean)")
    n = ctx.budget(300, 3000)
    for i in range(n):
        dispatch(ctx, {"ext": EXT, "kind": "ns", "seed": f"{ctx.seed}/ns{i}"})
    for kind in DAMAGE:
        dispatch(ctx, {"ext": EXT, "kind": "ns-mal", "seed": f"{ctx.seed}/nsm", "damage": kind})
    for i in range(ctx.budget(400, 8000)):
        dispatch(ctx, {"ext": EXT, "kind": "ns-mal", "seed": f"{ctx.seed}/nsr{i}"})
    for p in PROBES:
        dispatch(ctx, {"ext": EXT, "kind": "ns-probe", "seed": f"{ctx.seed}/nsp", "probe": p})
    for kind in JDAMAGE + JPROBES:
        dispatch(ctx, {"ext": EXT, "kind": "ns-jmal", "seed": f"{ctx.seed}/nsj", "jdamage": kind})


def replay_ext(ctx, case):
    c = {k: v for k, v in case.items() if k in ("ext", "kind", "seed", "damage", "probe", "jdamage")}
    dispatch(ctx, c)
