"""C13 — collateral is adequate, key-locked and balanced.

Scenarios (vlib/scenario.py grammar) that run a Plutus script (spending with the script in the witness set, spending
through a reference script only, minting) over wallets built around the collateral amount
`ceil(max_tx_fee * collateral_percent / 100)`; each scenario is executed by the real `TransactionBuilder`.

(a) direct evaluation of the property on the *body bytes* (decoded by ref/ledger_ref.py, nothing of pycardano) against
    the scenario's own UTxO map, in integer arithmetic:
      * at least one and at most `max_collateral_inputs` distinct collateral inputs, each a known UTxO,
      * every automatically chosen one at a key-locked address (from the scenario's address spec) holding > 2 ADA,
      * forfeitable := sum(distinct collateral inputs) - collateral return;  == total_collateral when declared;
        forfeitable * 100 >= fee * collateral_percent,
      * the return carries exactly the native assets of the distinct collateral inputs (no return => they carry none)
        and at least ledger_ref.min_utxo of itself.
    Applies whenever the scenario runs a Plutus script and a (collateral) change address was given.
(b) correspondence: every call of `TransactionBuilder._set_collateral_return` made during the run (the scenario's
    builder and the deep copy used for execution-unit estimation) is recorded at entry and exit by a wrapper installed
    by this module (instrumentation only, /repo untouched) and replayed on the Lean model (driver op `collateral`):
    `builder.collaterals` (in order, with multiplicity), `_collateral_return`, `_total_collateral`, or the error enum.
"""
from __future__ import annotations

import copy
import math
from fractions import Fraction

import cbor2

import logging as _logging

import pycardano.logging as _pyc_logging
from pycardano import TransactionBuilder
from pycardano.serialization import default_encoder
from pycardano.transaction import _Script

from ref import ledger_ref as L
from vlib import scenario as S
from vlib import values as V

# Repaired in /repo (regressions are plain violations; their witnesses stay in corpus()):
#   KF-C13-dup-candidate f40c521, KF-C13-max-inputs 81c8cba, KF-C13-floor 3308efc
KF_FEEBUF = "KF-C13-fee-buffer"   # collateral sized from max_tx_fee, fee inflated beyond it by fee_buffer

# the builder's @log_state decorator pretty-prints the whole builder after every build (and to stderr on every explicit
# failure): observably irrelevant, and a third of the run time under the pure-Python CBOR backend
_pyc_logging.pformat = lambda *a, **k: ""
_pyc_logging.logger.setLevel(_logging.ERROR)

ADA = 1_000_000
SPEND = "p2:spend"
MINT = "p3:mint"
POLICY_A = V.POLICIES[0].hex()
POLICY_B = V.POLICIES[1].hex()
FLOOR_SIZE = 392                 # size of the fake-witness transaction of corpus()[3]


# ---- instrumentation: record entry / exit of _set_collateral_return ------------------------------------------------
RECORDS = []


def dump_output(o):
    return {
        "addr": bytes(o.address.to_primitive()).hex(),
        "amount": V.dump_value(o.amount),
        "datum_hash": None if o.datum_hash is None else bytes(o.datum_hash.payload).hex(),
        "datum": None if o.datum is None else [cbor2.dumps(o.datum, default=default_encoder).hex(), bool(o.datum)],
        "script": None if o.script is None else cbor2.dumps(_Script(o.script), default=default_encoder).hex(),
        "post_alonzo": bool(o.post_alonzo),
    }


def dump_utxo(u):
    return {"txid": bytes(u.input.transaction_id.payload).hex(), "ix": str(u.input.index), "out": dump_output(u.output)}


def ref_of(u):
    return [bytes(u.input.transaction_id.payload).hex(), str(u.input.index)]


def _install():
    if getattr(TransactionBuilder._set_collateral_return, "_c13_wrapped", False):
        return
    orig = TransactionBuilder._set_collateral_return

    def wrapped(self, collateral_return_address):
        w = self._build_fake_witness_set()
        rec = {"builder": self, "entry": {
            "inputs": [dump_utxo(u) for u in self.inputs],
            "potential": [dump_utxo(u) for u in self.potential_inputs],
            "addr_utxos": ([dump_utxo(u) for u in self.context.utxos(collateral_return_address)]
                           if collateral_return_address is not None else []),
            "explicit": [dump_utxo(u) for u in self.collaterals],
            "has_scripts": bool(w.plutus_v1_script or w.plutus_v2_script or w.plutus_v3_script
                                or self._reference_scripts),
            "ret_addr": (None if collateral_return_address is None
                         else bytes(collateral_return_address.to_primitive()).hex()),
            "threshold": str(self.collateral_return_threshold),
            "ref_size": str(self._ref_script_size()),
            "fee_buffer": int(self.fee_buffer or 0),
            "prev_ret": self._collateral_return is not None, "prev_total": self._total_collateral is not None,
        }}
        RECORDS.append(rec)
        try:
            orig(self, collateral_return_address)
        except Exception as e:
            rec["error"] = S.classify(e)
            raise
        rec["exit"] = {
            "collaterals": [ref_of(u) for u in self.collaterals],
            "ret": (None if self._collateral_return is None else
                    {"addr": bytes(self._collateral_return.address.to_primitive()).hex(),
                     "amount": V.dump_value(self._collateral_return.amount)}),
            "total": None if self._total_collateral is None else str(self._total_collateral),
        }

    wrapped._c13_wrapped = True
    TransactionBuilder._set_collateral_return = wrapped


def _fee_buffer_op(b, cx, o, run, idx):
    b.fee_buffer = int(o["n"])


S.EXTRA_OPS.setdefault("c13_fee_buffer", _fee_buffer_op)


# ---- independent integer oracles -------------------------------------------------------------------------------------
def params_of(sc):
    return {**S.DEFAULT_PARAMS, **sc.get("params", {})}


def oracle_max_fee(p, ref_size):
    """max_tx_fee from the protocol parameters, exact rationals"""
    f = lambda x: Fraction(int(x[0]), int(x[1]))
    total = (math.ceil(int(p["max_tx_size"]) * f(p["a"])) + math.ceil(f(p["b"]))
             + math.ceil(int(p["max_steps"]) * f(p["price_step"])) + math.ceil(int(p["max_mem"]) * f(p["price_mem"])))
    r = p.get("ref")
    if r is not None and ref_size:
        total += math.ceil(L.tier_fee(ref_size, f(r["base"]), int(r["range"]), f(r["mult"])))
    return total


def fee_params_json(p):
    rat = lambda x: [str(int(x[0])), str(int(x[1]))]
    r = p.get("ref")
    return {"a": rat(p["a"]), "b": rat(p["b"]), "price_step": rat(p["price_step"]), "price_mem": rat(p["price_mem"]),
            "max_tx_size": str(p["max_tx_size"]), "max_steps": str(p["max_steps"]), "max_mem": str(p["max_mem"]),
            "ref": None if r is None else {"base": rat(r["base"]), "range": str(r["range"]), "mult": rat(r["mult"]),
                                           "max": str(r["max"])}}


def utxo_map(sc):
    """(txid, ix) -> dict(coin, assets {(policy, name): q}, key_locked, id) from the scenario text alone"""
    m = {}
    for u in sc["utxos"]:
        assets = {}
        for p, n, q in u.get("assets", []):
            assets[(p, n)] = assets.get((p, n), 0) + int(q)
        spec = u["addr"]
        m[(u["txid"], int(u["ix"]))] = {"coin": int(u["coin"]), "assets": {k: q for k, q in assets.items() if q},
                                        "key_locked": isinstance(spec, str) or spec[0] == "key", "id": u["id"]}
    return m


def runs_plutus(sc):
    for o in sc["ops"]:
        if o["op"] in ("script_input", "minting_script", "withdrawal_script", "certificate_script"):
            if o.get("script_in") == "ref":
                ru = next(u for u in sc["utxos"] if u["id"] == o["ref_utxo"])
                if isinstance(ru.get("script"), str):
                    return True
            elif isinstance(o.get("script"), str):
                return True
            elif o["op"] == "script_input":
                su = next(u for u in sc["utxos"] if u["id"] == o["u"])
                if isinstance(su.get("script"), str):
                    return True
    return False


def add_assets(acc, assets, mult=1):
    for k, q in assets.items():
        acc[k] = acc.get(k, 0) + mult * q
    return acc


# ---- the check of one scenario -------------------------------------------------------------------------------------------
def model_request(sc, entry):
    p = params_of(sc)
    req = {"op": "collateral", **{k: v for k, v in entry.items() if k not in ("prev_ret", "prev_total")},
           "params": fee_params_json(p), "percent": str(p["collateral_percent"]), "cpb": str(p["cpb"]),
           "max_inputs": str(p["max_collateral_inputs"])}
    return req


def correspondence(ctx, sc, rec):
    if not ctx.have_driver():
        return None
    e = rec["entry"]
    m = ctx.driver().ok(model_request(sc, e))
    ctx.traces += 1
    if "err" in m:
        ctx.count("model-error:" + m["err"])
    if "error" in rec:
        impl = {"err": rec["error"]}
        model = {"err": "value-error"} if "err" in m else m
    else:
        impl = copy.deepcopy(rec["exit"])
        model = {"err": m["err"]} if "err" in m else {"collaterals": m["collaterals"], "ret": m["ret"], "total": m["total"]}
        # a builder entered with a return / total already set (the estimation copy) keeps them when nothing is stored
        if "err" not in m:
            if e["prev_ret"] and m["ret"] is None:
                impl["ret"] = None
            if e["prev_total"] and m["total"] is None:
                impl["total"] = None
        for x in (impl, model):
            if x.get("ret"):
                x["ret"] = {"addr": x["ret"]["addr"], "amount": V.canon_value(x["ret"]["amount"])}
    if model != impl:
        ctx.diff("collateral", {"scenario": sc, "entry": e}, model, impl)
    return m


def collateral_amount(p, ref_size):
    """independent oracle of the required collateral: ceil(max_tx_fee * percent / 100)"""
    return -(-oracle_max_fee(p, ref_size) * int(p["collateral_percent"]) // 100)


def judge(ctx, sc, r, rec):
    """(a): the property on the body bytes"""
    p = params_of(sc)
    percent, maxin, cpb = int(p["collateral_percent"]), int(p["max_collateral_inputs"]), int(p["cpb"])
    bargs = sc.get("build", {})
    has_addr = bargs.get("change") is not None or bargs.get("collateral_change") is not None
    if not (runs_plutus(sc) and has_addr):
        ctx.skipped += 1
        ctx.count("skip:no-plutus-or-no-address")
        return
    body = L.Body(r.body.to_cbor())
    umap = utxo_map(sc)
    explicit = [o["u"] for o in sc["ops"] if o["op"] == "collateral"]
    auto = not explicit
    case = sc

    def viol(what, expected, actual, finding=None):
        ctx.violation(what, case, expected, actual, finding=finding)

    refs = [(t, i) for t, i in body.collateral]
    if len(set(refs)) != len(refs):
        viol("the body's collateral set repeats an input", "distinct", refs)
    refs = list(dict.fromkeys(refs))
    unknown = [x for x in refs if x not in umap]
    if unknown:
        viol("collateral input is not a UTxO of the scenario", "known UTxOs", unknown)
        return
    if auto:
        ctx.count(f"n-collateral:{len(refs)}")
    # -- count
    if len(refs) < 1:
        viol("a transaction running a Plutus script names no collateral input", ">= 1", 0)
        return
    if len(refs) > maxin:
        viol(f"{len(refs)} distinct collateral inputs, max_collateral_inputs = {maxin}", f"<= {maxin}", len(refs))
    # -- the builder's own list names no UTxO twice (the body's ordered set would hide it)
    if auto and rec is not None and "exit" in rec:
        lst = [tuple(c) for c in rec["exit"]["collaterals"]]
        if len(set(lst)) != len(lst):
            viol("the same UTxO was chosen as collateral twice (builder.collaterals)", "pairwise distinct",
                 [f"{t[:8]}#{i}" for t, i in lst])
    # -- key-locked, > 2 ADA
    for x in refs:
        u = umap[x]
        if not u["key_locked"]:
            if auto:
                viol(f"automatically chosen collateral input {u['id']} is at a script address", "key-locked", u["id"])
            else:
                ctx.skipped += 1
                ctx.count("skip:explicit-collateral-script-locked")
        if auto and u["coin"] <= 2 * ADA:
            viol(f"automatically chosen collateral input {u['id']} holds {u['coin']} <= 2 ADA", "> 2000000", u["coin"])
    # -- balance
    coin = sum(umap[x]["coin"] for x in refs)
    assets = {}
    for x in refs:
        add_assets(assets, umap[x]["assets"])
    assets = {k: q for k, q in assets.items() if q}
    ret = body.collateral_return
    ret_coin = ret["coin"] if ret else 0
    ret_assets = {k: q for k, q in (ret["assets"] if ret else {}).items() if q}
    forfeit = coin - ret_coin
    ref_size = int(rec["entry"]["ref_size"]) if rec else 0
    if body.total_collateral is not None and forfeit != body.total_collateral:
        viol("collateral inputs - collateral return != declared total_collateral", body.total_collateral, forfeit)
    if forfeit * 100 < body.fee * percent:
        fid = None     # (was KF-C13-fee-buffer, repaired: the collateral is sized from max_tx_fee + fee_buffer)
        viol("forfeitable collateral is below collateral_percent of the fee", f">= {body.fee * percent} / 100", forfeit, fid)
        ctx.count(("kf:" + fid) if fid else "violation:percent")
    if ret_assets != assets:
        viol("collateral return does not carry exactly the native assets of the collateral inputs",
             {f"{k[0]}.{k[1]}": q for k, q in assets.items()}, {f"{k[0]}.{k[1]}": q for k, q in ret_assets.items()})
    if ret is not None:
        mn = L.min_utxo(ret, cpb)
        if ret["coin"] < mn:
            viol("collateral return holds less than its minimum ADA", f">= {mn}", ret["coin"])
        ctx.count("return:present" + (":assets" if ret_assets else ""))
    else:
        ctx.count("return:absent")
    if body.total_collateral is None and ret is not None:
        viol("collateral return without declared total_collateral", "declared", None)
    ctx.count("judged")
    if body.fee == oracle_max_fee(p, ref_size):
        ctx.count("fee==max_tx_fee")
    if body.fee * percent * 10 >= forfeit * 100 * 9:
        ctx.count("fee-within-10%-of-collateral-bound")


def histogram(ctx, sc, rec):
    if rec is None:
        return
    e = rec["entry"]
    lists = {k: [(u["txid"], u["ix"]) for u in e[k]] for k in ("inputs", "potential", "addr_utxos")}
    ctx.count("selection:" + ("explicit" if e["explicit"] else "auto"))
    if "error" in rec:
        ctx.count("collateral-error:" + rec["error"])
        return
    if e["explicit"]:
        return
    for c in dict.fromkeys(tuple(c) for c in rec["exit"]["collaterals"]):
        reach = [k for k in lists if c in lists[k]]
        ctx.count("chosen-reachable-through:" + str(len(reach)))
        if reach:
            ctx.count("stage-of-chosen:" + reach[0])
    if not rec["exit"]["collaterals"]:
        ctx.count("chosen:none")


class _Direct:
    """result of a direct run: the builder calls of the scenario, then `_set_collateral_return` and `_build_tx_body`
    alone (no input selection, no fee loop: fee stays 0, so the percent clause is vacuous there)"""

    def __init__(self):
        self.error = None
        self.body = None
        self.builder = None


def run_direct(sc):
    r = _Direct()
    run = S.Run()
    cx = S.StubContext(sc)
    b = TransactionBuilder(cx)
    r.builder = run.builder = b
    bargs = sc.get("build", {})
    try:
        for idx, o in enumerate(sc.get("ops", [])):
            S.apply_op(b, cx, o, run, idx)
        addr = bargs.get("collateral_change") if bargs.get("collateral_change") is not None else bargs.get("change")
        b._set_collateral_return(S.address(addr) if addr is not None else None)
        r.body = b._build_tx_body()
    except Exception as e:
        r.error = S.classify(e)
    return r


def check_scenario(ctx, sc):
    _install()
    del RECORDS[:]
    direct = sc.get("mode") == "direct"
    r = run_direct(sc) if direct else S.run(sc, sign=False)
    recs = list(RECORDS)
    del RECORDS[:]
    main = next((x for x in recs if x["builder"] is r.builder), None)
    for rec in recs:
        correspondence(ctx, sc, rec)
        ctx.count("record:" + ("main" if rec is main else "estimation-copy"))
    histogram(ctx, sc, main)
    ctx.count("run:" + ("direct" if direct else "full-build"))
    if r.error is not None:
        ctx.count("build-error:" + r.error)
        if r.error.startswith("crash") or r.error == "assert":
            ctx.violation("the builder crashed instead of building or failing explicitly", sc, "explicit failure", r.error)
    else:
        ctx.count("built")
        judge(ctx, sc, r, main)
    ctx.case(sc)
    return r, main


# ---- generators ---------------------------------------------------------------------------------------------------------
PARAM_FAMILIES = [
    ("default", {}, 55),                                                        # max fee 2 174 277
    ("small", {"max_tx_size": 4096, "max_steps": 2_000_000_000, "max_mem": 2_000_000}, 15),   # max fee 595 205: amt < 2 ADA
    ("noref", {"ref": None}, 10),
    ("big", {"max_tx_size": 32768, "max_mem": 20_000_000}, 10),                 # max fee 3 472 173
    ("frac", {"a": [441, 10], "b": [1553811, 10]}, 10),
]


def txid(label):
    return S.H("c13/" + label).hex()


def gen_assets(rng):
    k = rng.choice([1, 1, 2, 3])
    out = []
    for _ in range(k):
        out.append([rng.choice([POLICY_A, POLICY_B]), rng.choice(V.NAMES[:6]).hex(), str(rng.choice([1, 5, 23, 24, 1000, 2**32, 2**61]))])
    # distinct (policy, name)
    seen, res = set(), []
    for a in out:
        if (a[0], a[1]) not in seen:
            seen.add((a[0], a[1]))
            res.append(a)
    return res


def plain_min_ada(cpb, with_assets=False):
    o = {"addr": bytes(29), "coin": ADA, "assets": {(POLICY_A, ""): 1} if with_assets else {}, "datum_hash": None,
         "inline_datum": None, "script_ref": None}
    return L.min_utxo(o, cpb)


def coin_choices(rng, amt, thr, cpb):
    mn, mna = plain_min_ada(cpb), plain_min_ada(cpb, True)
    t = max(thr, ADA)
    base = [2 * ADA - 1, 2 * ADA, 2 * ADA + 1, amt - 1, amt, amt + 1, amt + t - 1, amt + t, amt + t + 1,
            amt + mn - 1, amt + mn, amt + mn + 1, amt + mna - 1, amt + mna, amt + mna + 4310, amt // 2, amt // 2 + 1,
            amt - 2 * ADA, amt + 2 * ADA, 2_500_000, 3 * ADA, 5 * ADA, 10 * ADA, 50 * ADA,
            amt // 3 + 1, rng.randint(ADA, 8 * ADA)]
    return [c for c in base if c > 0]


def gen_scenario(rng, idx, mode="full", force=None):
    fam = force or rng.choices(PARAM_FAMILIES, weights=[w for _, _, w in PARAM_FAMILIES])[0]
    params = dict(fam[1])
    params["collateral_percent"] = rng.choice([100, 150, 150, 150, 200, 300, 125, 101])
    params["max_collateral_inputs"] = rng.choice([1, 2, 3, 3])
    params["cpb"] = rng.choice([4310, 4310, 4310, 1000, 10000, 100])
    kind = rng.choices(["spend-witness", "spend-ref", "mint", "spend-ref+mint", "spend-own"], weights=[40, 22, 18, 10, 10])[0]
    p = {**S.DEFAULT_PARAMS, **params}
    ref_size = 41 if "ref" in kind else 0
    amt = collateral_amount(p, ref_size)
    thr = rng.choice([ADA, ADA, ADA, 0, 2 * ADA, 5 * ADA, amt])
    utxos, ops, addr_utxos = [], [], {"k0": [], "k1": []}
    tag = f"{idx}"
    estimate = rng.random() < 0.12      # no execution units given: estimated through a deep copy of the builder
    units = lambda: None if estimate else [rng.randint(1000, 900000), rng.randint(10**6, 10**9)]
    # the script side
    if kind.startswith("spend"):
        utxos.append({"id": "s", "txid": txid(tag + "/s"), "ix": 0, "addr": ["script", SPEND],
                      "coin": rng.choice([10 * ADA, 4 * ADA, 30 * ADA]), "datum_hash": 7})
        op = {"op": "script_input", "u": "s", "datum": 7,
              "redeemer": {"data": 1, "units": units()}}
        if kind == "spend-own":
            utxos[-1]["script"] = SPEND          # the spent output carries its own validator (no witness copy, no reference input)
        elif "ref" in kind:
            holder = rng.choice(["k0", "k1", "k2"])
            utxos.append({"id": "r", "txid": txid(tag + "/r"), "ix": 1, "addr": holder, "coin": rng.choice([3 * ADA, 20 * ADA]),
                          "script": SPEND})
            if holder in addr_utxos and rng.random() < 0.7:
                addr_utxos[holder].append("r")
            op.update(script_in="ref", ref_utxo="r")
        else:
            op.update(script_in="witness", script=SPEND)
        ops.append(op)
    if "mint" in kind:
        ops.append({"op": "mint", "assets": [[MINT, "6d", "3"]]})
        ops.append({"op": "minting_script", "script": MINT,
                    "redeemer": {"data": 2, "units": units()}})
    # candidates
    n = rng.choice([1, 1, 2, 2, 3, 3, 4, 5, 6])
    coins = coin_choices(rng, amt, thr, p["cpb"])
    overlap_mode = rng.choice(["disjoint", "disjoint", "mixed", "mixed", "all-three", "inputs+addr"])
    cands = []
    for j in range(n):
        r = rng.random()
        # all eight CIP-19 payment address types: key / script payment credential x {none, key, script, pointer} stake part
        addr = "k0" if r < 0.55 else "k1" if r < 0.65 else "k0+s1" if r < 0.70 else "k0+ptr" if r < 0.74 else \
            ["key", "k0", ["script", ["pk", "k3"]]] if r < 0.78 else ["script", SPEND] if r < 0.86 else \
            ["script", ["pk", "k3"]] if r < 0.90 else ["script", SPEND, "s1"] if r < 0.93 else \
            ["script", SPEND, "ptr"] if r < 0.97 else ["script", SPEND, ["script", ["pk", "k3"]]]
        u = {"id": f"c{j}", "txid": txid(tag + f"/c{j}") if rng.random() < 0.8 else txid(tag + "/shared"), "ix": j,
             "addr": addr, "coin": rng.choice(coins)}
        if rng.random() < 0.3:
            u["assets"] = gen_assets(rng)
        r2 = rng.random()
        if r2 < 0.08:
            u["datum_hash"] = 9
        elif r2 < 0.14:
            u["inline_datum"] = rng.choice([5, 0, ["bytes", "00" * 20]])
        elif r2 < 0.18:
            u["post_alonzo"] = True
        elif r2 < 0.21:
            u["script"] = "p1:held"
        utxos.append(u)
        cands.append(u)
        if overlap_mode == "disjoint":
            where = [rng.choice(["in", "pot", "addr"])]
        elif overlap_mode == "all-three":
            where = ["in", "pot", "addr"]
        elif overlap_mode == "inputs+addr":
            where = ["in", "addr"] if rng.random() < 0.6 else ["addr"]
        else:
            where = [w for w in ("in", "pot", "addr") if rng.random() < 0.5] or ["addr"]
        if "in" in where:
            ops.append({"op": "add_input", "u": u["id"]})
        if "pot" in where:
            ops.append({"op": "potential", "u": u["id"]})
        if "addr" in where:
            key = addr if addr in ("k0", "k1") else rng.choice(["k0", "k1"])
            addr_utxos[key].append(u["id"])      # what the chain index returns for the address
    pots = [o for o in ops if o["op"] == "potential"]
    if pots and rng.random() < 0.25:
        ops.append(dict(rng.choice(pots)))        # the same UTxO listed twice among the potential inputs
    rng.shuffle(ops)
    # outputs / address inputs
    if rng.random() < 0.5:
        ops.append({"op": "add_output", "addr": "k2", "coin": rng.choice([2 * ADA, 3 * ADA, 12 * ADA])})
    if rng.random() < 0.35:
        ops.append({"op": "add_input_address", "a": "k0"})
    # explicit collateral
    if rng.random() < 0.15:
        for u in rng.sample(cands, rng.randint(1, min(2, len(cands)))):
            ops.append({"op": "collateral", "u": u["id"]})
    if thr != ADA:
        ops.append({"op": "collateral_threshold", "n": thr})
    build = {"change": "k0", "pyseed": rng.randrange(10**6)}
    r3 = rng.random()
    if r3 < 0.2:
        build["collateral_change"] = "k1"
    elif r3 < 0.25:
        build["collateral_change"] = "k0"
    elif r3 < 0.29:
        build = {"change": None, "collateral_change": "k1", "pyseed": 1}
    elif r3 < 0.32:
        build = {"change": None, "pyseed": 1}
    if rng.random() < 0.08:
        ops.append({"op": "c13_fee_buffer", "n": rng.choice([100_000, 2 * ADA, 3 * ADA])})
    return {"mode": mode, "family": fam[0], "kind": kind, "params": params, "utxos": utxos,
            "address_utxos": {k: v for k, v in addr_utxos.items() if v}, "ops": ops, "build": build}


def tighten(ctx, sc, r, margin):
    """same scenario under protocol parameters whose maximum transaction is (almost) this transaction: the fee comes
    within a few hundred lovelace of max_tx_fee, so the collateral bound is exercised with no slack"""
    b = r.builder
    try:
        size = len(b._build_full_fake_tx().to_cbor())
    except Exception:
        return None
    mem = sum(x.ex_units.mem for x in b._redeemer_list)
    steps = sum(x.ex_units.steps for x in b._redeemer_list)
    t = copy.deepcopy(sc)
    t["params"] = {**t.get("params", {}), "max_tx_size": size + margin, "max_mem": mem, "max_steps": steps}
    t["family"] = "tight"
    return t


def corpus():
    def base(extra_utxos, extra_ops, address_utxos, params=None, build=None):
        return {"family": "corpus", "kind": "spend-witness", "params": params or {},
                "utxos": [{"id": "s", "txid": txid("w/s"), "ix": 0, "addr": ["script", SPEND], "coin": 10 * ADA,
                           "datum_hash": 7}] + extra_utxos,
                "address_utxos": address_utxos,
                "ops": [{"op": "script_input", "u": "s", "script_in": "witness", "script": SPEND, "datum": 7,
                         "redeemer": {"data": 1, "units": [1000, 1000000]}}] + extra_ops,
                "build": build or {"change": "k0"}}
    a = {"id": "a", "txid": txid("w/a"), "ix": 0, "addr": "k0", "coin": 3 * ADA}
    b = {"id": "b", "txid": txid("w/b"), "ix": 0, "addr": "k0", "coin": 5 * ADA}
    c = {"id": "c", "txid": txid("w/c"), "ix": 0, "addr": "k0", "coin": 2_500_000}
    return [
        # regression f40c521 (was KF-C13-dup-candidate): `a` is an input and an address UTxO; inputs alone are
        # short of 3 261 416 — `a` must be taken once, then `b`
        base([a, b], [{"op": "add_input", "u": "a"}], {"k0": ["a", "b"]}),
        # same, through potential inputs
        base([a, b], [{"op": "add_input", "u": "a"}, {"op": "potential", "u": "a"}, {"op": "potential", "u": "b"}], {}),
        # regression 81c8cba (was KF-C13-max-inputs): two inputs needed, limit 1 — must be refused
        base([a, c], [{"op": "add_input", "u": "a"}, {"op": "add_input", "u": "c"}], {}, {"max_collateral_inputs": 1}),
        # single ample candidate (the case the unit tests cover)
        base([b], [], {"k0": ["b"]}),
        # explicit collateral
        base([b], [{"op": "collateral", "u": "b"}], {}),
        # KF-C13-fee-buffer
        base([b], [{"op": "c13_fee_buffer", "n": 3 * ADA}], {"k0": ["b"]}),
        # regression 3308efc (was KF-C13-floor): the maximum transaction is this transaction (size, memory, steps), percent 101:
        # fee == max_tx_fee == 172 760 and 172 760 * 101 is not a multiple of 100
        base([b], [], {"k0": ["b"]}, {"max_tx_size": FLOOR_SIZE, "max_mem": 1000, "max_steps": 1000000,
                                      "collateral_percent": 101}),
    ]


def run(ctx):
    _install()
    ctx.rule = ("builder scenarios running a Plutus script (spend with witness script / through a reference script only "
                "/ mint) over 1..6 candidate UTxOs with coins on the boundaries 2 ADA-1/+0/+1, amt-1/+0/+1, "
                "amt+threshold-1/+0/+1, amt+minADA-1/+0/+1 (amt = ceil(max_tx_fee*percent/100) from an independent "
                "oracle), 30% token-carrying, script-address / base-address / other-key candidates, datum / inline "
                "datum / reference-script carrying candidates (sort key), each candidate placed in 1, 2 or 3 of "
                "(inputs, potential inputs, address UTxOs); 15% explicit collateral; percent in "
                "{100,101,125,150,200,300}, max_collateral_inputs in {1,2,3}, thresholds {0,1,2,5 ADA,amt}, "
                "cpb in {100,1000,4310,10000}, collateral change address given / same / absent, five fee-parameter "
                "families plus a 'tight' family whose max transaction is the transaction itself (fee within "
                "44*margin of max_tx_fee).  Streams: corpus of witnesses; (C) two candidates in all 7x7 placements "
                "over the three lists for four coin pairs; (A) whole builds (real fee in the body); (B) the same "
                "generator with only the collateral step and the body construction executed (fee 0: percent clause "
                "vacuous there).  non-trivial = distinct scenario")
    ctx.assumptions = [
        "collateral supplied explicitly by the caller (builder.collaterals) is the caller's obligation: its "
        "key-lockedness and number are passed through unchecked and are not judged (counted as skipped)",
        "UTxO identity is the (transaction id, index) pair; the UTxO map of the scenario is the ledger state",
        "max_tx_fee / min_lovelace_post_alonzo / TransactionOutput.to_cbor are modelled by Pyc/Model/Output.lean",
        "has-Plutus-script flag, reference script size and the three candidate lists are read from the builder at "
        "entry of _set_collateral_return (instrumentation wrapper)",
    ]
    ctx.extra["trusted"] = ["entry/exit recorder around TransactionBuilder._set_collateral_return (checks/c13.py)",
                            "ref/ledger_ref.py body decoder and min_utxo"]
    rng = ctx.rng
    for sc in corpus():
        check_scenario(ctx, sc)
        check_scenario(ctx, {**sc, "mode": "direct"})
    for sc in systematic():
        check_scenario(ctx, sc)
        ctx.count("family:systematic")
    # stream A: whole builds (input selection, fee loop, body bytes with the real fee); ~0.15 s each under the
    # pure-Python CBOR backend.  Every 4th successful one is repeated under 'tight' protocol parameters.
    for i in range(ctx.budget(200, 2500)):
        sc = gen_scenario(rng, i, "full")
        r, main = check_scenario(ctx, sc)
        ctx.count("family:" + sc["family"])
        ctx.count("kind:" + sc["kind"])
        if r.error is None and i % 4 == 0 and main is not None and "exit" in main:
            t = tighten(ctx, sc, r, rng.choice([0, 0, 1, 8, 40]))
            if t is not None:
                check_scenario(ctx, t)
                ctx.count("family:tight")
        if len(ctx.violations) >= 5:
            return
    # stream B: the same scenarios with only the collateral step and the body construction executed (fee 0)
    for i in range(ctx.budget(2500, 40000)):
        sc = gen_scenario(rng, i, "direct")
        check_scenario(ctx, sc)
        ctx.count("family:" + sc["family"])
        ctx.count("kind:" + sc["kind"])
        if len(ctx.violations) >= 5:
            return


def systematic():
    """stream C: two key-locked candidates `a`, `b`, each in every non-empty subset of (inputs, potential inputs,
    address UTxOs) — 7 x 7 placements — for three coin pairs around the collateral amount (default parameters:
    3 261 415); only the collateral step is executed"""
    amt = collateral_amount(S.DEFAULT_PARAMS, 0)
    subsets = [[w for w, bit in zip(("in", "pot", "addr"), (1, 2, 4)) if m & bit] for m in range(1, 8)]
    pairs = [(amt - 1, 10 * ADA), (2 * ADA + 1, 2 * ADA + 1), (amt, amt + plain_min_ada(4310)), (amt // 2 + 1, amt // 2 + 1)]
    for ca, cb in pairs:
        for wa in subsets:
            for wb in subsets:
                utxos = [{"id": "s", "txid": txid("sys/s"), "ix": 0, "addr": ["script", SPEND], "coin": 10 * ADA, "datum_hash": 7},
                         {"id": "a", "txid": txid("sys/a"), "ix": 0, "addr": "k0", "coin": ca},
                         {"id": "b", "txid": txid("sys/b"), "ix": 0, "addr": "k0", "coin": cb}]
                ops = [{"op": "script_input", "u": "s", "script_in": "witness", "script": SPEND, "datum": 7,
                        "redeemer": {"data": 1, "units": [1000, 1000000]}}]
                addr = []
                for uid, where in (("a", wa), ("b", wb)):
                    if "in" in where:
                        ops.append({"op": "add_input", "u": uid})
                    if "pot" in where:
                        ops.append({"op": "potential", "u": uid})
                    if "addr" in where:
                        addr.append(uid)
                yield {"mode": "direct", "family": "systematic", "kind": "spend-witness", "params": {}, "utxos": utxos,
                       "address_utxos": {"k0": addr} if addr else {}, "ops": ops, "build": {"change": "k0"}}


def replay(ctx, data):
    _install()
    if "input" in data:
        check_scenario(ctx, data["input"])
    for d in data.get("correspondence", []):
        check_scenario(ctx, d["input"]["scenario"])
