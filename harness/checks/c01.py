"""C01 — decoding an encoded ledger object returns an equal object.

Type-directed generation over the schema extracted from /repo (every class, optional-field masks, union
alternatives, boundary integers); direct evaluation of the property (`T.from_cbor(x.to_cbor()) == x` and the re-encoded
bytes equal) and correspondence with the Lean generic codec model run on the regenerated schema (`codec.enc`,
`codec.dec`), plus a malformed stream comparing accept / reject."""
from __future__ import annotations

import random
import zlib

from pycardano.exception import DeserializeException

from vlib import typegen as T


def pick(seed: str) -> int:
    """a stable 3-way split of the cases (Python's own str hash changes with the interpreter's hash seed: a replay would take
    another branch)"""
    return zlib.crc32(seed.encode()) % 3


def classify(e):
    return "deser" if isinstance(e, DeserializeException) else "crash"


def check_object(ctx, case):
    """case = {cls, seed, depth}: the object is regenerated from the seed"""
    g = T.Gen(random.Random(case["seed"]), ctx.extra.setdefault("_cov", {}))
    name = case["cls"]
    try:
        x = g.obj(name, case["depth"])
    except Exception as e:
        # every class of the regenerated table is generatable on the unchanged tree: a class the generator no longer
        # understands is a part of the code the property is no longer shown for (reported, never silent)
        ctx.count("ungeneratable:" + name)
        ctx.extra.setdefault("ungeneratable", {})[name] = f"{type(e).__name__}: {str(e)[:120]}"
        ctx.diff("typegen", case, "an instance of " + name, f"{type(e).__name__}: {str(e)[:200]}")
        return
    cls = type(x)
    try:
        b = x.to_cbor()
    except Exception as e:
        # outside "objects the library can serialize"
        ctx.count("unserializable:" + name)
        ctx.extra.setdefault("unserializable", {})[name] = f"{type(e).__name__}: {str(e)[:120]}"
        ctx.skipped += 1
        return
    desc = {**case, "hex": b.hex()}
    try:
        y = cls.from_cbor(b)
        err = None
    except Exception as e:
        y, err = None, e
    if err is None and (pick(case["seed"]) == 0 or ctx.replay):
        # decoding is a function of the bytes: the same bytes decoded again (same process) give an equal, independent object
        try:
            y2 = cls.from_cbor(bytes(b))
            again = (y2 == y)
        except Exception as e:
            y2, again = None, f"{type(e).__name__}: {str(e)[:120]}"
        ctx.count("decoded-twice")
        if again is not True:
            ctx.violation(f"{name}: decoding the same bytes a second time does not give the object of the first time", desc, repr(y)[:300],
                          again if isinstance(again, str) else repr(y2)[:300])
    if err is None and (pick(case["seed"]) == 1 or ctx.replay):
        # HISTORIES (vlib/history.py): (i) an earlier decoding of the same bytes is edited in place, the bytes are decoded again:
        # the result must still be the original; (ii) of two equal objects one is serialized, both get the same in-place edit:
        # their bytes must still agree (nothing remembered from the earlier serialization)
        from vlib import history as H
        mk = lambda: T.Gen(random.Random(case["seed"]), {}).obj(name, case["depth"])
        try:
            x0 = mk()
            dh = H.decode_history(cls, b, x0, case["seed"] + "/dh") if x0 == x else None
        except Exception:
            dh = None
        if dh is not None:
            ctx.count("history:decode")
            if not (dh["equal"] and dh["same_bytes"]):
                ctx.violation(f"{name}: after an earlier decoding of the same bytes was edited in place ({dh['edit']}), decoding the "
                              "bytes again does not return the original object", {**desc, "history": "decode"}, "the original", dh)
        try:
            eh = H.encode_history(mk, case["seed"] + "/eh")
        except Exception:
            eh = None
        if eh is not None:
            ctx.count("history:encode")
            if not eh["agree"]:
                ctx.violation(f"{name}: after the in-place edit {eh['edit']} an object that had been serialized before writes other bytes "
                              "than an equal object that had not", {**desc, "history": "encode"}, eh["fresh"], eh["serialized_before"])
    if err is not None:
        ctx.violation(f"{name}: the encoded object cannot be decoded with the same type ({type(err).__name__}: {str(err)[:160]})",
                      desc, "an equal object", classify(err))
    else:
        try:
            eq = (y == x)
        except Exception as e:
            eq = False
        if not eq:
            ctx.violation(f"{name}: decode(encode(x)) != x", desc, repr(x)[:400], repr(y)[:400])
        else:
            try:
                b2 = y.to_cbor()
            except Exception as e:
                b2 = None
            if b2 != b:
                ctx.violation(f"{name}: re-encoding the decoded object gives different bytes", desc, b.hex(), b2.hex() if b2 else None)
    # ---- correspondence with the generic model
    if ctx.have_driver():
        v = T.to_val(x)
        k, m = ctx.driver().call({"op": "codec.enc", "v": v})
        ctx.traces += 1
        if k != "ok" or m != b.hex():
            ctx.diff("codec.enc", desc, m, b.hex())
        # is this value inside the scope of the generic theorem (HasType, by the sound executable check typedB)?
        k, m = ctx.driver().call({"op": "codec.typed", "cls": name, "v": v})
        if k == "ok" and m is True:
            ctx.count("in_theorem_scope")
            ctx.extra.setdefault("classes_in_theorem_scope", set()).add(name)
        else:
            ctx.count("outside_theorem_scope")
        if T.generic_dec(name) or T.SCH[name]["kind"] in ("dict", "cbytes"):
            k, m = ctx.driver().call({"op": "codec.dec", "cls": name, "hex": b.hex()})
            ctx.traces += 1
            if k != "ok":
                ctx.diff("codec.dec", desc, m, "ok")
            elif "err" in m:
                if err is None:
                    ctx.diff("codec.dec", desc, m, "decoded")
            else:
                if err is not None:
                    ctx.diff("codec.dec", desc, "decoded", classify(err))
                else:
                    if not T.same_val(ctx.driver(), m["val"], T.to_val(y)):
                        ctx.diff("codec.dec", desc, m["val"], T.to_val(y))
                    if m["reenc"] != b.hex():
                        ctx.diff("codec.dec.reenc", desc, m["reenc"], b.hex())
    ctx.count("kind:" + T.SCH[name]["kind"])
    ctx.case(case)
    return b, cls


def check_malformed(ctx, case):
    """a well-formed encoding with one structural damage: both sides must agree on accept / reject"""
    from ref import cbor_ref as R
    g = T.Gen(random.Random(case["seed"]), {})
    name = case["cls"]
    try:
        x = g.obj(name, 2)
        b = x.to_cbor()
        item = R.dec(b)
    except Exception:
        return
    rng = random.Random(case["seed"] + "/m")
    kind = case["damage"]
    try:
        if kind == "code" and isinstance(item, list) and item and isinstance(item[0], int):
            item[0] = item[0] + rng.choice([1, 5, 100])
        elif kind == "drop" and isinstance(item, list) and item:
            item.pop()
        elif kind == "extra" and isinstance(item, list):
            item.append(rng.choice([0, b"\x00"]))
        elif kind == "kind":
            item = rng.choice([0, b"\x01\x02", "t", [], R.Map([]), None])
        elif kind == "key" and isinstance(item, R.Map) and item.pairs:
            k0, v0 = item.pairs[0]
            item.pairs[0] = (rng.choice([99, "zz"]), v0)
        elif kind == "elem" and isinstance(item, list) and item:
            i = rng.randrange(len(item))
            item[i] = rng.choice([0, b"\x01", "t", [], None])
        else:
            return
        mb = R.enc(item)
    except Exception:
        return
    cls = type(x)
    try:
        cls.from_cbor(mb)
        impl = "ok"
    except DeserializeException:
        impl = "deser"
    except Exception:
        impl = "crash"
    if ctx.have_driver() and T.generic_dec(name):
        k, m = ctx.driver().call({"op": "codec.dec", "cls": name, "hex": mb.hex()})
        ctx.traces += 1
        mod = "ok" if (k == "ok" and "err" not in m) else (m.get("err") if k == "ok" else "fail")
        # opaque leaves of the model accept anything: "model ok, implementation rejects" is only meaningful for classes
        # restored by generic code all the way down
        if (mod != "ok" and impl == "ok") or (mod == "ok" and impl != "ok" and T.fully_generic(name)):
            ctx.diff("codec.dec(malformed)", {**case, "hex": mb.hex()}, mod, impl)
    ctx.count("malformed:" + kind + ":" + impl)
    ctx.case(case, nontrivial=False)


def dispatch(ctx, case):
    if str(case.get("kind", "")).startswith("custom-"):
        from checks import c01_custom
        c01_custom.replay_custom(ctx, case)
    elif case.get("damage"):
        check_malformed(ctx, case)
    else:
        check_object(ctx, case)


def run(ctx):
    classes = T.top_level_classes()
    ctx.rule = (f"type-directed generation over the {len(classes)} serializable classes extracted from /repo: every class in "
                "rotation, random subsets of optional fields, union alternatives biased toward those not yet hit, boundary "
                "integers, nesting depth up to 4; a malformed stream (wrong code / kind / key / arity); non-trivial = "
                "distinct (class, seed) whose encoding succeeded")
    ctx.assumptions = ["classes with a hand-written codec are opaque leaves of the generic model (their own round trip is "
                       "judged directly on the implementation); Value / MultiAsset / Asset, TransactionOutput and the set-valued "
                       "fields of TransactionBody have their own models (checks/c01_custom.py)",
                       "HardForkInitiationAction / typed PlutusData / signing keys are outside this generator (see DESIGN.md)"]
    rng = ctx.rng
    n = ctx.budget(2600, 60000)
    for i in range(n):
        name = classes[i % len(classes)]
        depth = rng.choice([1, 2, 3, 4]) if name in ("Transaction", "TransactionBody", "ProposalProcedure", "TransactionWitnessSet") else rng.choice([1, 2, 3])
        dispatch(ctx, {"cls": name, "seed": f"{ctx.seed}/{i}", "depth": depth})
    for i in range(ctx.budget(500, 10000)):
        name = rng.choice(classes)
        dispatch(ctx, {"cls": name, "seed": f"{ctx.seed}/m{i}", "damage": rng.choice(["code", "drop", "extra", "kind", "key", "elem"])})
    # classes with a hand-written codec that have their own Lean model (Value, TransactionOutput, TransactionBody set fields)
    from checks import c01_custom
    c01_custom.run_custom(ctx)
    cov = ctx.extra.pop("_cov", {})
    ctx.extra["classes_in_theorem_scope"] = sorted(ctx.extra.get("classes_in_theorem_scope", ()))
    ctx.extra["union_alternatives_hit"] = sum(1 for k in cov if k.startswith("alt:"))
    ctx.extra["classes_hit"] = sum(1 for k in cov if k.startswith("cls:"))
    ctx.extra["optional_masks_hit"] = sum(1 for k in cov if k.startswith("mask:"))


def replay(ctx, data):
    if "input" in data:
        c = {k: v for k, v in data["input"].items() if k != "hex"}
        dispatch(ctx, c)
    for d in data.get("correspondence", []):
        c = {k: v for k, v in d["input"].items() if k != "hex"}
        dispatch(ctx, c)
