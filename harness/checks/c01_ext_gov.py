"""C01 extension `gov` — the small hand-written codecs of credentials and governance items.

`StakeCredential` / `DRepCredential` / `CommitteeColdCredential`, `DRep`, `Voter`, `Anchor`, `VotingProcedure`,
`GovActionId`, `GovActionIdToVotingProcedure`, `VotingProcedures`, `HardForkInitiationAction`, `PoolId` are modelled in
lean/Pyc/Model/Gov.lean (theorems: Props/C01_Gov.lean).  This module ties the model to /repo: the REAL classes and the
driver ops `gov.*` run on the same inputs and are compared on the encoding, on the decoded object (image read off its
fields), on the re-encoding and on the error class; in the same pass the property itself is judged on the implementation.

Families (every case is regenerated from its own seed string, so every case replays alone):
  gov-obj     objects built through the public constructors (every class / kind / optional; boundary indices, urls, sizes of
              0, 1, 23, 24, 25, now and then 256 dict entries): constructor acceptance = model well-formedness;
              decode(encode(x)) == x under `==` AND field by field; re-encode gives the bytes; `hash` agrees; `==` tells x
              from a copy with ONE field changed (what `==` ignores is what the model's `PyEq` ignores: the class of a
              DRep's hash object)
  gov-embed   the classes inside certificates, `TransactionBody.voting_procedures` / `proposal_procedures`: the embedded
              bytes are the stand-alone bytes, the container round-trips
  gov-fuzz    random primitives one to three point mutations away from the shapes of gov-mal (same comparison)
  gov-mal     damaged primitives (wrong kind code, arity, hash length, bool / simple value / bignum for an int, text / list
              / map for a hash, indefinite length, …): ok | DeserializeException | other exception, decoded image and
              re-encoding compared with the model
"""
from __future__ import annotations

import random

from pycardano.exception import DeserializeException

from ref import bech32_ref as B32
from ref import cbor_ref as R
from vlib import govgen as G

EXT = "gov"
OBJ_CLASSES = ["cred", "drepcred", "coldcred", "drep", "voter", "anchor", "vp", "gaid", "votes", "vps", "hardfork", "poolid"]
MAL_CLASSES = ["cred", "drep", "voter", "anchor", "vp", "gaid", "votes", "vps", "hardfork", "poolid"]
HASHABLE = {"cred", "coldcred", "voter", "gaid"}       # DRepCredential is re-decorated with @dataclass: `__hash__` is None


def classify(e):
    return "deser" if isinstance(e, DeserializeException) else "crash"


def mcall(ctx, req):
    k, m = ctx.driver().call(req)
    ctx.traces += 1
    return k, m


# ------------------------------------------------------------------------------------------------------ objects
def drep_shape(x):
    """coherent | class-mismatch (kind 0/1 with a hash object of the other class) | incoherent (arity disagrees with the kind)"""
    from pycardano.certificate import DRepKind
    from pycardano.hash import VerificationKeyHash
    has = x.credential is not None
    if x.kind in (DRepKind.ALWAYS_ABSTAIN, DRepKind.ALWAYS_NO_CONFIDENCE):
        return "coherent" if not has else "incoherent"
    if not has:
        return "incoherent"
    key = isinstance(x.credential, VerificationKeyHash)
    return "coherent" if key == (x.kind == DRepKind.VERIFICATION_KEY_HASH) else "class-mismatch"


def check_obj(ctx, case):
    cls = case["cls"]
    mcls = G.MODEL_CLS[cls]
    C = G.CLASSES[cls]
    rng = random.Random(case["seed"])
    g = G.realise(G.gen(cls, rng, ctx.thorough))
    have = ctx.have_driver()
    if g["args"] is None:
        ctx.diff("gov.gen", case, "an instance of " + cls, f"{type(g['exc']).__name__}: {str(g['exc'])[:160]}")
        return
    desc = {**case, "args": g["args"] if len(str(g["args"])) < 1500 else "(large)"}
    menc = None
    if have:
        k, menc = mcall(ctx, {"op": "gov.enc", "cls": mcls, "v": g["args"]})
        if k != "ok":
            ctx.diff("gov.enc", desc, menc, "encodable")
            menc = None
    x = g["obj"]
    if mcls == "poolid":
        # independent oracle for the text form: BIP-173 reference (harness/ref/bech32_ref.py) + the `pool` prefix
        s = g["args"]["value"]
        try:
            B32.decode5(s)
            expect = s.startswith("pool")
        except B32.Invalid:
            expect = False
        ctx.count(f"gov-obj:poolid:{'valid' if expect else 'invalid'}-text")
        if expect != (x is not None):
            ctx.violation("PoolId: " + ("a valid bech32 pool id is refused" if expect else "a string that is not a bech32 pool id is accepted"),
                          desc, "accepted" if expect else "refused", "accepted" if x is not None else "refused")
    # ---- constructor acceptance = well-formedness of the model (what `__post_init__` enforces)
    if x is None:
        ctx.count(f"gov-obj:{cls}:constructor-refuses:{type(g['exc']).__name__}")
        if menc is not None and menc["wf"]:
            ctx.diff("gov.constructor", desc, "accepted (wf)", f"{type(g['exc']).__name__}: {str(g['exc'])[:120]}")
        ctx.case(case, nontrivial=False)
        return
    if menc is not None and not menc["wf"] and mcls != "drep":
        ctx.diff("gov.constructor", desc, "refused (not wf)", "constructed")
    c = G.code_of(cls, x)
    if c is not None and c[0] != c[1]:
        ctx.violation(f"{C.__name__}: the constructor stores type code {c[0]} for fields that prescribe {c[1]}", desc, c[1], c[0])
    try:
        b = x.to_cbor()
    except Exception as e:
        ctx.violation(f"{C.__name__}: an object its constructor accepted cannot be serialized ({type(e).__name__}: {str(e)[:120]})",
                      desc, "bytes", classify(e))
        return
    desc["hex"] = b.hex() if len(b) < 800 else b[:400].hex() + "…"
    xi = G.img(cls, x)
    shape = drep_shape(x) if mcls == "drep" else "coherent"
    ctx.count(f"gov-obj:{cls}:{shape}" if mcls == "drep" else f"gov-obj:{cls}")
    if mcls in ("votes", "vps"):
        n = len(x)
        ctx.count(f"gov-obj:{cls}:entries:{n if n < 5 else '23-25' if n < 30 else '256'}")
    if mcls == "gaid":
        ix = x.gov_action_index
        ctx.count(f"gov-obj:gaid:index:{ix if ix in G.IDX_BOUNDARY else 'other'}")
    if mcls == "drep":
        ctx.count(f"gov-obj:drep:kind{x.kind.value}:{'none' if x.credential is None else type(x.credential).__name__}")
    if mcls == "voter":
        ctx.count(f"gov-obj:voter:code{x._CODE}")
    # ---- the property on the implementation
    try:
        y = C.from_cbor(b)
        err = None
    except Exception as e:
        y, err = None, e
    if shape == "incoherent":
        # DRep whose kind and credential disagree: the constructor accepts it, Props/C01_Gov.lean proves that it does not
        # round-trip (`drep_roundtrip_counterexample`); model and implementation must agree on what happens instead
        ctx.skipped += 1
        ctx.count("gov-obj:drep:incoherent:" + ("decoded-unequal" if err is None and not (y == x) else
                                                "decoded-equal" if err is None else classify(err)))
        if err is None and y == x:
            ctx.diff("gov.drep.counterexample", desc, "decode(encode(x)) != x", "equal")
    elif err is not None:
        ctx.violation(f"{C.__name__}: the encoded object cannot be decoded ({type(err).__name__}: {str(err)[:120]})", desc,
                      "an equal object", classify(err))
    else:
        if type(y) is not type(x):
            ctx.violation(f"{C.__name__}: decoding returns a {type(y).__name__}", desc, C.__name__, type(y).__name__)
        try:
            eq = bool(y == x) and bool(x == y)
        except Exception:
            eq = False
        if not eq:
            ctx.violation(f"{C.__name__}: decode(encode(x)) != x", desc, xi, G.img(cls, y))
        yi = G.img(cls, y)
        if mcls in ("votes", "vps"):
            # dict equality is order-free: the decoded dict holds the same entries, in canonical (wire) order
            same = sorted(map(str, yi)) == sorted(map(str, xi)) if mcls == "votes" else \
                sorted((str(k), sorted(map(str, v))) for k, v in yi) == sorted((str(k), sorted(map(str, v))) for k, v in xi)
        elif shape == "class-mismatch":
            same = yi["kind"] == xi["kind"] and yi["cred"]["hash"] == xi["cred"]["hash"]     # PyEq: the class is not compared
        else:
            same = yi == xi
        if not same:
            ctx.violation(f"{C.__name__}: decode(encode(x)) differs from x field by field", desc, xi, yi)
        try:
            b2 = y.to_cbor()
        except Exception:
            b2 = None
        if b2 != b:
            ctx.violation(f"{C.__name__}: re-encoding the decoded object gives different bytes", desc, b.hex(),
                          b2.hex() if b2 else None)
        if cls in HASHABLE and hash(y) != hash(x):
            ctx.violation(f"{C.__name__}: equal objects with different hashes (dict keys)", desc, hash(x), hash(y))
        c = G.code_of(cls, y)
        if c is not None and c[0] != c[1]:
            ctx.violation(f"{C.__name__}: the decoder stores type code {c[0]} for fields that prescribe {c[1]}", desc, c[1], c[0])
    # ---- `==` tells apart objects that differ in one field (and only ignores what the model's equality ignores)
    if mcls != "poolid" and shape != "incoherent":
        try:
            p = G.perturb(cls, x, random.Random(case["seed"] + "/perturb"))
        except Exception as e:
            p = None
            ctx.diff("gov.perturb", desc, "a neighbour of x", f"{type(e).__name__}: {str(e)[:160]}")
        if p is not None:
            x2, what = p
            try:
                eq2 = bool(x == x2) or bool(x2 == x)
            except Exception:
                eq2 = False
            expect_equal = (mcls == "drep" and what == "class")
            ctx.count(f"gov-obj:{cls}:perturb:{what}")
            if eq2 != expect_equal:
                ctx.violation(f"{C.__name__}: `==` " + ("distinguishes objects that differ only in the class of the hash object"
                              if expect_equal else f"does not distinguish objects that differ in {what}"), {**desc, "changed": what},
                              "equal" if expect_equal else "unequal", "equal" if eq2 else "unequal")
    # ---- correspondence with the model
    if menc is not None:
        if mcls in ("votes", "vps") and len(b) >= 800:
            desc = {**desc, "hex": "(large)"}
        if menc["hex"] != b.hex():
            ctx.diff("gov.enc", desc, menc["hex"], b.hex())
        ctx.count(f"gov-obj:{cls}:" + ("in_theorem_scope" if menc["wf"] and menc.get("distinct", True) else "outside_theorem_scope"))
        if mcls == "drep":
            if menc["coherent"] != (shape == "coherent") or menc["arity"] != (shape != "incoherent"):
                ctx.diff("gov.drep.shape", desc, {k: menc[k] for k in ("coherent", "arity")}, shape)
        k, md = mcall(ctx, {"op": "gov.dec", "cls": mcls, "hex": b.hex()})
        if k != "ok":
            ctx.diff("gov.dec", desc, md, "ok")
        elif "err" in md:
            if err is None or md["err"] != classify(err):
                ctx.diff("gov.dec", desc, md["err"], "decoded" if err is None else classify(err))
        elif err is not None:
            ctx.diff("gov.dec", desc, "decoded", classify(err))
        else:
            yi = G.img(cls, y)
            if md["val"] != yi:
                ctx.diff("gov.dec.val", desc, md["val"], yi)
            if md["reenc"] != y.to_cbor().hex():
                ctx.diff("gov.dec.reenc", desc, md["reenc"], y.to_cbor().hex())
            if mcls in ("votes", "vps") and menc["wf"] and menc["distinct"] and menc["canon"] != yi:
                # the closed form of the theorem (`vps_roundtrip`: decoding returns the canonical reordering)
                ctx.diff("gov.dec.canon", desc, menc["canon"], yi)
    ctx.case(case)


# ---------------------------------------------------------------------------------------------------- embedding
def find_sub(item, want):
    """does the decoded tree `item` (ref/cbor_ref model) contain the sub-item `want`?"""
    if item == want:
        return True
    if isinstance(item, R.Tag):
        return find_sub(item.value, want)
    if isinstance(item, R.Map):
        return any(find_sub(k, want) or find_sub(v, want) for k, v in item.pairs)
    if isinstance(item, list):
        return any(find_sub(i, want) for i in item)
    return False


def check_embed(ctx, case):
    try:
        check_embed_inner(ctx, case)
    except Exception as e:
        # every object here is built from arguments the model calls well-formed: a constructor / serializer that refuses them
        # is a disagreement with the model (the property has no object to be judged on)
        ctx.diff("gov.embed.build", case, "constructible and serializable", f"{type(e).__name__}: {str(e)[:200]}")


def check_embed_inner(ctx, case):
    import pycardano as pc
    from pycardano import certificate as cert
    from pycardano import governance as gov
    from pycardano.hash import PoolKeyHash
    from pycardano.serialization import NonEmptyOrderedSet
    rng = random.Random(case["seed"])
    where = case["where"]
    parts = []          # (harness class, object) expected inside the container, byte for byte

    def cred(cls="cred"):
        o = G.CLASSES[cls](G.g_hashobj(rng))
        parts.append((cls, o))
        return o

    def drep():
        from pycardano.certificate import DRep, DRepKind
        k = rng.choice(list(DRepKind))
        o = DRep(kind=k, credential=G.g_hashobj(rng, True) if k == DRepKind.VERIFICATION_KEY_HASH else G.g_hashobj(rng, False)
                 if k == DRepKind.SCRIPT_HASH else None)
        parts.append(("drep", o))
        return o

    def anchor(opt=True):
        if opt and rng.random() < 0.4:
            return None
        o = G.g_anchor(rng)
        parts.append(("anchor", o))
        return o

    def gaid(opt=True):
        if opt and rng.random() < 0.4:
            return None
        o = G.g_gaid(rng)
        parts.append(("gaid", o))
        return o

    pool = PoolKeyHash(G.rb(rng, 28))
    coin = rng.choice([0, 1, 2_000_000, 2**32, 2**64 - 1])
    mk = {
        "StakeRegistration": lambda: cert.StakeRegistration(cred()),
        "StakeDeregistration": lambda: cert.StakeDeregistration(cred()),
        "StakeDelegation": lambda: cert.StakeDelegation(cred(), pool),
        "StakeRegistrationConway": lambda: cert.StakeRegistrationConway(cred(), coin),
        "StakeDeregistrationConway": lambda: cert.StakeDeregistrationConway(cred(), coin),
        "VoteDelegation": lambda: cert.VoteDelegation(cred(), drep()),
        "StakeAndVoteDelegation": lambda: cert.StakeAndVoteDelegation(cred(), pool, drep()),
        "StakeRegistrationAndDelegation": lambda: cert.StakeRegistrationAndDelegation(cred(), pool, coin),
        "StakeRegistrationAndVoteDelegation": lambda: cert.StakeRegistrationAndVoteDelegation(cred(), drep(), coin),
        "StakeRegistrationAndDelegationAndVoteDelegation":
            lambda: cert.StakeRegistrationAndDelegationAndVoteDelegation(cred(), pool, drep(), coin),
        "AuthCommitteeHotCertificate": lambda: cert.AuthCommitteeHotCertificate(cred(), cred()),
        "ResignCommitteeColdCertificate": lambda: cert.ResignCommitteeColdCertificate(cred(), anchor()),
        "RegDRepCert": lambda: cert.RegDRepCert(cred("drepcred"), coin, anchor()),
        "UnregDRepCertificate": lambda: cert.UnregDRepCertificate(cred("drepcred"), coin),
        "UpdateDRepCertificate": lambda: cert.UpdateDRepCertificate(cred("drepcred"), anchor()),
    }

    def action():
        k = rng.choice(["hardfork", "noconfidence", "info", "newconstitution", "updatecommittee"])
        if k == "hardfork":
            o = gov.HardForkInitiationAction(gov_action_id=gaid(), protocol_version=(rng.randint(1, 10), rng.choice(G.UINTS)))
            parts.append(("hardfork", o))
            return o
        if k == "noconfidence":
            return gov.NoConfidence(gaid())
        if k == "newconstitution":
            return gov.NewConstitution(gaid(), (anchor(opt=False), None))
        if k == "updatecommittee":
            from fractions import Fraction
            from pycardano.serialization import OrderedSet
            cold = [cred("coldcred") for _ in range(rng.choice([0, 1, 2]))]
            exp = gov.CommitteeColdCredentialEpochMap()
            exp[cred("coldcred")] = rng.choice([0, 500])
            return gov.UpdateCommittee(gaid(), OrderedSet(cold), exp, Fraction(2, 3))
        return gov.InfoAction()

    body_kw = {"inputs": [], "outputs": [], "fee": 0}
    if where in mk:
        top = mk[where]()
        container = top
        Ctop = type(top)
        if rng.random() < 0.5:
            body_kw["certificates"] = [top] if rng.random() < 0.5 else NonEmptyOrderedSet([top])
            container = pc.TransactionBody(**body_kw)
            Ctop = pc.TransactionBody
    elif where == "voting_procedures":
        vps = G.g_vps(rng, ctx.thorough)
        parts.append(("vps", vps))
        for k, v in vps.data.items():
            parts.append(("voter", k))
            for gk, gv in list(v.data.items())[:3]:
                parts.append(("gaid", gk))
                parts.append(("vp", gv))
        body_kw["voting_procedures"] = vps
        container = pc.TransactionBody(**body_kw)
        Ctop = pc.TransactionBody
    elif where == "proposal_procedures":
        props = [gov.ProposalProcedure(rng.choice([0, 10**9]), bytes([0xE1]) + G.rb(rng, 28), action(), anchor(opt=False))
                 for _ in range(rng.choice([1, 2]))]
        body_kw["proposal_procedures"] = NonEmptyOrderedSet(props, use_tag=rng.random() < 0.5)
        container = pc.TransactionBody(**body_kw)
        Ctop = pc.TransactionBody
    else:
        raise ValueError(where)
    try:
        b = container.to_cbor()
    except Exception as e:
        ctx.violation(f"{where}: a container of modelled classes cannot be serialized ({type(e).__name__}: {str(e)[:120]})", case,
                      "bytes", classify(e))
        return
    desc = {**case, "hex": b.hex() if len(b) < 1200 else b[:600].hex() + "…"}
    ctx.count(f"gov-embed:{where}:{Ctop.__name__}")
    tree = R.dec(b)
    for cls, o in parts:
        sb = o.to_cbor()
        if not find_sub(tree, R.dec(sb)) or sb not in b:
            ctx.violation(f"{where}: the embedded {type(o).__name__} is not written as its stand-alone bytes", {**desc, "part": cls},
                          sb.hex()[:200], "absent from the container")
        elif ctx.have_driver():
            # the stand-alone bytes are the model's bytes
            k, m = mcall(ctx, {"op": "gov.enc", "cls": G.MODEL_CLS[cls], "v": G.img(cls, o)})
            if k != "ok" or m["hex"] != sb.hex():
                ctx.diff("gov.embed.enc", {**desc, "part": cls}, m if k != "ok" else m["hex"][:200], sb.hex()[:200])
    try:
        y = Ctop.from_cbor(b)
        err = None
    except Exception as e:
        y, err = None, e
    if err is not None:
        ctx.violation(f"{where}: the encoded container cannot be decoded ({type(err).__name__}: {str(err)[:120]})", desc,
                      "an equal object", classify(err))
    else:
        try:
            eq = bool(y == container)
        except Exception:
            eq = False
        if not eq:
            ctx.violation(f"{where}: decode(encode(container)) != container", desc, repr(container)[:300], repr(y)[:300])
        try:
            b2 = y.to_cbor()
        except Exception:
            b2 = None
        if b2 != b:
            ctx.violation(f"{where}: re-encoding the decoded container gives different bytes", desc, b.hex()[:400],
                          b2.hex()[:400] if b2 else None)
    ctx.case(case)


EMBED_WHERE = ["StakeRegistration", "StakeDeregistration", "StakeDelegation", "StakeRegistrationConway", "StakeDeregistrationConway",
               "VoteDelegation", "StakeAndVoteDelegation", "StakeRegistrationAndDelegation", "StakeRegistrationAndVoteDelegation",
               "StakeRegistrationAndDelegationAndVoteDelegation", "AuthCommitteeHotCertificate", "ResignCommitteeColdCertificate",
               "RegDRepCert", "UnregDRepCertificate", "UpdateDRepCertificate", "voting_procedures", "proposal_procedures"]


# ---------------------------------------------------------------------------------------------------- malformed
def check_malformed(ctx, case):
    cls = case["cls"]
    if case["kind"] == "gov-fuzz":
        prims = {"fuzz": G.fuzz_prim(cls, random.Random(case["seed"]))}
        case = {**case, "damage": "fuzz"}
    else:
        prims = G.malformed(cls)
    if case["damage"] not in prims:
        return
    mb = G.enc_mal(prims[case["damage"]])
    desc = {**case, "hex": mb.hex() if len(mb) < 600 else mb[:300].hex() + "…"}
    targets = [cls] if cls != "cred" else ["cred", "drepcred", "coldcred"]
    for hc in targets:
        C = G.CLASSES[hc]
        try:
            y = C.from_cbor(mb)
            impl = "ok"
        except DeserializeException:
            y, impl = None, "deser"
        except Exception:
            y, impl = None, "crash"
        ctx.count(f"{case['kind']}:{hc}:{impl}")
        if hc == "poolid" and isinstance(prims[case["damage"]], str):
            # the text form judged by the independent BIP-173 reference: accepted iff valid bech32 with a prefix starting `pool`
            s = prims[case["damage"]]
            try:
                B32.decode5(s)
                expect = s.startswith("pool")
            except B32.Invalid:
                expect = False
            if expect != (impl == "ok"):
                ctx.violation("PoolId: " + ("a valid bech32 pool id is refused" if expect else "a string that is not a bech32 pool id is accepted"),
                              {**desc, "text": s}, "accepted" if expect else "refused", impl)
        if impl == "ok" and type(y) is not C:
            ctx.violation(f"{C.__name__}: decoding returns a {type(y).__name__}", desc, C.__name__, type(y).__name__)
        if ctx.have_driver():
            k, m = mcall(ctx, {"op": "gov.dec", "cls": G.MODEL_CLS[hc], "hex": mb.hex()})
            mod = "fail" if k != "ok" else m.get("err", "ok")
            if mod != impl:
                ctx.diff(f"gov.dec(malformed:{hc})", desc, mod, impl)
            elif impl == "ok":
                try:
                    yi = G.img(hc, y)
                except Exception as e:
                    yi = f"no image: {type(e).__name__}"
                if m["val"] != yi:
                    ctx.diff(f"gov.dec(malformed:{hc}).val", desc, m["val"], yi)
                try:
                    rb = y.to_cbor().hex()
                except Exception:
                    rb = None                      # an ill-typed object that `validate()` refuses: nothing to compare
                if rb is not None and m["reenc"] != rb:
                    ctx.diff(f"gov.dec(malformed:{hc}).reenc", desc, m["reenc"], rb)
    ctx.case(case, nontrivial=False)


# ------------------------------------------------------------------------------------------------- entry points
def dispatch(ctx, case):
    k = case["kind"]
    if k == "gov-obj":
        check_obj(ctx, case)
    elif k == "gov-embed":
        check_embed(ctx, case)
    elif k in ("gov-mal", "gov-fuzz"):
        check_malformed(ctx, case)
    else:
        raise ValueError(k)


def run_ext(ctx):
    ctx.extra.setdefault("trusted", []).append("modelled rather than verified (compared with /repo on every run): lean/Pyc/Model/Gov.lean — StakeCredential / DRepCredential / CommitteeColdCredential, DRep, Voter, Anchor, VotingProcedure, GovActionId, GovActionIdToVotingProcedure, VotingProcedures, HardForkInitiationAction, PoolId")
    ctx.assumptions.append(
        "gov extension: hash functions play no role (hash objects are payload carriers); the `Certificate` / `GovAction` "
        "containers are restored by the generic code (C01 main part); a DRep whose kind and credential disagree is accepted by "
        "the constructor and does not round-trip (drep_roundtrip_counterexample): such objects are compared with the model, not judged")
    n = ctx.budget(70, 1500)
    for cls in OBJ_CLASSES:
        for i in range(n if cls not in ("votes", "vps") else max(n // 2, 1)):
            dispatch(ctx, {"ext": EXT, "kind": "gov-obj", "cls": cls, "seed": f"{ctx.seed}/gov/{cls}/{i}"})
    m = ctx.budget(6, 120)
    for where in EMBED_WHERE:
        for i in range(m):
            dispatch(ctx, {"ext": EXT, "kind": "gov-embed", "where": where, "seed": f"{ctx.seed}/gov/embed/{where}/{i}"})
    for cls in MAL_CLASSES:
        for name in G.malformed(cls):
            dispatch(ctx, {"ext": EXT, "kind": "gov-mal", "cls": cls, "damage": name})
    f = ctx.budget(60, 3000)
    for cls in MAL_CLASSES:
        if cls != "poolid":
            for i in range(f):
                dispatch(ctx, {"ext": EXT, "kind": "gov-fuzz", "cls": cls, "seed": f"{ctx.seed}/gov/fuzz/{cls}/{i}"})


def replay_ext(ctx, case):
    c = {k: v for k, v in case.items() if k in ("ext", "kind", "cls", "seed", "where", "damage")}
    dispatch(ctx, c)
