"""C14 — coin selection returns a covering subset or fails explicitly.

T2 correspondence of the Lean model (Pyc/Model/CoinSel.lean, via the driver op `select`) with
`LargestFirstSelector.select` and `RandomImproveMultiAsset.select` (pycardano/coinselection.py), plus direct evaluation
of the property on the implementation against a dict-of-int oracle:

* selected UTxOs are objects of the pool, pairwise distinct;
* request (+ max fee when asked) <= sum of the selected, in ADA and in every asset;
* change == sum of the selected - request;
* len(selected) <= max_input_count for every limit >= 0 given, the inputs added by the min-change top-up included
  (`0` is a limit: no input may be selected; only `None` means "no limit");
* the pool is unchanged: the list, the identity of every entry and a structural image of everything its bytes are
  computed from on every case; the CBOR bytes themselves (`utxo.to_cbor()`, 3 ms per entry under typeguard) for pools
  of size <= 2 and every 8th case (every 4th in the thorough tier);
* explicit failures are truthful: largest-first `InsufficientUTxOBalanceException` only when the pool cannot cover the
  request (or request + minimum change in min-change mode); `MaxInputCountExceededException` only when more than the
  limit inputs were selected / are needed by the largest-first order; nothing but a selection error escapes.

Streams: (A) corpus of witnesses, (B) EVERY pool of size <= 4 over a 3-value output alphabet against requests derived
from the pool (exact / one above / min-change boundaries), (C) for the randomized strategy the whole tree of index
choices (depth <= 6, including index == len and index > len) over small pools, (D) random pools up to size 10 with
random requests, random index streams and the un-injected `random` path (seeded from ctx.rng), (E) points outside
the theorems' hypotheses (negative quantities, invalid protocol parameters): correspondence only.
"""
from __future__ import annotations

import itertools
import math
import random as _random
from fractions import Fraction
from unittest import mock

from pycardano import Address, TransactionId, TransactionInput, TransactionOutput, UTxO
from pycardano.backend.base import ChainContext, ProtocolParameters
from pycardano.coinselection import _FAKE_ADDR, LargestFirstSelector, RandomImproveMultiAsset
from pycardano.exception import (InputUTxODepletedException, InsufficientUTxOBalanceException,
                                 MaxInputCountExceededException, UTxOSelectionException)

from ref import cbor_ref as R
from vlib import values as V

KF_INDEX = "KF-C14-index"       # injected index == len(remaining): IndexError instead of a selection error

POOL_ADDR = Address.from_primitive("addr_test1vr2p8st5t5cxqglyjky7vk98k7jtfhdpvhl4e97cezuhn0cqcexl7")
POOL_ADDR_HEX = bytes(POOL_ADDR).hex()
FAKE_HEX = bytes(_FAKE_ADDR).hex()
P1, P2 = V.POLICIES[0].hex(), V.POLICIES[1].hex()
N1, N2 = V.NAMES[2].hex(), V.NAMES[3].hex()
ABSENT = (V.POLICIES[2].hex(), V.NAMES[5].hex())

# fee parameters as exact rationals (numerator, denominator)
PARAM_SETS = [
    {"a": (44, 1), "b": (155381, 1), "price_step": (721, 10 ** 7), "price_mem": (577, 10 ** 4),
     "max_tx_size": 16384, "max_steps": 10 ** 10, "max_mem": 10 ** 7, "ref": None},              # max fee 2174277
    {"a": (0, 1), "b": (0, 1), "price_step": (0, 1), "price_mem": (0, 1),
     "max_tx_size": 16384, "max_steps": 0, "max_mem": 0, "ref": None},                              # max fee 0
    {"a": (1, 3), "b": (7, 2), "price_step": (1, 7), "price_mem": (2, 3),
     "max_tx_size": 100, "max_steps": 10, "max_mem": 10, "ref": None},                              # ceilings: 47
    {"a": (44, 1), "b": (155381, 1), "price_step": (0, 1), "price_mem": (0, 1),
     "max_tx_size": 1000, "max_steps": 0, "max_mem": 0,
     "ref": {"base": (15, 1), "range": 25600, "mult": (6, 5), "max": 200000}},                      # 199381
]
BAD_PARAMS = dict(PARAM_SETS[3], ref={"base": (15, 1), "range": 25600, "mult": (6, 5), "max": -1})  # ValueError
CPBS = [4310, 0, 4310, 1000, 34482]


# ---------------------------------------------------------------------------------------------------------------
# implementation objects
def frac(p):
    return p[0] if p[1] == 1 else Fraction(p[0], p[1])


class StubContext(ChainContext):
    """minimal chain context: coin selection reads nothing but protocol_param"""

    def __init__(self, params, cpb):
        r = params["ref"]
        # frame parameters (the selectors must not depend on them): varied with the parameter set, see vlib/scenario.py
        import hashlib, json as _json
        hb = hashlib.blake2b(_json.dumps([params, cpb], sort_keys=True, default=str).encode(), digest_size=4).digest()
        frame_min_utxo = [1000000, 0, 1, 4310, 34482, 65535, 65536, 999978, 2 ** 32, 1000000, 5000000][hb[0] % 11]
        frame_word = [34482, 0, 1, 4310, 8620, 2 ** 20][hb[1] % 6]
        self._pp = ProtocolParameters(
            min_fee_constant=frac(params["b"]), min_fee_coefficient=frac(params["a"]), max_block_size=73728,
            max_tx_size=params["max_tx_size"], max_block_header_size=1100, key_deposit=2000000,
            pool_deposit=500000000, pool_influence=Fraction(3, 10), monetary_expansion=Fraction(3, 1000),
            treasury_expansion=Fraction(1, 5), decentralization_param=Fraction(0), extra_entropy="",
            protocol_major_version=9, protocol_minor_version=0, min_utxo=frame_min_utxo, min_pool_cost=340000000,
            price_mem=frac(params["price_mem"]), price_step=frac(params["price_step"]),
            max_tx_ex_mem=params["max_mem"], max_tx_ex_steps=params["max_steps"], max_block_ex_mem=50000000,
            max_block_ex_steps=40000000000, max_val_size=5000, collateral_percent=150, max_collateral_inputs=3,
            coins_per_utxo_word=frame_word, coins_per_utxo_byte=cpb, cost_models={},
            maximum_reference_scripts_size=None if r is None else {"bytes": r["max"]},
            min_fee_reference_scripts=None if r is None else {"base": frac(r["base"]), "range": r["range"],
                                                              "multiplier": frac(r["mult"])})

    @property
    def protocol_param(self):
        return self._pp


def build_pool(case):
    return [UTxO(TransactionInput(TransactionId(bytes.fromhex(u["txid"])), u["index"]),
                 TransactionOutput(POOL_ADDR, V.load_value(u["amount"]))) for u in case["pool"]]


def build_outputs(case):
    return [TransactionOutput(POOL_ADDR, V.load_value(a)) for a in case["outputs"]]


class Tape:
    """injected `random_generator`: hands out the given indices, remembers whether it ran dry"""

    def __init__(self, xs):
        self.xs, self.pos, self.dry = list(xs), 0, False

    def __iter__(self):
        return self

    def __next__(self):
        if self.pos < len(self.xs):
            self.pos += 1
            return self.xs[self.pos - 1]
        self.dry = True
        raise StopIteration


def err_kind(e):
    if isinstance(e, InsufficientUTxOBalanceException):
        return "insufficient"
    if isinstance(e, MaxInputCountExceededException):
        return "maxInputs"
    if isinstance(e, InputUTxODepletedException):
        return "depleted"
    if isinstance(e, UTxOSelectionException):
        return "selection"
    return "crash"


# ---- observing sub-classes (behaviour untouched: every override delegates to the original method) -----------------
class LFProbe(LargestFirstSelector):
    def __init__(self):
        self.depth, self.calls = -1, []

    def select(self, utxos, outputs, context, max_input_count=None, include_max_fee=True, respect_min_utxo=True):
        self.depth += 1
        rec = {"depth": self.depth, "limit": max_input_count, "returned": None}
        self.calls.append(rec)
        try:
            r = super().select(utxos, outputs, context, max_input_count, include_max_fee, respect_min_utxo)
            rec["returned"] = len(r[0])
            return r
        finally:
            self.depth -= 1


class RIProbe(RandomImproveMultiAsset):
    def __init__(self, gen=None):
        super().__init__(gen)
        self.depth, self.calls, self.lists, self.draw_lens = -1, [], {}, []

    def select(self, utxos, outputs, context, max_input_count=None, include_max_fee=True, respect_min_utxo=True):
        self.depth += 1
        rec = {"depth": self.depth, "limit": max_input_count, "returned": None}
        self.calls.append(rec)
        try:
            r = super().select(utxos, outputs, context, max_input_count, include_max_fee, respect_min_utxo)
            rec["returned"] = len(r[0])
            return r
        finally:
            self.depth -= 1

    def _random_select_subset(self, amount, remaining, selected, selected_amount):
        self.lists[self.depth] = selected
        return super()._random_select_subset(amount, remaining, selected, selected_amount)

    def _get_next_random(self, utxos):
        self.draw_lens.append(len(utxos))
        return super()._get_next_random(utxos)

    def _improve(self, selected, selected_amount, remaining, ideal, upper_bound, max_input_count=None):
        self.lists.setdefault(self.depth, selected)
        return super()._improve(selected, selected_amount, remaining, ideal, upper_bound, max_input_count)


def run_impl(case, probe=False, full_snap=False):
    """runs the implementation on fresh objects; returns (result, info)"""
    pool, outputs = build_pool(case), build_outputs(case)
    context = StubContext(case["params"], case["cpb"])
    def snapshot():
        # structural image of everything the bytes are computed from (cheap, every case) ...
        st = [(id(u), id(u.input), id(u.output), bytes(u.input.transaction_id.payload), u.input.index,
               id(u.output.address), bytes(u.output.address), V.dump_value(u.output.amount), u.output.datum_hash,
               u.output.datum, u.output.script, u.output.post_alonzo) for u in pool]
        if not full_snap:
            return st, None
        try:        # ... and the CBOR bytes themselves (3 ms per entry under typeguard: small pools and a sample)
            return st, [u.to_cbor() for u in pool]
        except Exception:     # to_cbor validates: entries with negative quantities (outside the domain) have no bytes
            return st, None
    snap = snapshot()
    ids = [id(u) for u in pool]
    tape, draws = None, []
    if case["selector"] == "lf":
        sel = LFProbe() if probe else LargestFirstSelector()
    else:
        if case["stream"] is not None:
            tape = Tape(case["stream"])
            sel = RIProbe(tape) if probe else RandomImproveMultiAsset(tape)
        else:
            sel = RIProbe() if probe else RandomImproveMultiAsset()
    info = {"probe": sel if probe else None, "tape": tape}

    def go():
        try:
            s, ch = sel.select(pool, outputs, context, case["limit"], case["fee"], case["min"])
            return {"sel": [[bytes(u.input.transaction_id.payload).hex(), u.input.index] for u in s],
                    "change": V.dump_value(ch)}, s
        except Exception as e:  # mapped to the small enum; `crash` = anything that is not a selection error
            info["exc"] = type(e).__name__
            return {"err": err_kind(e)}, None

    if case["selector"] == "ri" and case["stream"] is None:
        _random.seed(case["seed"])
        orig = _random.randint

        def rec(a, b):
            v = orig(a, b)
            draws.append(v)
            return v
        with mock.patch.object(_random, "randint", rec):     # records the draws, delegates to the real generator
            res, objs = go()
    else:
        res, objs = go()
    info["draws"] = draws
    info["from_pool"] = objs is None or all(any(u is p for p in pool) for u in objs)
    info["pool_same"] = (len(pool) == len(ids) and [id(u) for u in pool] == ids
                         and snapshot() == snap)
    return res, info


# ---------------------------------------------------------------------------------------------------------------
# oracle: integers only
def o_fee(params):
    def cm(n, r):
        return math.ceil(Fraction(n * r[0], r[1]))
    return (cm(params["max_tx_size"], params["a"]) + cm(1, params["b"]) + cm(params["max_steps"], params["price_step"])
            + cm(params["max_mem"], params["price_mem"]))


def o_sum(values):
    coin, assets = 0, {}
    for c, a in values:
        coin += c
        for k, q in a.items():
            assets[k] = assets.get(k, 0) + q
    return coin, {k: q for k, q in assets.items() if q != 0}


def o_covers(req, have):
    return req[0] <= have[0] and all(q <= have[1].get(k, 0) for k, q in req[1].items()) \
        and all(0 <= q for k, q in have[1].items() if k not in req[1])


def o_sub(a, b):
    coin = a[0] - b[0]
    assets = dict(a[1])
    for k, q in b[1].items():
        assets[k] = assets.get(k, 0) - q
    return coin, {k: q for k, q in assets.items() if q != 0}


def o_min_change(cpb, change):
    """(160 + size of the post-Alonzo output map {0: address, 1: value}) * coins_per_utxo_byte, independent encoder;
    a coin of 0 is sized as 1 ADA (utils.min_lovelace_post_alonzo)"""
    coin = change[0] if change[0] != 0 else 1000000
    pol = {}
    for (p, n), q in change[1].items():
        pol.setdefault(bytes.fromhex(p), []).append((bytes.fromhex(n), q))
    val = coin if not pol else [coin, R.sorted_map([(p, R.sorted_map(a)) for p, a in pol.items()])]
    return (160 + len(R.enc(R.Map([(0, bytes.fromhex(FAKE_HEX)), (1, val)])))) * cpb


def lf_reference(pool, req, limit, respect_min, cpb):
    """largest-first in oracle terms (component-wise cover on integers); limit=None: unbounded, any integer
    (0 included) is a limit; the top-up gets the remaining budget.
    returns dict(status, n1, n, topup)"""
    avail = sorted(range(len(pool)), key=lambda i: pool[i][0])          # stable ascending; taken from the end

    def phase(avail, req, lim):
        sel = []
        while not o_covers(req, o_sum([pool[i] for i in sel])):
            if not avail:
                return "insufficient", sel
            sel.append(avail.pop())
            if lim is not None and len(sel) > lim:
                return "maxInputs", sel
        return "ok", sel
    st, sel = phase(avail, req, limit)
    out = {"status": st, "n1": len(sel), "n": len(sel), "topup": False, "min_change": None}
    if st != "ok" or not respect_min:
        return out
    change = o_sub(o_sum([pool[i] for i in sel]), req)
    mc = o_min_change(cpb, change)
    out["min_change"] = mc
    coin = change[0]
    if coin < mc:
        out["topup"] = True
        lim2 = (limit - len(sel)) if limit is not None else None
        st2, sel2 = phase(avail, (mc - coin, {}), lim2)
        out["status"], out["n"] = st2, len(sel) + len(sel2)
    return out


# ---------------------------------------------------------------------------------------------------------------
def driver_request(case, stream):
    def out(a):
        return {"addr": POOL_ADDR_HEX, "amount": a, "post_alonzo": False}
    p = case["params"]

    def rat(x):
        return [str(x[0]), str(x[1])]
    r = p["ref"]
    return {"op": "select", "selector": case["selector"],
            "pool": [{"txid": u["txid"], "index": str(u["index"]), "out": out(u["amount"])} for u in case["pool"]],
            "outputs": [out(a) for a in case["outputs"]],
            "params": {"a": rat(p["a"]), "b": rat(p["b"]), "price_step": rat(p["price_step"]),
                       "price_mem": rat(p["price_mem"]), "max_tx_size": str(p["max_tx_size"]),
                       "max_steps": str(p["max_steps"]), "max_mem": str(p["max_mem"]),
                       "ref": None if r is None else {"base": rat(r["base"]), "range": str(r["range"]),
                                                      "mult": rat(r["mult"]), "max": str(r["max"])}},
            "cpb": str(case["cpb"]), "fake": FAKE_HEX,
            "limit": None if case["limit"] is None else str(case["limit"]),
            "include_max_fee": case["fee"], "respect_min_utxo": case["min"],
            "stream": [str(i) for i in (stream or [])]}


def canon_result(r):
    if "err" in r:
        return r
    return {"sel": [[t, int(i)] for t, i in r["sel"]], "change": V.canon_value(r["change"])}


def in_domain(case):
    """hypotheses of the C14 theorems: non-negative pool and request quantities, valid protocol parameters,
    pairwise distinct inputs, natural indices"""
    def nonneg(v):
        return int(v["coin"]) >= 0 and all(int(q) >= 0 for _, a in v["ma"] for _, q in a)
    refs = [(u["txid"], u["index"]) for u in case["pool"]]
    r = case["params"]["ref"]
    return (all(nonneg(u["amount"]) for u in case["pool"]) and all(nonneg(a) for a in case["outputs"])
            and len(set(refs)) == len(refs) and (r is None or r["max"] >= 0))


def check_select(ctx, case):
    """case = {kind: select, selector, pool, outputs, params, cpb, limit, fee, min, stream | seed}; returns info"""
    full = len(case["pool"]) <= 2 or ctx.evals % (4 if ctx.thorough else 8) == 0
    res, info = run_impl(case, full_snap=full)
    if full:
        ctx.count("pool-snapshot:cbor-bytes")
    sname = case["selector"]
    ctx.count("sel:" + sname)
    ctx.count(f"pool-size:{len(case['pool'])}")
    ctx.count("result:" + (res.get("err") or "ok"))
    stream = case["stream"] if case["stream"] is not None else info["draws"]
    if sname == "ri":
        ctx.count("ri:injected" if case["stream"] is not None else "ri:random-module")

    # ---- (a) correspondence with the Lean model
    if ctx.have_driver():
        m = ctx.driver().ok(driver_request(case, stream))
        ctx.traces += 1
        if canon_result(m) != canon_result(res):
            ctx.diff("select", case, m, res)

    # ---- (b) the property itself, on the implementation
    pool_c = [V.content_value(u["amount"]) for u in case["pool"]]
    req_parts = [V.content_value(a) for a in case["outputs"]]
    n_assets = len({k for _, a in req_parts for k in a}) + (1 if any(c for c, _ in req_parts) else 0)
    ctx.count(f"request-assets:{min(n_assets, 5)}")
    limit = case["limit"]
    if not info["pool_same"]:
        ctx.violation("select modified the pool (list or an entry's bytes changed)", case, "pool unchanged", res)
    if not in_domain(case):
        ctx.skipped += 1
        ctx.count("outside-hypotheses")
        ctx.case(case)
        return res, info
    fee = o_fee(case["params"]) if case["fee"] else 0
    req = o_sum([(fee, {})] + req_parts)
    total_pool = o_sum(pool_c)
    by_ref = {(u["txid"], u["index"]): c for u, c in zip(case["pool"], pool_c)}
    probe = None

    def probed():
        nonlocal probe
        if probe is None:
            r2, i2 = run_impl(case, probe=True)
            if canon_result(r2) != canon_result(res):
                raise RuntimeError("observing sub-class changed the behaviour")
            probe = i2
        return probe

    if "err" not in res:
        refs = [(t, i) for t, i in res["sel"]]
        if not info["from_pool"] or any(r not in by_ref for r in refs):
            ctx.violation("a selected UTxO is not an entry of the pool", case, "subset of the pool", res)
        elif len(set(refs)) != len(refs):
            ctx.violation("the same UTxO is selected twice", case, "distinct inputs", res)
        else:
            have = o_sum([by_ref[r] for r in refs])
            if not o_covers(req, have):
                ctx.violation("selected inputs do not cover the request" + (" plus the maximum fee" if case["fee"] else ""),
                              case, {"coin": req[0], "assets": {f"{p}.{n}": q for (p, n), q in req[1].items()}}, res)
            exp_change = o_sub(have, req)
            if V.content_value(res["change"]) != exp_change:
                ctx.violation("change is not (sum of selected) - request", case,
                              {"coin": exp_change[0], "assets": {f"{p}.{n}": q for (p, n), q in exp_change[1].items()}},
                              res["change"])
            if limit is not None and limit >= 0:
                # judged strictly for every limit given, 0 included ("no input may be selected"); no tolerance
                ctx.count("limit:zero" if limit == 0 else "limit:positive")
                if len(refs) == limit:
                    ctx.count("limit:reached-exactly")
                if len(refs) > limit:
                    ctx.violation(f"{len(refs)} inputs returned for max_input_count={limit}", case,
                                  f"at most {limit} inputs or MaxInputCountExceededException", res)
    else:
        kind = res["err"]
        if kind == "crash":
            fid = None
            if sname == "ri" and case["stream"] is not None and info.get("exc") == "IndexError":
                pr = probed()
                t = pr["tape"]
                if t.pos > 0 and pr["probe"].draw_lens and t.xs[t.pos - 1] == pr["probe"].draw_lens[-1]:
                    fid = KF_INDEX
                    ctx.count("crash:index-eq-len")
            ctx.violation(f"{info.get('exc')} escapes select (not a selection error)", case,
                          "a UTxOSelectionException or a result", res, finding=fid)
        if sname == "lf":
            if kind == "insufficient" and o_covers(req, total_pool):
                ref = lf_reference(pool_c, req, None, case["min"], case["cpb"])
                genuine = case["min"] and ref["min_change"] is not None and total_pool[0] < req[0] + ref["min_change"]
                if not genuine:
                    ctx.violation("largest-first reports insufficient balance although the pool covers the request"
                                  + (" and the minimum change" if case["min"] else ""), case,
                                  {"pool_coin": total_pool[0], "request_coin": req[0], "min_change": ref["min_change"]}, res)
            if kind == "maxInputs":
                ref = lf_reference(pool_c, req, None, case["min"], case["cpb"])
                if limit is None or (ref["status"] == "ok" and ref["n"] <= limit):
                    ctx.violation("largest-first raises MaxInputCountExceededException although the largest "
                                  f"{ref['n']} inputs suffice for max_input_count={limit}", case,
                                  {"inputs_needed": ref["n"]}, res)
            if kind in ("depleted", "selection"):
                ctx.violation(f"largest-first raises an error it does not declare: {kind}", case, None, res)
        else:
            if kind == "maxInputs":
                pr = probed()["probe"]
                total_sel = sum(len(l) for l in pr.lists.values())
                if limit is None or total_sel <= limit:
                    ctx.violation(f"MaxInputCountExceededException raised with {total_sel} inputs selected for "
                                  f"max_input_count={limit}", case, f"more than {limit} inputs selected", res)
            if kind == "insufficient":
                ctx.violation("random-improve raises InsufficientUTxOBalanceException (never raised by its code)",
                              case, None, res)
            if kind == "depleted" and o_covers(req, total_pool):
                # every input was consumed although the pool covers the request: only the min-change top-up may do that
                if not (case["min"] and any(c["depth"] == 1 for c in probed()["probe"].calls)):
                    ctx.violation("random-improve reports depleted inputs although the pool covers the request",
                                  case, {"pool_coin": total_pool[0], "request_coin": req[0]}, res)
    # distribution
    if case["min"]:
        if sname == "lf":
            ref = lf_reference(pool_c, req, limit, True, case["cpb"])
            if ref["topup"]:
                ctx.count("topup:taken")
                if limit is not None and ref["n1"] == limit:
                    ctx.count("topup:remaining-budget-0")      # first phase ended exactly at the limit
        elif "err" not in res or res["err"] != "crash":
            nested = [c for c in probed()["probe"].calls if c["depth"] == 1]
            if nested:
                ctx.count("topup:taken")
                if nested[0]["limit"] == 0:
                    ctx.count("topup:remaining-budget-0")
    ctx.case(case)
    return res, info


# ---------------------------------------------------------------------------------------------------------------
# generators
def vj(coin, assets=None):
    pol = {}
    for (p, n), q in (assets or {}).items():
        pol.setdefault(p, []).append([n, str(q)])
    return {"coin": str(coin), "ma": [[p, a] for p, a in pol.items()]}


def mk_pool(amounts):
    return [{"txid": bytes([i + 1]).hex() * 32, "index": i % 3, "amount": a} for i, a in enumerate(amounts)]


ALPHABET = [vj(1_500_000), vj(4_000_000), vj(2_000_000, {(P1, N1): 10})]   # ADA small, ADA large, token-carrying


def base_case(selector, pool, outputs, params, cpb, limit, fee, mn, stream=None, seed=0):
    return {"kind": "select", "selector": selector, "pool": pool, "outputs": outputs, "params": params, "cpb": cpb,
            "limit": limit, "fee": fee, "min": mn, "stream": stream, "seed": seed}


def derived_requests(pool_amounts, params, cpb, fee_on):
    """requests aimed at the pool: nothing, exact total, one above, first entry, token exact / one above / absent,
    several outputs with up to 4 assets, change exactly at / one below the minimum"""
    coin, assets = o_sum([V.content_value(a) for a in pool_amounts])
    fee = o_fee(params) if fee_on else 0
    exact = max(coin - fee, 0)
    mc = o_min_change(cpb, (1_000_000, {}))
    tok = dict(assets)
    first = V.content_value(pool_amounts[0])[0] if pool_amounts else 1
    k = next(iter(tok), ABSENT)
    reqs = [
        [],
        [vj(exact)],
        [vj(exact + 1)],
        [vj(max(first - fee, 1))],
        [vj(1_000_000, {k: tok.get(k, 1)})],
        [vj(1_000_000, {k: tok.get(k, 0) + 1})],
        [vj(1_200_000, {ABSENT: 1})],
        [vj(700_000, {k: max(tok.get(k, 2) // 2, 1)}), vj(600_000, {(P2, N2): 0}), vj(0, {k: 1})],
        [vj(max(exact - mc, 0))],
        [vj(max(exact - mc + 1, 0))],
        [vj(max(exact - 1_000_000, 0), tok)],
    ]
    return reqs


def rand_stream(rng, n, bad=0.0):
    out = []
    for _ in range(rng.randint(1, 3 * n + 4)):
        if rng.random() < bad:
            out.append(rng.choice([n, n + 1, rng.randint(0, n + 2)]))
        else:
            out.append(rng.randint(0, max(n - 1, 0)) if rng.random() < 0.5 else 0 if rng.random() < 0.5 else rng.randint(0, max(n // 2, 0)))
    return out


COINS = [0, 1, 500_000, 978_370, 1_000_000, 1_000_000, 1_500_000, 2_000_000, 2_000_000, 3_000_000, 5_000_000,
         10_000_000, 2 ** 32, 2 ** 32 + 1]
TOKENS = [(P1, N1), (P1, N2), (P2, N1), (P2, N2)]


def rand_amount(rng, stored_zero=False):
    a = {}
    if rng.random() < 0.45:
        for k in rng.sample(TOKENS, rng.randint(1, 3)):
            a[k] = rng.choice([1, 2, 5, 10, 10, 100, 2 ** 63])
    v = vj(rng.choice(COINS), a)
    if stored_zero and a and rng.random() < 0.3:
        v["ma"][0][1].append([V.NAMES[4].hex(), "0"])
    return v


def rand_request(rng, pool_amounts, params, fee_on):
    coin, assets = o_sum([V.content_value(a) for a in pool_amounts])
    fee = o_fee(params) if fee_on else 0
    n_out = rng.randint(0, 3)
    outs = []
    toks = list(assets) + [ABSENT]
    for _ in range(n_out):
        c = rng.choice([0, 1, 1_000_000, max(coin - fee, 0), max(coin - fee, 0) + 1, max((coin - fee) // 2, 0),
                        max(coin - fee - 978_370, 0), rng.randint(0, max(coin, 1))])
        a = {}
        for k in rng.sample(toks, rng.randint(0, min(3, len(toks)))):
            have = assets.get(k, 0)
            a[k] = rng.choice([1, have, have + 1, max(have // 2, 1), max(have - 1, 1)]) or 1
        outs.append(vj(c, a))
    return outs


def rand_flags(rng):
    return (rng.choice([None, None, None, 0, 1, 1, 2, 2, 3, 4]), rng.random() < 0.5, rng.random() < 0.6)


# ---------------------------------------------------------------------------------------------------------------
def explore_streams(ctx, case, n, max_depth, node_budget):
    """the whole tree of index choices of the randomized strategy for one input: a prefix is extended by every index
    0..n+1 (n = pool size: n hits `i == len`, n+1 hits `i > len` at the first draw) as long as the run consumed it all"""
    stack, nodes = [[i] for i in range(n + 2)][::-1], 0
    while stack and nodes < node_budget:
        pre = stack.pop()
        c = dict(case, stream=pre)
        res, info = check_select(ctx, c)
        nodes += 1
        t = info["tape"]
        if t is not None and t.dry and len(pre) < max_depth and res.get("err") != "crash":
            ext = [pre + [i] for i in range(n + 2)]
            if len(stack) + len(ext) > 4 * node_budget:
                ext = ctx.rng.sample(ext, 2)
            stack.extend(ext[::-1])
        elif t is not None and not t.dry:
            ctx.count("ri:tree-leaf")
    if stack:
        ctx.count("ri:tree-truncated")
    return nodes


def corpus():
    p0 = PARAM_SETS[0]
    c = []
    # the limit and the min-change top-up (former KF-C14-limit): limit 1, the first phase takes exactly one input, its
    # change is below the minimum: the top-up runs with the remaining budget 0 and must refuse the second input
    # (MaxInputCountExceededException; the unrepaired code returned 2 inputs); limit 2: the 2 inputs are returned
    pool = mk_pool([vj(3_000_000), vj(2_000_000)])
    c.append(base_case("lf", pool, [vj(2_900_000)], p0, 4310, 1, False, True))
    c.append(base_case("ri", pool, [vj(2_900_000)], p0, 4310, 1, False, True, stream=[0, 0, 0, 0]))
    c.append(base_case("lf", pool, [vj(2_900_000)], p0, 4310, 2, False, True))
    c.append(base_case("ri", pool, [vj(2_900_000)], p0, 4310, 2, False, True, stream=[0, 0, 0, 0]))
    # the top-up needs two more inputs: refused for the limits 1 and 2 (3 inputs for limit 1 on the unrepaired code)
    pool = mk_pool([vj(3_000_000), vj(500_000), vj(500_000)])
    for lim in (1, 2, 3):
        c.append(base_case("lf", pool, [vj(2_900_000)], p0, 4310, lim, False, True))
        c.append(base_case("ri", pool, [vj(2_900_000)], p0, 4310, lim, False, True, stream=[0, 0, 0, 0, 0]))
    # the limit and _improve (former KF-C14-limit): limit 1, request 1 ADA, ideal 2 ADA: the improvement step must return
    # without appending (1 input; the unrepaired code tested `>` before appending and returned 2); limit 2: 2 inputs
    pool = mk_pool([vj(1_000_000), vj(1_000_000), vj(1_000_000)])
    c.append(base_case("ri", pool, [vj(1_000_000)], p0, 0, 1, False, False, stream=[0, 0, 0]))
    c.append(base_case("ri", pool, [vj(1_000_000)], p0, 0, 2, False, False, stream=[0, 0, 0]))
    # max_input_count=0 is a limit ("no input may be selected"), not "no limit": empty request -> empty selection;
    # a request that needs an input -> MaxInputCountExceededException (empty pool: insufficient / depleted come first);
    # empty request in min-change mode -> the top-up is refused
    for sel, st in (("lf", None), ("ri", [0, 0, 0])):
        c.append(base_case(sel, pool, [], p0, 0, 0, False, False, stream=st))
        c.append(base_case(sel, pool, [vj(1_000_000)], p0, 0, 0, False, False, stream=st))
        c.append(base_case(sel, pool, [vj(2_500_000)], p0, 4310, 0, True, True, stream=st))
        c.append(base_case(sel, [], [vj(1_000_000)], p0, 0, 0, False, False, stream=st))
        c.append(base_case(sel, pool, [], p0, 4310, 0, False, True, stream=st))
    # KF-C14-index: injected index == len(remaining)
    c.append(base_case("ri", pool, [vj(1_000_000)], p0, 0, None, False, False, stream=[3]))
    c.append(base_case("ri", pool, [vj(1_000_000)], p0, 0, None, False, False, stream=[4]))
    # change of exactly 0 lovelace with tokens in it (min_lovelace_post_alonzo sizes it as 1 ADA, top-up of the full minimum)
    pool = mk_pool([vj(2_000_000, {(P1, N1): 10}), vj(1_500_000)])
    c.append(base_case("lf", pool, [vj(2_000_000)], p0, 4310, None, False, True))
    c.append(base_case("lf", pool, [vj(2_000_000)], p0, 34482, None, False, True))
    return c


def run(ctx):
    ctx.rule = ("pools: every sequence of length 0..4 over {1.5 ADA, 4 ADA, 2 ADA + 10 tokens} (exhaustive) and random "
                "pools of 0..10 UTxOs (coins 0..2^32+1 with many ties, up to 3 of 4 assets, quantities to 2^63); "
                "requests derived from the pool: none, exact total, total+1, first entry, token exact/+1/absent, "
                "3 outputs with up to 4 assets and a zero quantity, change exactly at / one below the minimum, "
                "plus random requests of 0..3 outputs with 0..4 assets; limits None,0..4 (0 = no input may be selected); fee on/off over 4 "
                "exact-rational parameter sets; min-change on/off with coins_per_utxo_byte in {0,1000,4310,34482}; "
                "random-improve: the whole tree of index choices to depth 6 (indices 0..len+1) on pools of size <= 3, "
                "random index streams (25% with out-of-range entries) and the random-module path seeded from ctx.rng; "
                "multi-round pools (every entry ADA + 1..3 tokens, request about a third of the pool, small repeated indices); "
                "a case is non-trivial if it is a distinct (selector, pool, request, flags, stream)")
    ctx.assumptions = [
        "pool and request quantities are non-negative and inputs pairwise distinct (points outside: correspondence only)",
        "injected indices are natural numbers (negative ones are Python negative indexing, not modelled)",
        "fee parameters are exact rationals (ints / Fractions); float parameters are not modelled",
        "pool immutability: by construction in the pure model; on the implementation by structural snapshot of every "
        "entry on every case and CBOR byte snapshot on a sample (see histogram pool-snapshot:cbor-bytes)",
    ]
    ctx.extra["trusted"] = ["min_lovelace_post_alonzo / max_tx_fee are modelled by Pyc/Model/Output.lean (their own "
                            "properties are checked elsewhere); here they are compared through the selection results"]
    rng = ctx.rng
    for c in corpus():
        check_select(ctx, c)

    # ---- (B) exhaustive pools of size <= 4
    combos_lf = ctx.budget(2, 6)
    combos_ri = ctx.budget(1, 4)
    all_flags = [(l, f, m) for l in (None, 0, 1, 2, 3, 4) for f in (False, True) for m in (False, True)]
    for size in range(0, 5):
        for seq in itertools.product(range(3), repeat=size):
            amounts = [ALPHABET[i] for i in seq]
            pool = mk_pool(amounts)
            params = PARAM_SETS[rng.randrange(3)]
            cpb = rng.choice([4310, 4310, 0])
            for fee_on in (False, True):
                for outs in derived_requests(amounts, params, cpb, fee_on):
                    flags = [f for f in all_flags if f[1] == fee_on]
                    for (l, f, m) in rng.sample(flags, min(combos_lf, len(flags))):
                        check_select(ctx, base_case("lf", pool, outs, params, cpb, l, f, m))
                    for (l, f, m) in rng.sample(flags, min(combos_ri, len(flags))):
                        if rng.random() < 0.25:
                            check_select(ctx, base_case("ri", pool, outs, params, cpb, l, f, m, stream=None,
                                                        seed=rng.getrandbits(32)))
                        else:
                            check_select(ctx, base_case("ri", pool, outs, params, cpb, l, f, m,
                                                        stream=rand_stream(rng, size, bad=0.08)))
            if ctx.violations:
                return

    # ---- (C) all index choices over small pools
    trees = ctx.budget(18, 150)
    budget = ctx.budget(180, 2500)
    small = [seq for size in range(1, 4) for seq in itertools.product(range(3), repeat=size)]
    for _ in range(trees):
        seq = rng.choice(small)
        amounts = [ALPHABET[i] for i in seq]
        params, cpb = PARAM_SETS[rng.choice([1, 2])], rng.choice([4310, 0])
        fee_on = rng.random() < 0.3
        outs = rng.choice(derived_requests(amounts, params, cpb, fee_on)[1:])
        l, _, m = rand_flags(rng)
        n = explore_streams(ctx, base_case("ri", mk_pool(amounts), outs, params, cpb, l, fee_on, m), len(seq), 6, budget)
        ctx.count("ri:trees")
        ctx.count("ri:tree-nodes", n)
        if ctx.violations:
            return

    # ---- (D) random pools up to size 10
    for _ in range(ctx.budget(2500, 40000)):
        n = rng.choice([0, 1, 2, 3, 4, 5, 5, 6, 7, 8, 9, 10])
        amounts = [rand_amount(rng, stored_zero=True) for _ in range(n)]
        params = rng.choice(PARAM_SETS)
        cpb = rng.choice(CPBS)
        l, f, m = rand_flags(rng)
        outs = rand_request(rng, amounts, params, f) if rng.random() < 0.7 else rng.choice(derived_requests(amounts, params, cpb, f))
        pool = mk_pool(amounts)
        sel = rng.choice(["lf", "ri", "ri"])
        if sel == "lf":
            check_select(ctx, base_case("lf", pool, outs, params, cpb, l, f, m))
        elif rng.random() < 0.35:
            check_select(ctx, base_case("ri", pool, outs, params, cpb, l, f, m, stream=None, seed=rng.getrandbits(32)))
        else:
            check_select(ctx, base_case("ri", pool, outs, params, cpb, l, f, m, stream=rand_stream(rng, n, bad=0.25 if rng.random() < 0.25 else 0.0)))
        if ctx.violations:
            return

    # ---- (D2) several improvement rounds on one pool: every entry carries ADA and tokens in amounts comparable to the
    # request (about a third of the pool), so that each asset's round accepts entries and later rounds draw among the
    # same indices (repeated picks, stale `remaining`, bookkeeping across rounds)
    for _ in range(ctx.budget(700, 12000)):
        n = rng.randint(3, 7)
        toks = rng.sample(TOKENS, rng.choice([1, 1, 2, 3]))
        amounts = [vj(rng.choice([1_000_000, 1_500_000, 2_000_000, 3_000_000, 6_000_000]),
                      {t: rng.randint(1, 12) for t in toks if rng.random() < 0.8}) for _ in range(n)]
        coin, assets = o_sum([V.content_value(a) for a in amounts])
        req = vj(max(coin // rng.choice([3, 4, 5]), 1), {t: max(q // rng.choice([3, 4, 5]), 1) for t, q in assets.items() if q > 0})
        params, cpb = rng.choice(PARAM_SETS), rng.choice([0, 4310])
        l = rng.choice([None, None, None, n, n - 1])
        mn = rng.random() < 0.3
        pool = mk_pool(amounts)
        if rng.random() < 0.3:
            check_select(ctx, base_case("ri", pool, [req], params, cpb, l, False, mn, stream=None, seed=rng.getrandbits(32)))
        else:
            stream = [rng.choice([0, 0, 1, rng.randint(0, n - 1)]) for _ in range(rng.randint(4, 3 * n + 6))]
            check_select(ctx, base_case("ri", pool, [req], params, cpb, l, False, mn, stream=stream))
        ctx.count("ri:multi-round")
        if ctx.violations:
            return

    # ---- (E) outside the hypotheses: correspondence only
    for _ in range(ctx.budget(120, 3000)):
        n = rng.randint(1, 6)
        amounts = [rand_amount(rng) for _ in range(n)]
        kind = rng.choice(["neg-pool", "neg-request", "bad-params"])
        params, pool = rng.choice(PARAM_SETS), None
        outs = rand_request(rng, amounts, params, True)
        if kind == "neg-pool":
            i = rng.randrange(n)
            amounts[i] = vj(rng.choice([-1, 1_000_000, 3_000_000]), {rng.choice(TOKENS): rng.choice([-1, -5, -10])})
        elif kind == "neg-request":
            outs = outs + [vj(rng.choice([-1, 0, 1_000_000]), {rng.choice(TOKENS): rng.choice([-1, -5])})]
        elif kind == "bad-params":
            params = BAD_PARAMS
        pool = mk_pool(amounts)
        l, f, m = rand_flags(rng)
        if kind == "bad-params":
            f = True
        sel = rng.choice(["lf", "ri"])
        check_select(ctx, base_case(sel, pool, outs, params, rng.choice(CPBS), l, f, m,
                                    stream=rand_stream(rng, n) if sel == "ri" else None))
        ctx.count("outside:" + kind)


def replay(ctx, data):
    if "input" in data:
        check_select(ctx, data["input"])
    for d in data.get("correspondence", []):
        check_select(ctx, d["input"])
