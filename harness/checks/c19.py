"""C19 — CIP-8 signed messages verify iff untampered and bound to the signer.

(a) direct evaluation on pycardano: `verify(sign(m, k, attach, net))` = verified / original text / address derived
    from the key, with every expectation computed independently (pure-Python Ed25519 `ref/ed25519_ref.py`,
    `hashlib.blake2b(digest_size=28)`, CIP-19 header byte, envelope decoded and rebuilt with `ref/cbor_ref.py`);
    tampering — single-bit flips of the protected-header, payload and signature regions (located by decoding the
    envelope), of the key bytes, substitutions of payload / signature / address / key, transplants (the attacker's
    own valid signature under the victim's address), outright forgeries on the paths where the signature primitive
    raises — must never come back `verified=True`; flips of unsigned bytes may verify but only with the original
    text and address.
(b) correspondence with the Lean model (`Pyc/Model/Cip8.lean` through the driver): `cip8.sign.layout` must
    reproduce pycardano's output byte for byte once the harness supplies the signature it computed itself over the
    model's to-be-signed bytes; `cip8.verify.plan` names the (key, bytes, signature) triple that has to be checked,
    which is compared with the arguments pycardano actually hands to its signature primitive, and
    `cip8.verify.judge`, fed with the independent Ed25519 / BLAKE2b answers, must reach pycardano's verdict."""
from __future__ import annotations

import hashlib
import random

import cose.algorithms as _CA
from pycardano.cip import cip8 as C8
from pycardano.crypto import bip32 as _B32
from pycardano.crypto.bip32 import HDWallet
from pycardano.key import (PaymentExtendedSigningKey, PaymentSigningKey, StakeExtendedSigningKey, StakeSigningKey)
from pycardano.network import Network

from ref import cbor_ref as R
from ref import ed25519_ref as E

KINDS = {
    "PaymentSigningKey": (PaymentSigningKey, "payment", False),
    "StakeSigningKey": (StakeSigningKey, "stake", False),
    "PaymentExtendedSigningKey": (PaymentExtendedSigningKey, "payment", True),
    "StakeExtendedSigningKey": (StakeExtendedSigningKey, "stake", True),
}
NOTED = "KF-C19-envelope-reencoding"   # routed as a finding only if it is registered in known_findings.json

# ---- observation of what pycardano hands to its signature primitives (in-process, nothing under /repo changes) ------
CAP = []
_orig_eddsa = _CA.EdDSA.verify.__func__
_orig_b32 = _B32.BIP32ED25519PublicKey.verify


def _eddsa_verify(cls, key, data, signature):
    try:
        r = _orig_eddsa(cls, key, data, signature)
    except Exception:
        CAP.append(("cose", key.x, data, signature, "raise"))
        raise
    CAP.append(("cose", key.x, data, signature, bool(r)))
    return r


def _b32_verify(self, signature, message):
    try:
        r = _orig_b32(self, signature, message)
    except Exception:
        CAP.append(("bip32", self.public_key, message, signature, "raise"))
        raise
    CAP.append(("bip32", self.public_key, message, signature, True))
    return r


_CA.EdDSA.verify = classmethod(_eddsa_verify)
_B32.BIP32ED25519PublicKey.verify = _b32_verify


# ---- keys ----------------------------------------------------------------------------------------------------------------
def make_key(spec):
    """spec = {kind, seed (hex), how: raw|hd}; returns the pycardano key object and the independently derived facts"""
    cls, role, ext = KINDS[spec["kind"]]
    seed = bytes.fromhex(spec["seed"])
    if not ext:
        obj = cls(seed)
        a, _ = E.secret_expand(seed)
        return {"obj": obj, "role": role, "ext": False, "vk": E.public_from_scalar(a), "pk": E.public_from_scalar(a),
                "stored": b"", "sign": lambda msg: E.sign(seed, msg)}
    if spec.get("how") == "hd":
        hd = HDWallet.from_entropy(seed[:16].hex()).derive_from_path(
            f"m/1852'/1815'/{seed[16] % 3}'/{2 if role == 'stake' else seed[17] % 2}/{seed[18] % 5}")
        obj = cls.from_hdwallet(hd)
    else:
        h = hashlib.sha512(seed).digest()
        kl = bytearray(h[:32])
        kl[0] &= 0xF8
        kl[31] &= 0x1F
        kl[31] |= 0x40
        pub = E.public_from_scalar(int.from_bytes(kl, "little"))
        obj = cls(bytes(kl) + h[32:] + pub + hashlib.sha256(seed).digest())
    p = obj.payload
    kl, kr = int.from_bytes(p[:32], "little"), p[32:64]
    return {"obj": obj, "role": role, "ext": True, "vk": p[64:96], "pk": E.public_from_scalar(kl), "stored": p[64:],
            "sign": lambda msg: E.sign_expanded(kl, kr, msg)}


def h28(b):
    return hashlib.blake2b(b, digest_size=28).digest()


def address_of(role, net, vk):
    """CIP-19: enterprise address (type 6) of a payment key, reward address (type 14) of a stake key"""
    return bytes([(0x60 if role == "payment" else 0xE0) | net]) + h28(vk)


def phdr_bytes(address, kid):
    return R.enc(R.Map([(1, -8), ("address", address)] + ([(4, kid)] if kid is not None else [])))


def sig_structure(phdr, payload):
    return R.enc(["Signature1", phdr, b"", payload])


def envelope(phdr, payload, sig, uhdr=None):
    return R.enc([phdr, uhdr if uhdr is not None else R.Map([("hashed", False)]), payload, sig])


def cose_key(x):
    return R.enc(R.Map([(1, 1), (3, -8), (-1, 6), (-2, x)]))


def wire(env, key):
    """the object pycardano's `verify` takes"""
    return {"signature": env.hex(), "key": key.hex()} if key is not None else env.hex()


_VCACHE = {}


def ref_verify(ctx, pk, msg, sig):
    k = (pk, msg, sig)
    if k not in _VCACHE:
        if len(_VCACHE) > 20000:
            _VCACHE.clear()
        _VCACHE[k] = E.verify(pk, msg, sig)
        ctx.count("ref-ed25519-verifications")
    return _VCACHE[k]


# ---- running the implementation and the model --------------------------------------------------------------------------
def impl_verify(sm):
    CAP.clear()
    try:
        v = C8.verify(sm)
    except Exception as e:  # any exception = "does not report success"
        return {"accept": False, "raised": type(e).__name__}, list(CAP)
    ok = bool(v["verified"])
    return {"accept": ok, "raised": None, "verified": ok, "message": v["message"],
            "address": v["signing_address"].to_primitive().hex()}, list(CAP)


def model_verify(ctx, env, key):
    drv = ctx.driver()
    w = {"signature": env.hex(), "key": key.hex() if key is not None else None}
    plan = drv.ok({"op": "cip8.verify.plan", **w})
    if not plan["ok"]:
        return plan, {"accept": False, "raised": True}
    ok = ref_verify(ctx, bytes.fromhex(plan["sigKey"]), bytes.fromhex(plan["sigMsg"]), bytes.fromhex(plan["sigSig"]))
    j = drv.ok({"op": "cip8.verify.judge", **w, "sigok": ok, "h28": h28(bytes.fromhex(plan["vk"])).hex()})
    if j["raised"]:
        return plan, {"accept": False, "raised": True}
    return plan, {"accept": j["verified"], "raised": False, "verified": j["verified"], "message": j["message"],
                  "address": j["address"]["bytes"]}


def correspond(ctx, case, env, key, impl, cap, in_domain=True, kind="signed"):
    """model verdict / plan against pycardano's verdict / primitive arguments"""
    if not ctx.have_driver():
        return
    plan, mv = model_verify(ctx, env, key)
    ctx.traces += 1
    if not in_domain and not plan["ok"]:
        ctx.count("corr:outside-model-domain")
        return
    if mv["accept"] != impl["accept"]:
        ctx.diff("cip8.verify verdict", case, mv, impl)
        return
    if mv["accept"] and (bytes.fromhex(mv["message"]) != impl["message"].encode("utf-8") or mv["address"] != impl["address"]):
        ctx.diff("cip8.verify content", case, mv, impl)
        return
    ctx.count("corr:" + ("accept" if mv["accept"] else
                         ("model-" + ("raise" if mv["raised"] else "false") + "/impl-" + ("raise" if impl["raised"] else "false"))))
    if plan["ok"] and cap:
        how, pk, msg, sig, res = cap[-1]
        if how == "cose":
            got = (pk.hex(), msg.hex(), sig.hex() if isinstance(sig, bytes) else repr(sig))
            exp = (plan["sigKey"], plan["sigMsg"], plan["sigSig"])
        else:
            got = (pk.hex(), (sig + msg).hex())
            exp = (plan["sigKey"], plan["sigSig"] + plan["sigMsg"])
        if got != exp or (how == "bip32") != plan["bip32"]:
            ctx.diff("cip8.verify checked-triple", case, exp, got)
        else:
            ctx.count("corr:checked-triple-equal")
            # the trusted primitive against the independent implementation on the very triple
            r = ref_verify(ctx, bytes.fromhex(plan["sigKey"]), bytes.fromhex(plan["sigMsg"]), bytes.fromhex(plan["sigSig"]))
            if (res is True) != r:
                ctx.diff("signature primitive vs ref/ed25519_ref", case, r, res)
    elif plan["ok"]:
        ctx.count("corr:model-plan/impl-raised-before-primitive:" + kind)
    elif cap:
        ctx.count("corr:model-rejects/impl-reached-primitive:" + kind)


# ---- tampering -------------------------------------------------------------------------------------------------------------
def regions(env):
    """byte spans (head + content) of the four elements of the COSE_Sign1 array"""
    assert env[0] == 0x84
    spans, i = [], 1
    for _ in range(4):
        _, j = R.dec_prefix(env, i)
        spans.append((i, j))
        i = j
    assert i == len(env)
    return dict(zip(("phdr", "uhdr", "payload", "sig"), spans))


def flip(b, bit):
    x = bytearray(b)
    x[bit // 8] ^= 1 << (bit % 8)
    return bytes(x)


def apply_tamper(sd, t):
    """sd: signed-message facts of the victim; t: tamper spec. Returns (envelope bytes, key bytes or None, kind, strict)
    strict = the alteration touches signed content / the binding, so `verified=True` is a violation outright;
    otherwise success is tolerated only with the original text and address."""
    env, key = sd["env"], sd["key"]
    k = t["t"]
    if k == "flip":
        reg = next((n for n, (a, b) in sd["regions"].items() if a <= t["bit"] // 8 < b), "array-head")
        return flip(env, t["bit"]), key, "flip:" + reg, reg in ("phdr", "payload", "sig")
    if k == "keyflip":
        off = len(key) - 32      # the x value is the last item of the COSE key map
        inx = t["bit"] // 8 >= off
        return env, flip(key, t["bit"]), "keyflip:" + ("x" if inx else "other"), inx
    other = make_key(t["other"]) if "other" in t else None
    ph, pl, sg = sd["phdr"], sd["payload"], sd["sig"]
    attach = key is not None
    kid = None if attach else sd["vk"]
    if k == "payload":
        return envelope(ph, t["text"].encode("utf-8"), sg), key, "subst:payload", True
    if k == "sig-other-message":      # a genuine signature of the same key over another text
        s2 = sd["k"]["sign"](sig_structure(ph, t["text"].encode("utf-8")))
        return envelope(ph, pl, s2), key, "subst:signature-of-other-message", True
    if k == "sig-other-key":          # another key's genuine signature over the same to-be-signed bytes
        return envelope(ph, pl, other["sign"](sig_structure(ph, pl))), key, "subst:signature-by-other-key", True
    if k == "sig-length":
        return envelope(ph, pl, sg[: t["n"]] if t["n"] <= 64 else sg + bytes(t["n"] - 64)), key, "subst:signature-length", True
    if k == "address":                # another address in the protected header, rest as signed
        a2 = {"other-key": lambda: address_of(sd["k"]["role"], sd["net"], other["vk"]),
              "other-network": lambda: address_of(sd["k"]["role"], 1 - sd["net"], sd["vk"]),
              "other-role": lambda: address_of("stake" if sd["k"]["role"] == "payment" else "payment", sd["net"], sd["vk"]),
              "script": lambda: bytes([(0x70 if sd["k"]["role"] == "payment" else 0xF0) | sd["net"]]) + h28(sd["vk"]),
              "base": lambda: bytes([sd["net"]]) + h28(sd["vk"]) + h28(other["vk"])}[t["how"]]()
        return envelope(phdr_bytes(a2, kid), pl, sg), key, "subst:address-" + t["how"], True
    if k == "key":                    # another key: attached COSE key swapped / KID in the header swapped
        if attach:
            return env, cose_key(other["vk"]), "subst:attached-key", True
        return envelope(phdr_bytes(sd["address"], other["vk"]), pl, sg), key, "subst:header-key", True
    if k == "key-extended-form":      # the same public key followed by a chain code (64 bytes): BIP32 path of verify
        x = sd["vk"] + hashlib.sha256(sd["vk"]).digest()
        if attach:
            return env, cose_key(x), "subst:attached-key-64", True
        return envelope(phdr_bytes(sd["address"], x), pl, sg), key, "subst:header-key-64", True
    if k == "transplant":             # the attacker signs (validly, own key) a header that claims the victim's address
        ph2 = phdr_bytes(sd["address"], None if attach else other["vk"])
        pl2 = t["text"].encode("utf-8")
        s2 = other["sign"](sig_structure(ph2, pl2))
        return envelope(ph2, pl2, s2), (cose_key(other["vk"]) if attach else None), "transplant:victim-address", True
    if k == "transplant-role":        # attacker's key, attacker's hash, but claimed under the other address kind of the victim's network
        # (valid signature by `other` over a header naming the *victim's* credential in another address type)
        a2 = bytes([(0x70 if sd["k"]["role"] == "payment" else 0xF0) | sd["net"]]) + h28(sd["vk"])
        ph2 = phdr_bytes(a2, None if attach else other["vk"])
        s2 = other["sign"](sig_structure(ph2, pl))
        return envelope(ph2, pl, s2), (cose_key(other["vk"]) if attach else None), "transplant:victim-credential-as-script", True
    if k == "transplant-base":        # the attacker signs (validly, own key) a header claiming a BASE address whose payment
        # credential is the victim's and whose stake credential is the attacker's own
        a2 = bytes([sd["net"]]) + h28(sd["vk"]) + h28(other["vk"])
        ph2 = phdr_bytes(a2, None if attach else other["vk"])
        s2 = other["sign"](sig_structure(ph2, pl))
        return envelope(ph2, pl, s2), (cose_key(other["vk"]) if attach else None), "transplant:base-address-victim-payment", True
    if k == "transplant-kid-and-key": # attached-key form whose protected header ALSO names a key: the victim's kid and address in
        # the header, the attacker's COSE key attached, signed (validly) by the attacker
        ph2 = phdr_bytes(sd["address"], sd["vk"])
        s2 = other["sign"](sig_structure(ph2, pl))
        return envelope(ph2, pl, s2), cose_key(other["vk"]), "transplant:victim-kid-attacker-key", True
    if k == "forge":                  # no valid signature at all; key of a length on which the primitive raises
        x = bytes.fromhex(t["x"])
        a2 = bytes([(0x60 if sd["k"]["role"] == "payment" else 0xE0) | sd["net"]]) + h28(x)
        ph2 = phdr_bytes(a2, None if attach else x)
        s2 = {"zero": bytes(64), "victim": sg, "short": sg[:40]}[t["sig"]]
        return envelope(ph2, pl, s2), (cose_key(x) if attach else None), f"forge:key{len(x)}-sig-{t['sig']}", True
    if k == "reencode":               # same content, other bytes (noted, not asserted)
        how = t["how"]
        if how == "trailing":
            return env + b"\x00", key, "reencode:trailing", False
        if how == "label-wide":       # label 1 as 18 01
            assert ph[1:2] == b"\x01"
            return envelope(ph[:1] + b"\x18\x01" + ph[2:], pl, sg), key, "reencode:label-wide", False
        if how == "phdr-trailing":
            return envelope(ph + b"\x00", pl, sg), key, "reencode:phdr-trailing", False
        if how == "payload-chunked":
            h = len(pl) // 2
            e = R.head(4, 4) + R.enc(ph) + R.enc(R.Map([("hashed", False)])) + R.enc(R.Chunked([pl[:h], pl[h:]])) + R.enc(sg)
            return e, key, "reencode:payload-chunked", False
        if how == "extra-element":
            return R.enc([ph, R.Map([("hashed", False)]), pl, sg, 0]), key, "reencode:extra-element", False
        if how == "array-indefinite":
            return b"\x9f" + env[1:] + b"\xff", key, "reencode:array-indefinite", False
        if how == "phdr-map-indefinite":      # outside the model's domain
            return envelope(b"\xbf" + ph[1:] + b"\xff", pl, sg), key, "reencode:phdr-map-indefinite", False
        if how == "label-alias":              # outside the model's domain
            return envelope(ph[:1] + R.enc("alg") + R.enc("EdDSA") + ph[3:], pl, sg), key, "reencode:label-alias", False
    raise ValueError(t)


OUT_OF_DOMAIN = {"reencode:phdr-map-indefinite", "reencode:label-alias"}


def check_case(ctx, case):
    """case = {key: spec, attach, net, text, tampers: [spec...]}"""
    k = make_key(case["key"])
    attach, net, text = case["attach"], case["net"], case["text"]
    payload = text.encode("utf-8")
    ctx.count("kind:" + case["key"]["kind"] + ("/hd" if case["key"].get("how") == "hd" else ""))
    ctx.count(f"attach:{attach}")
    ctx.count(f"net:{net}")
    if k["ext"] and k["pk"] != k["vk"]:
        ctx.skipped += 1          # key object whose stored public key is not its private part's (outside KeyOk)
        return
    base = {kk: case[kk] for kk in ("key", "attach", "net", "text")}

    # ---- expectations, all independent of pycardano
    vk = k["vk"]
    address = address_of(k["role"], net, vk)
    phdr = phdr_bytes(address, None if attach else vk)
    tbs = sig_structure(phdr, payload)
    sig = k["sign"](tbs)
    exp_env = envelope(phdr, payload, sig)
    exp_key = cose_key(vk) if attach else None

    # ---- sign
    try:
        s = C8.sign(text, k["obj"], attach_cose_key=attach, network=Network(net))
    except Exception as e:
        ctx.violation("sign raised on a legal message", base, "signed message", type(e).__name__)
        ctx.case(base)
        return
    try:
        env = bytes.fromhex(s["signature"] if attach else s)
        key = bytes.fromhex(s["key"]) if attach else None
        x = R.dec(env)
        hdr = R.dec(x[0])
        shape_ok = (isinstance(x, list) and len(x) == 4 and isinstance(hdr, R.Map) and isinstance(x[1], R.Map)
                    and isinstance(x[2], bytes) and isinstance(x[3], bytes))
        reg = regions(env)
    except Exception as e:
        ctx.violation("sign output is not a COSE_Sign1 array / hex", base, "84 …", repr(s)[:200])
        ctx.case(base)
        return
    # correspondence: model layout, signature supplied by the harness
    if ctx.have_driver():
        req = {"op": "cip8.sign.layout", "message": payload.hex(), "role": k["role"], "extended": k["ext"],
               "attach": attach, "network": str(net), "pk": k["pk"].hex(), "stored": k["stored"].hex(), "h28": "", "sig": ""}
        r1 = ctx.driver().ok(req)
        r2 = ctx.driver().ok({**req, "h28": h28(bytes.fromhex(r1["vk"])).hex()})
        msig = k["sign"](bytes.fromhex(r2["tbs"]))
        r3 = ctx.driver().ok({**req, "h28": h28(bytes.fromhex(r1["vk"])).hex(), "sig": msig.hex()})
        ctx.traces += 1
        got = {"signature": env.hex(), "key": key.hex() if key is not None else None}
        if r3["signed"] != got:
            ctx.diff("cip8.sign.layout", base, r3["signed"], got)
        if (r3["tbs"], r3["address"], r3["vk"]) != (tbs.hex(), address.hex(), vk.hex()):
            ctx.diff("cip8.sign.layout vs reference construction", base, [r3["tbs"], r3["address"], r3["vk"]],
                     [tbs.hex(), address.hex(), vk.hex()])

    # ---- (a) verify(sign(m)) on the implementation, judged by the independent expectations
    impl, cap = impl_verify(s)
    exp = {"accept": True, "message": text, "address": address.hex()}
    if not impl["accept"] or impl["message"] != text or impl["address"] != address.hex():
        ctx.violation("verify(sign(m, k)) does not report success with the original text and the signer's address",
                      base, exp, impl)
    # the signed object itself: authentic under an independent verifier over an independently built Sig_structure
    if shape_ok:
        d = dict((kk if isinstance(kk, (int, str)) else repr(kk), v) for kk, v in hdr.pairs)
        pub = R.dec(key).pairs[-1][1] if attach else d.get(4)
        if not (isinstance(pub, bytes) and E.verify(pub[:32], sig_structure(x[0], x[2]), x[3]) and pub == vk
                and x[2] == payload and d.get("address") == address and d.get(1) == -8):
            ctx.violation("the object returned by sign is not an authentic CIP-8 message of the key "
                          "(independent Ed25519 over Sig_structure, payload, address and key in the protected header)",
                          base, {"signature": exp_env.hex(), "key": exp_key.hex() if exp_key else None}, s)
        elif env != exp_env or key != exp_key:
            ctx.diff("sign output vs reference construction", base, [exp_env.hex(), exp_key and exp_key.hex()],
                     [env.hex(), key and key.hex()])
    else:
        ctx.violation("sign output has not the COSE_Sign1 shape [bstr, map, bstr, bstr]", base, exp_env.hex(), env.hex())
    correspond(ctx, base, env, key, impl, cap)
    ctx.case(base)
    if not impl["accept"] or not shape_ok:
        return

    # ---- tampering
    sd = {"k": k, "vk": vk, "net": net, "address": address, "env": env, "key": key, "regions": reg,
          "phdr": x[0], "payload": x[2], "sig": x[3]}
    for t in case.get("tampers", []):
        try:
            env2, key2, kind, strict = apply_tamper(sd, t)
        except AssertionError:
            continue
        if (env2, key2) == (env, key):
            continue
        tcase = {**base, "tampers": [t]}
        r, cap2 = impl_verify(wire(env2, key2))
        ctx.count("tamper:" + kind.split(":")[0] + ":" + kind.split(":")[1].split("-")[0])
        if r["accept"]:
            same = r["message"] == text and r["address"] == address.hex()
            if strict or not same:
                ctx.violation(f"verify reports success on a tampered message ({kind})", tcase,
                              "verified=False or an exception", r)
            elif kind.startswith("reencode"):
                if any(f["id"] == NOTED for f in ctx.findings):
                    ctx.violation(f"verify reports success although the bytes of the signed object were changed ({kind})",
                                  tcase, "verified=False or an exception", r, finding=NOTED)
                ctx.count("noted:" + kind + "-accepted-same-content")
            else:
                ctx.count("unsigned-byte-flip-accepted-same-content")
        else:
            ctx.count("rejected:" + ("raise" if r["raised"] else "false"))
        if t.get("corr") and (kind.split(":")[0] != "flip" or strict) and kind not in ("keyflip:other",):
            correspond(ctx, tcase, env2, key2, r, cap2, in_domain=kind not in OUT_OF_DOMAIN, kind=kind)
        ctx.case(tcase, nontrivial=True)


# ---- generation ------------------------------------------------------------------------------------------------------------
ALPHABETS = [
    "abcdefghijklmnopqrstuvwxyzABCDEFGHIJKLMNOPQRSTUVWXYZ0123456789 .,;:!?-_/\\\"'{}[]()",
    "\u00e4\u00f6\u00fc\u00df\u00e9\u00e8\u00ea\u00f1\u00e7\u00f8\u00e5\u0153\u00e6\u0142\u017c\u015f\u011f\u0131\u0130\u07ff\u0080",  # two-byte
    "\u2200\u2203\u2208\u2264\u2192\u20ac\u20bf\u2122\u65e5\u672c\u8a9e\u4e2d\u6587\ud55c\uad6d\uc5b4\uff71\u0800\uffff",  # three-byte
    "\U0001f600\U0001f389\U0001f680\U0001d11e\U0001d518\U0001d54f\U0001f0a1\U0010ffff\U00010000\U0001f1e6\U0001f1fa",  # astral plane
    "\u0000\u0001\t\n\r\u007f\u0080\u00a0\u200b\u200d\u202e\ufeff\ufffd\ufffe\uffff\ud7ff\ue000",  # controls, BOM, boundaries
    "e\u0301a\u0308\u05d0\u05d1\u0627\u0644\u0e01\u0e34",   # combining, RTL, Thai
]


def gen_text(rng, i):
    mode = i % 8
    if mode == 0:
        return ""
    if mode == 1:
        return "".join(rng.choice(ALPHABETS[0]) for _ in range(rng.choice([1, 5, 18, 22, 23, 24, 25, 64])))
    if mode == 2:      # payload length at the CBOR head boundaries (23/24, 255/256 bytes)
        n = rng.choice([23, 24, 255, 256, 257])
        return "".join(rng.choice(ALPHABETS[0]) for _ in range(n))
    if mode == 3:
        return "".join(rng.choice(ALPHABETS[rng.choice([1, 2])]) for _ in range(rng.randint(1, 40)))
    if mode == 4:
        return "".join(rng.choice(ALPHABETS[3]) for _ in range(rng.randint(1, 20)))
    if mode == 5:
        return "".join(rng.choice(rng.choice(ALPHABETS)) for _ in range(rng.randint(1, 60)))
    if mode == 6:      # long
        return "".join(rng.choice(rng.choice(ALPHABETS[:4])) for _ in range(rng.choice([300, 1000, 4000])))
    return "".join(chr(rng.choice([rng.randrange(0x20, 0xD800), rng.randrange(0xE000, 0x110000)])) for _ in range(rng.randint(1, 30)))


def gen_keyspec(rng, kind):
    return {"kind": kind, "seed": bytes(rng.randrange(256) for _ in range(32)).hex(),
            "how": "hd" if KINDS[kind][2] and rng.random() < 0.4 else "raw"}


def gen_tampers(ctx, rng, kind, attach, payload_len):
    """tamper specs; `corr` marks those also run through the model"""
    thorough = ctx.thorough
    ts = []
    other_same = gen_keyspec(rng, kind)
    other_any = gen_keyspec(rng, rng.choice(list(KINDS)))
    txt = gen_text(rng, rng.randrange(1, 8)) or "x"
    for how in ("other-key", "other-network", "other-role", "script", "base"):
        ts.append({"t": "address", "how": how, "other": other_same, "corr": True})
    ts += [{"t": "payload", "text": txt, "corr": True}, {"t": "payload", "text": "", "corr": True},
           {"t": "sig-other-message", "text": txt, "corr": True},
           {"t": "sig-other-key", "other": other_any, "corr": True},
           {"t": "sig-length", "n": rng.choice([0, 1, 32, 63]), "corr": True},
           {"t": "sig-length", "n": rng.choice([65, 96, 128]), "corr": True},
           {"t": "key", "other": other_same, "corr": True}, {"t": "key", "other": other_any, "corr": True},
           {"t": "key-extended-form", "corr": True},
           {"t": "transplant", "other": other_same, "text": txt, "corr": True},
           {"t": "transplant", "other": other_any, "text": "", "corr": True},
           {"t": "transplant-role", "other": other_any, "corr": True},
           {"t": "transplant-base", "other": other_same, "corr": True}, {"t": "transplant-base", "other": other_any, "corr": True},
           {"t": "transplant-kid-and-key", "other": other_same, "corr": True}]
    for n in (31, 32, 33, 64):
        ts.append({"t": "forge", "x": bytes(rng.randrange(256) for _ in range(n)).hex(),
                   "sig": rng.choice(["zero", "victim", "short"]), "corr": True})
    for how in ("trailing", "label-wide", "phdr-trailing", "payload-chunked", "extra-element", "array-indefinite",
                "phdr-map-indefinite", "label-alias"):
        ts.append({"t": "reencode", "how": how, "corr": True})
    return ts


def add_flips(ctx, rng, case):
    """single-bit flips need the region layout of the actual signed message: sign once here (deterministic)"""
    k = make_key(case["key"])
    s = C8.sign(case["text"], k["obj"], attach_cose_key=case["attach"], network=Network(case["net"]))
    env = bytes.fromhex(s["signature"] if case["attach"] else s)
    reg = regions(env)
    flips = []
    for name in ("phdr", "payload", "sig", "uhdr"):
        a, b = reg[name]
        bits = list(range(a * 8, b * 8))
        if name == "payload" and len(bits) > 8 * 300:     # long payloads: head, both ends and a sample of the middle
            bits = bits[:8 * 40] + rng.sample(bits[8 * 40:-8 * 40], 8 * 120) + bits[-8 * 40:]
        quota = len(bits) if ctx.thorough else (40 if name == "uhdr" else 144)
        chosen = bits if quota >= len(bits) else rng.sample(bits, quota)
        ncorr = len(chosen) // 4 if ctx.thorough else 16
        corr = set(rng.sample(chosen, min(ncorr, len(chosen))))
        flips += [{"t": "flip", "bit": i, "corr": i in corr} for i in chosen]
    flips += [{"t": "flip", "bit": i, "corr": False} for i in range(8)]          # the array head byte
    if case["attach"]:
        klen = len(bytes.fromhex(s["key"]))
        bits = list(range(klen * 8))
        chosen = bits if ctx.thorough else rng.sample(bits[-256:], 64) + rng.sample(bits[:-256], 24)
        corr = set(rng.sample(chosen, len(chosen) // 4 if ctx.thorough else 10))
        flips += [{"t": "keyflip", "bit": i, "corr": i in corr} for i in chosen]
    case["tampers"] = case["tampers"] + flips


def corpus():
    seed = bytes(range(32)).hex()
    return [
        # the witness of Pyc.C19.wire_determines_plan_counterexample on the implementation (trailing byte ignored)
        {"key": {"kind": "StakeSigningKey", "seed": seed, "how": "raw"}, "attach": False, "net": 1, "text": "hi",
         "tampers": [{"t": "reencode", "how": "trailing", "corr": True}]},
        # stake key, attacker re-signs under the victim's stake address
        {"key": {"kind": "StakeExtendedSigningKey", "seed": seed, "how": "hd"}, "attach": True, "net": 0,
         "text": "Pycardano is cool. 𝄞",
         "tampers": [{"t": "transplant", "other": {"kind": "StakeSigningKey", "seed": "11" * 32, "how": "raw"},
                      "text": "pay me", "corr": True}]},
    ]


def run(ctx):
    ctx.rule = ("4 key kinds (ordinary from 32-byte seeds; extended from kL‖kR built directly and from HDWallet derivation) "
                "x attach on/off x 2 networks x Unicode texts (empty, ASCII, 2/3/4-byte, controls/boundaries/combining, "
                "payload lengths at CBOR head boundaries, long, random scalar values); per signed message: single-bit "
                "flips over the protected-header, payload, signature, unprotected-header regions, the array head and the "
                "attached key (quick: sampled positions, thorough: every bit), 17 substitutions / transplants, 4 "
                "forgeries on the raising paths, 8 re-encodings; a case is a distinct (key, mode, text[, tamper])")
    ctx.assumptions = [
        "Ed25519 / BIP32-Ed25519 signing and BLAKE2b-224 are parameters of the theorems (SigScheme); soundness is "
        "relative to the stated ideal-scheme hypotheses (Ideal)",
        "the harness resolves the signature check named by the model with ref/ed25519_ref.py (RFC 8032, cofactorless) and "
        "the hash with hashlib.blake2b(digest_size=28)",
        "model domain: protected-header labels 1 / 'address' / 4, algorithm in the protected bucket, COSE_Key labels "
        "1, 3, -1, -2; outside it the model rejects (counted as corr:outside-model-domain when the implementation accepts "
        "a re-encoding with unchanged content)",
        "noted, not asserted: cose verifies over the re-encoded protected header and cbor2 ignores trailing bytes, so "
        "re-encodings of a signed object with unchanged content still verify (Pyc.C19.wire_determines_plan_counterexample)",
        "byte strings are shorter than 2^64",
    ]
    ctx.extra["trusted"] = [
        "cose 0.9.dev8 (COSE_Sign1 / COSE_Key encoding and decoding): modelled, compared by the correspondence run, not verified",
        "Ed25519 (PyNaCl/libsodium, cryptography/OpenSSL) and BLAKE2b primitives: modelled as SigScheme, compared on "
        "every checked triple with ref/ed25519_ref.py, not verified",
        "cbor2 (pure-Python backend)",
    ]
    rng = ctx.rng
    for c in corpus():
        check_case(ctx, c)
    per_combo = ctx.budget(3, 10)
    i = 0
    for kind in KINDS:
        for attach in (False, True):
            for net in (0, 1):
                for _ in range(per_combo):
                    text = gen_text(rng, i)
                    i += 1
                    case = {"key": gen_keyspec(rng, kind), "attach": attach, "net": net, "text": text}
                    case["tampers"] = gen_tampers(ctx, rng, kind, attach, len(text.encode("utf-8")))
                    add_flips(ctx, rng, case)
                    check_case(ctx, case)
                    if len(ctx.violations) > 20:
                        return
    # plain positive cases over many more texts / keys (no tampering)
    for j in range(ctx.budget(300, 3000)):
        kind = rng.choice(list(KINDS))
        check_case(ctx, {"key": gen_keyspec(rng, kind), "attach": rng.random() < 0.5, "net": rng.randrange(2),
                         "text": gen_text(rng, j), "tampers": []})


def replay(ctx, data):
    if "input" in data:
        check_case(ctx, data["input"])
    for d in data.get("correspondence", []):
        check_case(ctx, d["input"])
