"""C01 (extension) — round trip of the witness-side codecs.

`VerificationKeyWitness`, `Redeemer` / `RedeemerMap` / the `Redeemers` union, `TransactionWitnessSet` and the text
envelope of `Key` are modelled in lean/Pyc/Model/WitnessCodec.lean; the theorems are in Props/C01_WitnessCodec.lean.
This module ties the model to /repo: the REAL classes and the driver ops `wc.*` run on the same inputs and are compared
on the constructed object (`__post_init__`), the encoding, the decoded object field by field, the re-encoding and the
accept / reject class; in the same pass the property itself is judged on the implementation against oracles that do
not involve the model: decode∘encode returns the value (up to what the theorems state), re-encoding reproduces the
bytes, the bytes are those of the reference tree written from the CDDL (ref/cbor_ref.py), and the reference bytes — in
every wire form the CDDL admits — decode to the content they were written from.

Families (each case is regenerated from its own seed, so every case replays alone):
  wc-vkw      vkey witnesses over every key class, payload lengths 0..128, signatures of 0 / 63 / 64 / 65 bytes / non-bytes
  wc-redeemer one list-form redeemer: every tag (and the unassigned one), indices and units at CBOR width boundaries
  wc-ws       witness sets: case i carries the field subset i mod 256; every set handed over as list / OrderedSet /
              NonEmptyOrderedSet with and without the tag, 0 / 1..4 / 23..25 / 256 elements, repetitions; redeemers in
              both forms; then every field transcoded to its OTHER wire forms (tag, no tag, indefinite length, list <-> map)
  wc-key      key envelopes of every class through to_json / from_json (validate_type on / off, foreign class) and
              save / load in a temporary directory; to_non_extended, hash, ExtendedSigningKey.to_verification_key
  wc-mal      damaged encodings: both sides must agree on ok / DeserializeException / other exception
  wc-builder  `builder.build_and_sign([...])` (vlib/scenario.py, simple scenarios of vlib/bgen.py) with payment / stake /
              extended signing keys: `Transaction.from_cbor(tx.to_cbor()) == tx`, every witness holds the plain key
  wc-cx       the witnesses of the repaired finding F1 as ordinary round-trip cases, and the counterexamples of the
              `_counterexample` theorems, replayed on the implementation
"""
from __future__ import annotations

import hashlib
import json
import os
import random
import tempfile

from ref import cbor_ref as R
from vlib import wcgen as G
from vlib.wcgen import EXT, classify

from pycardano import key as K
from pycardano import plutus as P
from pycardano import witness as W
from pycardano.exception import InvalidKeyTypeException
from pycardano.serialization import NonEmptyOrderedSet


def attempt(f):
    try:
        return f(), None
    except Exception as e:  # noqa: BLE001
        return None, e


def cls_of(err):
    return "ok" if err is None else classify(err)


def model(ctx, req):
    """('ok', value) | ('err', class) | None when there is no driver"""
    if not ctx.have_driver():
        return None
    k, m = ctx.driver().call(req)
    ctx.traces += 1
    if k != "ok":
        ctx.diff(req["op"], {"ext": EXT, "request": req}, m, "driver answer")
        return None
    if isinstance(m, dict) and "err" in m:
        return ("err", m["err"])
    return ("ok", m)


def compare_decoded(ctx, op, desc, hexs, y, err, dump, field, reenc=None):
    """model decode of `hexs` against what the implementation made of it (`reenc`: `attempt(y.to_cbor)` when the caller
    has it already)"""
    r = model(ctx, {"op": op, "hex": hexs})
    if r is None:
        return
    mc = "ok" if r[0] == "ok" else r[1]
    if mc != cls_of(err):
        ctx.diff(op + ":class", desc, mc, cls_of(err) + ("" if err is None else f" ({type(err).__name__})"))
        return
    if err is not None:
        return
    m = r[1]
    if m[field] != dump(y):
        ctx.diff(op, desc, m[field], dump(y))
    b2, e2 = reenc if reenc is not None else attempt(lambda: y.to_cbor())
    if "valid" in m:
        if m["valid"] != (e2 is None):
            ctx.diff(op + ":valid", desc, m["valid"], "serializable" if e2 is None else type(e2).__name__)
        elif e2 is None and m["reenc"] != b2.hex():
            ctx.diff(op + ":reenc", desc, m["reenc"], b2.hex())


# ------------------------------------------------------------------------------------------------ vkey witnesses
def check_vkw(ctx, case):
    rng = random.Random(case["seed"])
    s = G.gen_vkw_spec(rng, plain=0.3)
    built, e0 = attempt(lambda: (G.build_key(s["key"]), W.VerificationKeyWitness(G.build_key(s["key"]), s["sig"])))
    if e0 is not None:
        ctx.violation(f"constructing a VerificationKeyWitness raises {type(e0).__name__}: {str(e0)[:120]}", {**case}, "an object", cls_of(e0))
        return
    key, w = built
    desc = {**case, "key": G.dump_key(key), "sig": G.dump_prim(s["sig"])}
    ctx.count(f"wc-vkw:class:{s['key']['cls']}")
    ctx.count(f"wc-vkw:payload:{len(s['key']['payload'])}")
    ctx.count("wc-vkw:sig:" + (str(len(s["sig"])) if isinstance(s["sig"], bytes) else type(s["sig"]).__name__))
    # ---- __post_init__: an ExtendedVerificationKey instance is cut to 32 bytes, every other VerificationKey instance keeps
    #      its payload, and both become the plain VerificationKey with the default envelope (what decoding returns);
    #      anything else is kept (oracle: the class of the argument and slicing)
    if isinstance(key, (K.ExtendedVerificationKey, K.VerificationKey)):
        want = s["key"]["payload"][:32] if isinstance(key, K.ExtendedVerificationKey) else s["key"]["payload"]
        exp_key = {"cls": "VerificationKey", "payload": want.hex(), "type": "", "desc": ""}
        if G.dump_key(w.vkey) != exp_key:
            ctx.violation("VerificationKeyWitness: the verification key is not reduced to the plain key "
                          "(first 32 bytes of an extended key, the payload otherwise; default envelope)", desc, exp_key, G.dump_key(w.vkey))
    elif G.dump_key(w.vkey) != G.dump_key(key):
        ctx.violation("VerificationKeyWitness: a key that is not a verification key was replaced", desc,
                      G.dump_key(key), G.dump_key(w.vkey))
    r = model(ctx, {"op": "wc.vkw.mk", "vkey": G.dump_key(key), "sig": G.dump_prim(s["sig"])})
    b, e = attempt(lambda: w.to_cbor())
    if r is not None and r[0] == "ok":
        m = r[1]
        if m["w"] != G.dump_vkw(w):
            ctx.diff("wc.vkw.mk", desc, m["w"], G.dump_vkw(w))
        if m["valid"] != (e is None):
            ctx.diff("wc.vkw.valid", desc, m["valid"], cls_of(e))
        elif e is None and m["hex"] != b.hex():
            ctx.diff("wc.vkw.enc", desc, m["hex"], b.hex())
    if (e is None) != G.vkw_serializable(s):
        ctx.violation("VerificationKeyWitness.to_cbor: accepts / refuses against its field types", desc,
                      G.vkw_serializable(s), cls_of(e))
    if e is not None:
        ctx.count("wc-vkw:unserializable")
        ctx.case(case)
        return
    desc["hex"] = b.hex()
    # ---- the bytes are the CDDL's: vkeywitness = [vkey, signature]
    ref = R.enc(G.ref_vkw(s))
    if b != ref:
        ctx.violation("VerificationKeyWitness: encoding differs from [vkey, signature]", desc, ref.hex(), b.hex())
    # ---- round trip
    y, err = attempt(lambda: W.VerificationKeyWitness.from_cbor(b))
    if err is not None:
        ctx.violation(f"VerificationKeyWitness: the encoded witness cannot be decoded ({type(err).__name__})", desc,
                      "a witness", classify(err))
    else:
        if bytes(y.vkey.payload) != bytes(w.vkey.payload) or y.signature != w.signature or type(y.vkey) is not K.VerificationKey:
            ctx.violation("VerificationKeyWitness: decode(encode(w)) has another key / signature", desc, G.dump_vkw(w),
                          G.dump_vkw(y))
        b2, e2 = attempt(lambda: y.to_cbor())
        if b2 != b:
            ctx.violation("VerificationKeyWitness: re-encoding the decoded witness gives different bytes", desc, b.hex(),
                          b2.hex() if b2 else cls_of(e2))
        # C01.vkw_roundtrip: every serializable constructed witness is == its round trip, whatever key it was built from
        ctx.count("wc-vkw:roundtrip-eq:" + ("typed-or-role-key" if (s["key"]["type"] or G.KEY_BY_NAME[s["key"]["cls"]].KEY_TYPE) else "plain-key"))
        if not (y == w) or not (w == y):
            ctx.violation("VerificationKeyWitness: decode(encode(w)) != w", desc, G.dump_vkw(w), G.dump_vkw(y))
        if r is not None and r[0] == "ok" and r[1]["pyeq"] is not True:
            ctx.diff("wc.vkw.pyeq", desc, r[1]["pyeq"], True)
        if r is not None and r[0] == "ok" and r[1]["decoded"] != G.dump_vkw(y):
            ctx.diff("wc.vkw.decoded", desc, r[1]["decoded"], G.dump_vkw(y))
    compare_decoded(ctx, "wc.vkw.dec", desc, b.hex(), y, err, G.dump_vkw, "w")
    ctx.case(case)


# ------------------------------------------------------------------------------------------------ one redeemer
def check_redeemer(ctx, case):
    rng = random.Random(case["seed"])
    s = G.gen_redeemer_spec(rng, tagged=0.85)
    x, e0 = attempt(lambda: G.build_redeemer(s))
    if e0 is not None:
        ctx.violation(f"constructing a Redeemer (tag {s['tag']}) raises {type(e0).__name__}: {str(e0)[:120]}", {**case}, "an object", cls_of(e0))
        return
    desc = {**case, "redeemer": G.dump_redeemer(x)}
    ctx.count(f"wc-redeemer:tag:{s['tag']}")
    for v in [s["index"]] + (s["ex"] or []):
        if v in G.BOUND or v < 0 or v >= 2**64:
            ctx.count("wc-redeemer:boundary:" + ("neg" if v < 0 else "big" if v >= 2**64 else str(v)))
    ctx.count("wc-redeemer:ex:" + ("none" if s["ex"] is None else "set"))
    b, e = attempt(lambda: x.to_cbor())
    if e is not None:
        ctx.violation(f"Redeemer.to_cbor raises {type(e).__name__}", desc, "bytes", cls_of(e))
        return
    desc["hex"] = b.hex()
    ref = R.enc(G.ref_redeemer(s))
    if b != ref:
        ctx.violation("Redeemer: encoding differs from [tag, index, data, ex_units]", desc, ref.hex(), b.hex())
    r = model(ctx, {"op": "wc.redeemer.enc", "r": G.j_redeemer(s, x)})
    if r is not None and r[0] == "ok" and (r[1]["hex"] != b.hex() or r[1]["valid"] is not True):
        ctx.diff("wc.redeemer.enc", desc, r[1], b.hex())
    y, err = attempt(lambda: P.Redeemer.from_cbor(b))
    if s["tag"] is None:
        # C01.redeemer_untagged_not_decodable: `tag` is written as null, which RedeemerTag.from_primitive refuses
        ctx.count("wc-redeemer:untagged:" + cls_of(err))
        if cls_of(err) != "deser":
            ctx.diff("wc.redeemer.untagged", desc, "deser", cls_of(err))
    elif err is not None:
        ctx.violation(f"Redeemer: the encoded redeemer cannot be decoded ({type(err).__name__})", desc, "a redeemer", classify(err))
    else:
        if not (y == x) or G.dump_redeemer(y) != G.dump_redeemer(x):
            ctx.violation("Redeemer: decode(encode(r)) != r", desc, G.dump_redeemer(x), G.dump_redeemer(y))
        b2, e2 = attempt(lambda: y.to_cbor())
        if b2 != b:
            ctx.violation("Redeemer: re-encoding the decoded redeemer gives different bytes", desc, b.hex(),
                          b2.hex() if b2 else cls_of(e2))
    compare_decoded(ctx, "wc.redeemer.dec", desc, b.hex(), y, err, G.dump_redeemer, "r")
    ctx.case(case)


# ------------------------------------------------------------------------------------------------ witness sets
def elems_distinct_on_wire(x):
    """the hypothesis `WSDistinct`: no set holds two elements that are WRITTEN alike (only vkey witnesses can: two
    witnesses that differ in the type / description of their key are different elements with the same encoding)"""
    ws = x.vkey_witnesses or []
    return len({(bytes(w.vkey.payload), repr(w.signature)) for w in ws}) == len(ws)


def has_untagged_redeemer(s):
    return "redeemers" in s and s["redeemers"]["form"] == "list" and any(i["tag"] is None for i in s["redeemers"]["items"])


def expected_reencoding(tree):
    """what a decoded witness set writes back, computed on the reference tree alone: the five rebuilt fields as tagged
    definite sets, an untagged / indefinite array of the other two as a definite array, every set without repetitions,
    a redeemer list definite, a redeemer map in canonical key order"""
    pairs = []
    for k, v in tree.pairs:
        if k == 5:
            if isinstance(v, R.Map):
                v = R.sorted_map(v.pairs)
            elif isinstance(v, list):
                v = list(v)
        else:
            tagged = isinstance(v, R.Tag)
            items = list(v.value) if tagged else list(v)
            if tagged or k in (0, 1, 3, 6, 7):
                items = G.distinct_refs(items)
            v = R.Tag(258, items) if (tagged or k in (0, 1, 3, 6, 7)) else items
        pairs.append((k, v))
    return R.Map(sorted(pairs, key=lambda p: p[0]))


def wire_variants(rng, tree):
    """the same content in other wire forms the CDDL admits: per set-valued field tag / no tag, definite / indefinite
    length; the redeemers list <-> map; the keys of the struct map in another order"""
    out = []
    for k, v in tree.pairs:
        alts = []
        if k == 5:
            if isinstance(v, R.Map):
                alts.append(("list", [[kk[0], kk[1], vv[0], vv[1]] for kk, vv in v.pairs]))
            elif all(i[0] is not None and i[3] is not None for i in v) and len({(i[0], i[1]) for i in v}) == len(v) and v:
                alts.append(("map", R.Map([([i[0], i[1]], [i[2], i[3]]) for i in v])))
            if isinstance(v, list):
                alts.append(("indef", R.IndefList(v)))
        else:
            tagged = isinstance(v, R.Tag)
            items = list(v.value) if tagged else list(v)
            if items:
                alts.append(("untagged", items) if tagged else ("tagged", R.Tag(258, items)))
                alts.append(("tagged-indef", R.Tag(258, R.IndefList(items))))
                alts.append(("indef", R.IndefList(items)))
        for name, alt in alts:
            out.append((f"{k}:{name}", R.Map([(kk, alt if kk == k else vv) for kk, vv in tree.pairs])))
    if len(tree.pairs) > 1:
        sh = list(tree.pairs)
        rng.shuffle(sh)
        out.append(("order", R.Map(sh)))
    return out


def check_ws(ctx, case):
    rng = random.Random(case["seed"])
    mask = case["mask"]
    big = G.WS_FIELDS[case["big"]] if case.get("big") is not None else None
    s = G.gen_ws_spec(rng, mask, big=big)
    for f in ("bootstrap", "datums"):           # an EMPTY plain OrderedSet there is outside the model (see its deviations)
        if f in s and not s[f]["elems"] and s[f]["container"]["kind"] == "oset":
            s[f]["container"]["kind"] = "neset"
    built, e0 = attempt(lambda: G.build_ws(s))
    if e0 is not None:
        ctx.violation(f"constructing a TransactionWitnessSet raises {type(e0).__name__}: {str(e0)[:120]}", {**case}, "an object", cls_of(e0))
        return
    x, args = built
    desc = {**case}
    ctx.count(f"wc-ws:fields:{bin(mask).count('1')}")
    for f in s:
        if f == "redeemers":
            ctx.count(f"wc-ws:redeemers:{s[f]['form']}:{min(len(s[f]['items']), 5)}")
        else:
            c = s[f]["container"]
            ctx.count(f"wc-ws:{f}:{c['kind']}{'' if c['kind'] == 'list' else ':tag' if c['tag'] else ':notag'}")
            n = len(s[f]["elems"])
            ctx.count(f"wc-ws:size:{n if n in (0, 23, 24, 25) else '256+' if n >= 256 else '1-5' if n <= 5 else 'other'}")
    # ---- the constructed object: the five rebuilt fields hold tagged NonEmptyOrderedSets whatever was handed over
    for f in G.REBUILT:
        v = getattr(x, G.WS_ATTR[f])
        if f in s and not (isinstance(v, NonEmptyOrderedSet) and v._use_tag):
            ctx.diff("wc.ws.postinit", {**desc, "field": f}, "tagged NonEmptyOrderedSet", type(v).__name__)
    b, e = attempt(lambda: x.to_cbor())
    r = model(ctx, {"op": "wc.ws.enc", "a": args})
    m = r[1] if r is not None and r[0] == "ok" else None
    if m is not None:
        if m["constructed"] != G.dump_ws(x):
            ctx.diff("wc.ws.constructed", desc, m["constructed"], G.dump_ws(x))
        if m["valid"] != (e is None):
            ctx.diff("wc.ws.valid", desc, m["valid"], cls_of(e) + ("" if e is None else f" ({type(e).__name__})"))
        elif e is None and m["hex"] != b.hex():
            ctx.diff("wc.ws.enc", desc, m["hex"], b.hex())
    if (e is None) != G.ws_serializable(s):
        ctx.violation("TransactionWitnessSet.to_cbor: accepts / refuses against the field types", desc, G.ws_serializable(s),
                      cls_of(e) + ("" if e is None else f" ({type(e).__name__}: {str(e)[:80]})"))
    if e is not None:
        ctx.count("wc-ws:unserializable:" + type(e).__name__)
        ctx.case(case)
        return
    desc["hex"] = b.hex()
    tree = G.ref_ws(s)
    ref = R.enc(tree)
    if b != ref:
        ctx.violation("TransactionWitnessSet: encoding differs from the CDDL tree of its content", desc, ref.hex(), b.hex())
    # ---- round trip
    y, err = attempt(lambda: W.TransactionWitnessSet.from_cbor(b))
    reenc = None
    if has_untagged_redeemer(s):
        ctx.count("wc-ws:untagged-redeemer:" + cls_of(err))
        if cls_of(err) != "deser":
            ctx.diff("wc.ws.untagged-redeemer", desc, "deser", cls_of(err))
    elif err is not None:
        ctx.violation(f"TransactionWitnessSet: the encoded witness set cannot be decoded ({type(err).__name__}: {str(err)[:100]})",
                      desc, "a witness set", classify(err))
    else:
        distinct = elems_distinct_on_wire(x)
        reenc = b2, e2 = attempt(lambda: y.to_cbor())
        if distinct:
            # C01.ws_reencode_constructed
            if b2 != b:
                ctx.violation("TransactionWitnessSet: re-encoding the decoded witness set gives different bytes", desc, b.hex(),
                              b2.hex() if b2 else cls_of(e2))
        else:
            # cannot happen any more for constructed objects (witnesses that are written alike are ONE element of the set)
            ctx.diff("wc.ws.same-element", desc, "elements of the vkey-witness set are written differently", "two are written alike")
        # C01.ws_roundtrip_constructed: a constructed witness set is == its round trip, vkey witnesses included
        eq, ee = attempt(lambda: (y == x) and (x == y))
        if not eq:
            ctx.violation("TransactionWitnessSet: decode(encode(x)) != x", desc, G.dump_ws(x), G.dump_ws(y))
        if m is not None and m["decoded"] != G.dump_ws(y):
            ctx.diff("wc.ws.decoded", desc, m["decoded"], G.dump_ws(y))
    compare_decoded(ctx, "wc.ws.dec", desc, b.hex(), y, err, G.dump_ws, "ws", reenc=reenc)
    # ---- the same content in its other wire forms: accepted, same content, and re-encoded in the normal form
    if not has_untagged_redeemer(s):
        variants = wire_variants(rng, tree)
        keep = 2 if (not ctx.thorough or len(b) > 4000) else 6      # quick tier: two of them per case
        variants = rng.sample(variants, min(len(variants), keep))
        for name, t in variants:
            tb = R.enc(t)
            tdesc = {**case, "variant": name, "hex": tb.hex()}
            ty, terr = attempt(lambda: W.TransactionWitnessSet.from_cbor(tb))
            ctx.count(f"wc-ws:variant:{name.split(':')[-1]}:{cls_of(terr)}")
            if terr is not None:
                ctx.violation(f"TransactionWitnessSet: a wire form the CDDL admits ({name}) cannot be decoded "
                              f"({type(terr).__name__}: {str(terr)[:100]})", tdesc, "a witness set", classify(terr))
            else:
                exp = R.enc(expected_reencoding(t))
                treenc = tb2, te2 = attempt(lambda: ty.to_cbor())
                if tb2 != exp:
                    ctx.violation(f"TransactionWitnessSet: content received in wire form {name} is not written back in the "
                                  "normal form (rebuilt fields tagged, the others as received)", tdesc, exp.hex(),
                                  tb2.hex() if tb2 else cls_of(te2))
                ctx.count("wc-ws:variant-reencode:" + ("same-bytes" if tb2 == tb else "normalised"))
            compare_decoded(ctx, "wc.ws.dec", tdesc, tb.hex(), ty, terr, G.dump_ws, "ws", reenc=None if terr else treenc)
    ctx.case(case)


# ------------------------------------------------------------------------------------------------ reference bytes -> content
def check_ref_decode(ctx, case):
    """reference bytes of redeemers (both forms) decode to the content they were written from"""
    rng = random.Random(case["seed"])
    s = G.gen_redeemers_spec(rng, cddl=True)
    for form in ("list", "map"):
        tb = R.enc(R.Map([(5, G.ref_redeemers(s, form))]))
        desc = {**case, "form": form, "hex": tb.hex()}
        y, err = attempt(lambda: W.TransactionWitnessSet.from_cbor(tb))
        ctx.count(f"wc-ref:redeemers:{form}:{cls_of(err)}")
        if err is not None:
            ctx.violation(f"redeemers in the {form} form cannot be decoded ({type(err).__name__}: {str(err)[:100]})", desc,
                          "redeemers", classify(err))
        else:
            if form == "list":
                got = [(r.tag.value if r.tag is not None else None, r.index, G.leaf_hex(r.data), r.ex_units.mem, r.ex_units.steps)
                       for r in y.redeemer]
                exp = [(i["tag"], i["index"], R.enc(i["data"][1]).hex(), i["ex"][0], i["ex"][1]) for i in s["items"]]
            else:
                got = sorted((k.tag.value, k.index, G.leaf_hex(v.data), v.ex_units.mem, v.ex_units.steps)
                             for k, v in y.redeemer.data.items())
                exp = sorted((i["tag"], i["index"], R.enc(i["data"][1]).hex(), i["ex"][0], i["ex"][1]) for i in s["items"])
            if got != exp:
                ctx.violation(f"redeemers in the {form} form: the decoded entries are not the entries written", desc, exp, got)
        compare_decoded(ctx, "wc.ws.dec", desc, tb.hex(), y, err, G.dump_ws, "ws")
    # the map built through the public constructor holds every entry
    if s["form"] == "map":
        mobj, e0 = attempt(lambda: G.build_redeemers(s))
        if e0 is not None:
            ctx.violation(f"constructing a RedeemerMap raises {type(e0).__name__}: {str(e0)[:120]}", {**case}, "an object", cls_of(e0))
        elif len(mobj.data) != len(s["items"]):
            ctx.violation("RedeemerMap: entries under distinct (tag, index) keys are merged", {**case}, len(s["items"]), len(mobj.data))
    ctx.case(case)


# ------------------------------------------------------------------------------------------------ key envelopes
def jobj_image(text):
    def val(v):
        return {"s": v} if isinstance(v, str) else None if v is None else {"o": True}
    return [[k, val(v)] for k, v in json.loads(text, object_pairs_hook=lambda ps: ps)]


def check_key(ctx, case):
    rng = random.Random(case["seed"])
    s = G.gen_key_spec(rng)
    if case.get("cls"):
        s["cls"] = case["cls"]
    cls = G.KEY_BY_NAME[s["cls"]]
    k, e0 = attempt(lambda: G.build_key(s))
    if e0 is not None:
        ctx.violation(f"constructing a {s['cls']} raises {type(e0).__name__}: {str(e0)[:120]}", {**case}, "an object", cls_of(e0))
        return
    desc = {**case, "key": G.j_key_args(s)}
    ctx.count(f"wc-key:class:{s['cls']}")
    ctx.count(f"wc-key:type-arg:{'none' if s['type'] is None else 'empty' if s['type'] == '' else 'given'}")
    text = k.to_json()
    # ---- the envelope, against the reference CBOR of the payload
    env = json.loads(text)
    exp_env = {"type": k.key_type, "description": k.description, "cborHex": R.enc(s["payload"]).hex()}
    if env != exp_env:
        ctx.violation("Key.to_json: the envelope is not {type, description, cborHex of the payload}", desc, exp_env, env)
    r = model(ctx, {"op": "wc.key.mk", **G.j_key_args(s)})
    m = r[1] if r is not None and r[0] == "ok" else None
    if m is not None:
        if m["key"] != G.dump_key(k):
            ctx.diff("wc.key.mk", desc, m["key"], G.dump_key(k))
        if m["cbor"] != k.to_cbor().hex():
            ctx.diff("wc.key.cbor", desc, m["cbor"], k.to_cbor().hex())
        if m["json"] != jobj_image(text):
            ctx.diff("wc.key.tojson", desc, m["json"], jobj_image(text))
    # ---- from_json(to_json(k)) == k, same class and foreign classes, with and without validate_type
    readers = [cls, rng.choice(G.KEY_CLASSES), rng.choice(G.KEY_CLASSES)]
    for reader in readers:
        for validate in (False, True):
            k2, err = attempt(lambda: reader.from_json(text, validate_type=validate))
            want_reject = validate and k.key_type != reader.KEY_TYPE
            tag = f"{'same' if reader is cls else 'foreign'}:{'validate' if validate else 'plain'}"
            ctx.count(f"wc-key:from_json:{tag}:{cls_of(err)}")
            rdesc = {**desc, "reader": reader.__name__, "validate": validate}
            if want_reject:
                if not isinstance(err, InvalidKeyTypeException):
                    ctx.violation("Key.from_json(validate_type=True) accepts an envelope of another type", rdesc,
                                  "InvalidKeyTypeException", cls_of(err))
            elif err is not None:
                ctx.violation(f"Key.from_json refuses the envelope to_json wrote ({type(err).__name__})", rdesc, "a key", cls_of(err))
            else:
                # the class is the reader's; type and description are the file's (what an EMPTY one becomes is the model's
                # business: compared below, not judged)
                bad = type(k2) is not reader or bytes(k2.payload) != s["payload"] or \
                    (k.key_type != "" and k2.key_type != k.key_type) or (k.description != "" and k2.description != k.description)
                if bad or (reader is cls and not (k2 == k)):
                    ctx.violation("Key.from_json(to_json(k)) != k", rdesc, G.dump_key(k), G.dump_key(k2))
            rm = model(ctx, {"op": "wc.key.fromjson", "cls": reader.__name__, "validate": validate, "obj": jobj_image(text)})
            if rm is not None:
                mc = "ok" if rm[0] == "ok" else rm[1]
                if mc != cls_of(err):
                    ctx.diff("wc.key.fromjson:class", rdesc, mc, cls_of(err))
                elif err is None and rm[1]["key"] != G.dump_key(k2):
                    ctx.diff("wc.key.fromjson", rdesc, rm[1]["key"], G.dump_key(k2))
    # ---- save / load
    with tempfile.TemporaryDirectory(prefix="w5wc") as d:
        path = os.path.join(d, "k.json")
        _, e1 = attempt(lambda: k.save(path))
        k3, e3 = attempt(lambda: cls.load(path))
        if e1 is not None or e3 is not None or not (k3 == k) or type(k3) is not cls:
            ctx.violation("Key.save / Key.load does not return the key", desc, G.dump_key(k),
                          cls_of(e1 or e3) if (e1 or e3) else G.dump_key(k3))
        elif open(path).read() != text:
            ctx.violation("Key.save does not write to_json()", desc, text, open(path).read())
        _, e4 = attempt(lambda: k.save(path))
        ctx.count("wc-key:save-over-existing:" + ("refused" if e4 is not None else "overwritten"))
    # ---- to_non_extended / hash / to_verification_key
    if isinstance(k, K.ExtendedVerificationKey):
        ne = k.to_non_extended()
        if type(ne) is not K.VerificationKey or bytes(ne.payload) != s["payload"][:32]:
            ctx.violation("ExtendedVerificationKey.to_non_extended is not the first 32 bytes", desc, s["payload"][:32].hex(), G.dump_key(ne))
        if m is not None and m["nonext"] != G.dump_key(ne):
            ctx.diff("wc.key.nonext", desc, m["nonext"], G.dump_key(ne))
        h = hashlib.blake2b(s["payload"][:32], digest_size=28).digest()
        if bytes(k.hash().payload) != h or bytes(ne.hash().payload) != h:
            ctx.violation("ExtendedVerificationKey.hash is not blake2b-224 of the first 32 bytes", desc, h.hex(), bytes(k.hash().payload).hex())
    elif isinstance(k, K.VerificationKey):
        h = hashlib.blake2b(s["payload"], digest_size=28).digest()
        if bytes(k.hash().payload) != h:
            ctx.violation("VerificationKey.hash is not blake2b-224 of the payload", desc, h.hex(), bytes(k.hash().payload).hex())
    if isinstance(k, K.ExtendedSigningKey):
        vk = k.to_verification_key()
        if bytes(vk.payload) != s["payload"][64:] or not isinstance(vk, K.ExtendedVerificationKey):
            ctx.violation("ExtendedSigningKey.to_verification_key is not payload[64:]", desc, s["payload"][64:].hex(), G.dump_key(vk))
        if m is not None and m["extvk"] != G.dump_key(vk):
            ctx.diff("wc.key.extvk", desc, m["extvk"], G.dump_key(vk))
    ctx.case(case)


ENVELOPE_DAMAGE = ["no-type", "no-description", "no-cborHex", "hex-odd", "hex-bad", "cbor-int", "cbor-text", "cbor-truncated",
                   "cbor-empty", "type-null", "description-null", "cborHex-null", "cborHex-number", "type-wrong", "type-empty",
                   "duplicate-type", "extra-field"]


def check_key_mal(ctx, case):
    rng = random.Random(case["seed"])
    s = G.gen_key_spec(rng, [K.PaymentSigningKey, K.PaymentVerificationKey, K.StakeExtendedVerificationKey, K.VerificationKey])
    cls = G.KEY_BY_NAME[s["cls"]]
    k = G.build_key(s)
    pairs = json.loads(k.to_json(), object_pairs_hook=lambda ps: ps)
    d = case["damage"]

    def put(name, v):
        return [(a, v if a == name else b) for a, b in pairs]
    if d.startswith("no-"):
        pairs = [(a, b) for a, b in pairs if a != d[3:]]
    elif d == "hex-odd":
        pairs = put("cborHex", dict(pairs)["cborHex"][:-1])
    elif d == "hex-bad":
        pairs = put("cborHex", "zz" + dict(pairs)["cborHex"][2:])
    elif d == "cbor-int":
        pairs = put("cborHex", "05")
    elif d == "cbor-text":
        pairs = put("cborHex", "6161")
    elif d == "cbor-truncated":
        pairs = put("cborHex", "5820aabb")
    elif d == "cbor-empty":
        pairs = put("cborHex", "")
    elif d.endswith("-null"):
        pairs = put(d[:-5], None)
    elif d == "cborHex-number":
        pairs = put("cborHex", 5)
    elif d == "type-wrong":
        pairs = put("type", "StakeSigningKeyShelley_ed25519")
    elif d == "type-empty":
        pairs = put("type", "")
    elif d == "duplicate-type":
        pairs = [("type", "first")] + pairs
    elif d == "extra-field":
        pairs = pairs + [("extra", "x")]
    text = "{" + ", ".join(f"{json.dumps(a)}: {json.dumps(b)}" for a, b in pairs) + "}"
    for validate in (False, True):
        desc = {**case, "text": text, "cls": s["cls"], "validate": validate}
        k2, err = attempt(lambda: cls.from_json(text, validate_type=validate))
        ctx.count(f"wc-key-mal:{d}:{'validate' if validate else 'plain'}:{cls_of(err)}")
        rm = model(ctx, {"op": "wc.key.fromjson", "cls": s["cls"], "validate": validate, "obj": jobj_image(text)})
        if rm is not None:
            mc = "ok" if rm[0] == "ok" else rm[1]
            if mc != cls_of(err):
                ctx.diff("wc.key.fromjson:class", desc, mc, cls_of(err) + ("" if err is None else f" ({type(err).__name__})"))
            elif err is None and rm[1]["key"] != G.dump_key(k2):
                ctx.diff("wc.key.fromjson", desc, rm[1]["key"], G.dump_key(k2))
    ctx.case(case)


# ------------------------------------------------------------------------------------------------ malformed stream
VK, SG = bytes(range(32)), bytes(range(64))
VKW_DAMAGE = {
    "arity0": [], "arity1": [VK], "arity1-int": [5], "arity3": [VK, SG, 9], "sig63": [VK, SG[:63]], "sig-int": [VK, 5],
    "sig-null": [VK, None], "sig-chunked": [VK, R.Chunked([SG[:10], SG[10:]])], "vkey-int": [5, SG], "vkey-text": ["ab", SG],
    "vkey-64": [VK + VK, SG], "vkey-0": [b"", SG], "vkey-chunked": [R.Chunked([VK[:5], VK[5:]]), SG],
    "indefinite": R.IndefList([VK, SG]), "not-array": 5, "map": R.Map([(0, VK)]), "tagged": R.Tag(258, [VK, SG]),
}
EX = [1, 2]
REDEEMER_DAMAGE = {
    "arity0": [], "arity2": [0, 0], "arity3": [0, 0, 42], "arity5": [0, 0, 42, EX, 9], "tag6": [6, 0, 42, EX], "tag-neg": [-1, 0, 42, EX],
    "tag-text": ["a", 0, 42, EX], "tag-null": [None, 0, 42, EX], "tag-big": [2**64, 0, 42, EX], "index-bytes": [0, b"*", 42, EX],
    "index-null": [0, None, 42, EX], "index-neg": [0, -1, 42, EX], "index-big": [0, 2**64, 42, EX], "ex-arity0": [0, 0, 42, []],
    "ex-arity1": [0, 0, 42, [1]], "ex-arity1-bytes": [0, 0, 42, [b"x"]], "ex-arity3": [0, 0, 42, [1, 2, 3]], "ex-bytes": [0, 0, 42, [1, b"\xff"]],
    "ex-null": [0, 0, 42, None], "ex-int": [0, 0, 42, 0], "ex-indefinite": [0, 0, 42, R.IndefList([1, 2])], "ex-big": [0, 0, 42, [2**64, -(2**64) - 1]],
    "indefinite": R.IndefList([0, 0, 42, EX]), "not-array": 7, "data-constr": [0, 0, R.Tag(121, []), EX],
    "data-list": [0, 0, [1, 2], EX], "data-null": [0, 0, None, EX],
}
RV = [42, EX]
REDEEMERS_DAMAGE = {
    "key-arity0": R.Map([([], RV)]), "key-arity1": R.Map([([0], RV)]), "key-arity3": R.Map([([0, 1, 9], RV)]), "key-int": R.Map([(0, RV)]),
    "key-bytes": R.Map([(b"k", RV)]), "key-tag6": R.Map([([6, 1], RV)]), "key-tag-text": R.Map([(["a", 1], RV)]),
    "key-index-bytes": R.Map([([0, b"\x01"], RV)]), "key-index-neg": R.Map([([0, -1], RV)]), "key-index-big": R.Map([([0, 2**64], RV)]),
    "key-indefinite": R.Map([(R.IndefList([0, 1]), RV)]), "value-arity0": R.Map([([0, 1], [])]), "value-arity1": R.Map([([0, 1], [5])]),
    "value-arity3": R.Map([([0, 1], [5, EX, 9])]), "value-int": R.Map([([0, 1], 5)]), "value-indefinite": R.Map([([0, 1], R.IndefList([5, EX]))]),
    "value-ex-arity1": R.Map([([0, 1], [5, [1]])]), "value-ex-null": R.Map([([0, 1], [5, None])]), "value-ex-bytes": R.Map([([0, 1], [5, [b"a", 1]])]),
    "duplicate-key": R.Map([([0, 1], [5, EX]), ([0, 1], [6, [3, 4]])]), "same-index-two-tags": R.Map([([0, 1], [5, EX]), ([1, 1], [6, [3, 4]])]),
    "key-extra-merges": R.Map([([0, 1], [5, EX]), ([0, 1, 9], [6, [3, 4]])]),
    "empty-map": R.Map([]), "empty-list": [], "list-elem-int": [5], "list-elem-indefinite": [R.IndefList([0, 0, 42, EX])],
    "list-elem-tag6": [[0, 0, 42, EX], [6, 0, 42, EX]], "list-elem-short": [[0, 0, 42]], "list-indefinite": R.IndefList([[0, 0, 42, EX]]),
    "null": None, "int": 5, "text": "ab", "bytes": b"ab", "tag258-list": R.Tag(258, [[0, 0, 42, EX]]),
}
W1 = [VK, SG]
NATIVE = [0, bytes(28)]
WS_DAMAGE = {
    "key8": R.Map([(8, [])]), "key-neg": R.Map([(-1, [])]), "key-text": R.Map([("a", [])]), "key-bytes": R.Map([(b"\x00", [])]),
    "key-big": R.Map([(2**64, [])]), "unknown-after-known": R.Map([(0, [W1]), (9, 5)]), "unknown-before-bad": R.Map([(9, 5), (0, 5)]),
    "bad-before-unknown": R.Map([(0, 5), (9, 5)]),
    "not-map": [], "int": 5, "null": None, "tag": R.Tag(258, R.Map([])),
    "vkeys-int": R.Map([(0, 5)]), "vkeys-null": R.Map([(0, None)]), "vkeys-text": R.Map([(0, "ab")]), "vkeys-map": R.Map([(0, R.Map([]))]),
    "vkeys-empty": R.Map([(0, [])]), "vkeys-tagged-empty": R.Map([(0, R.Tag(258, []))]), "vkeys-tag259": R.Map([(0, R.Tag(259, [W1]))]),
    "vkeys-tag-int": R.Map([(0, R.Tag(258, 5))]), "vkeys-tag-null": R.Map([(0, R.Tag(258, None))]),
    "vkeys-elem-int": R.Map([(0, [5])]), "vkeys-tagged-elem-int": R.Map([(0, R.Tag(258, [5]))]),
    "vkeys-elem-short": R.Map([(0, [[VK]])]), "vkeys-elem-indefinite": R.Map([(0, [R.IndefList(W1)])]),
    "vkeys-indef-elem-bad": R.Map([(0, R.IndefList([5]))]), "vkeys-indef": R.Map([(0, R.IndefList([W1]))]),
    "vkeys-second-bad": R.Map([(0, [W1, [5, SG]])]), "vkeys-sig63": R.Map([(0, [[VK, SG[:63]]])]), "vkeys-dup": R.Map([(0, R.Tag(258, [W1, W1]))]),
    "native-empty": R.Map([(1, [])]),
    "native-ok": R.Map([(1, [NATIVE])]), "native-null": R.Map([(1, None)]),
    "bootstrap-int": R.Map([(2, 5)]), "bootstrap-tagged-empty": R.Map([(2, R.Tag(258, []))]), "bootstrap-empty": R.Map([(2, [])]),
    "bootstrap-any": R.Map([(2, [5, "a", None])]), "bootstrap-tagged-dup": R.Map([(2, R.Tag(258, [5, 5, 6]))]), "bootstrap-null": R.Map([(2, None)]),
    "v1-elem-int": R.Map([(3, [5])]), "v1-tagged-elem-int": R.Map([(3, R.Tag(258, [5]))]), "v1-elem-text": R.Map([(3, ["ab"])]),
    "v1-tagged-elem-text": R.Map([(3, R.Tag(258, ["ab"]))]), "v1-elem-neg": R.Map([(3, [-1])]), "v1-elem-null": R.Map([(3, [None])]),
    "v1-indef-elem-int": R.Map([(3, R.IndefList([5]))]), "v1-tagged-empty": R.Map([(3, R.Tag(258, []))]), "v1-int": R.Map([(3, 5)]),
    "v1-dup": R.Map([(3, [b"a", b"a", b"b"])]), "v2-elem-int": R.Map([(6, [0])]), "v3-elem-chunked": R.Map([(7, [R.Chunked([b"a", b"b"])])]),
    "v2v3-apart": R.Map([(6, [b"two"]), (7, [b"three"])]),
    "datums-int": R.Map([(4, 5)]), "datums-null": R.Map([(4, None)]), "datums-tag259": R.Map([(4, R.Tag(259, [0]))]), "datums-tag-int": R.Map([(4, R.Tag(258, 5))]),
    "datums-elem-text": R.Map([(4, ["ab"])]), "datums-elem-null": R.Map([(4, [None])]), "datums-tagged-elem-text": R.Map([(4, R.Tag(258, ["ab"]))]),
    "datums-tagged-empty": R.Map([(4, R.Tag(258, []))]), "datums-empty": R.Map([(4, [])]), "datums-bytes": R.Map([(4, b"\x01\x02")]),
    "datums-tagged-dup": R.Map([(4, R.Tag(258, [0, 0, 1]))]), "datums-dup": R.Map([(4, [0, 0, 1])]), "datums-indef": R.Map([(4, R.IndefList([0]))]),
    "redeemer-null": R.Map([(5, None)]), "redeemer-int": R.Map([(5, 5)]),
    # primitives that Python iterates where an array is expected (a byte string yields its bytes as ints)
    "vkeys-tag-bytes": R.Map([(0, R.Tag(258, b"\x01\x02"))]), "bootstrap-tag-bytes": R.Map([(2, R.Tag(258, b"\x01\x02\x01"))]),
    "bootstrap-bytes": R.Map([(2, b"\x01\x02")]), "v1-tag-bytes": R.Map([(3, R.Tag(258, b"\x01\x02"))]), "v1-elem-300": R.Map([(3, [300])]),
    "datums-tag-bytes": R.Map([(4, R.Tag(258, b"\x01\x01"))]), "datums-chunked": R.Map([(4, R.Chunked([b"\x01", b"\x02"]))]),
    "datums-elem-list": R.Map([(4, [[1, 2], []])]), "datums-elem-map": R.Map([(4, [R.Map([(1, 2)])])]),
    # several fields: the first failure in wire order decides; a repeated key keeps its last value
    "two-fields-second-bad": R.Map([(0, [W1]), (3, 5)]), "redeemers-then-vkeys": R.Map([(5, [[0, 0, 42, EX]]), (0, [W1])]),
    "repeated-key": R.Map([(3, [b"a"]), (3, [b"b"])]),
}


def check_mal(ctx, case):
    fam, d = case["family"], case["damage"]
    if fam == "vkw":
        tb = R.enc(VKW_DAMAGE[d])
        y, err = attempt(lambda: W.VerificationKeyWitness.from_cbor(tb))
        op, dump, field = "wc.vkw.dec", G.dump_vkw, "w"
    elif fam == "redeemer":
        tb = R.enc(REDEEMER_DAMAGE[d])
        y, err = attempt(lambda: P.Redeemer.from_cbor(tb))
        op, dump, field = "wc.redeemer.dec", G.dump_redeemer, "r"
    else:
        tb = R.enc(R.Map([(5, REDEEMERS_DAMAGE[d])]) if fam == "redeemers" else WS_DAMAGE[d])
        y, err = attempt(lambda: W.TransactionWitnessSet.from_cbor(tb))
        op, dump, field = "wc.ws.dec", G.dump_ws, "ws"
    desc = {**case, "hex": tb.hex()}
    ctx.count(f"wc-mal:{fam}:{cls_of(err)}")
    compare_decoded(ctx, op, desc, tb.hex(), y, err, dump, field)
    ctx.case(case)


# ------------------------------------------------------------------------------------------------ counterexamples, replayed
def check_cx(ctx, case):
    """the witnesses of the `_counterexample` theorems exist on the implementation (a disappearance is a change of the
    modelled behaviour: reported as a model / implementation difference)"""
    # the witnesses of the repaired finding (F1): built from a PaymentVerificationKey, and from what
    # `signing_key.to_verification_key()` returns (TransactionBuilder.build_and_sign) — ordinary round-trip cases now
    sk = K.PaymentSigningKey(bytes(range(32)))
    for name, vk in (("PaymentVerificationKey", K.PaymentVerificationKey(bytes([1]) * 32)), ("to_verification_key", sk.to_verification_key()),
                     ("from_signing_key", K.PaymentVerificationKey.from_signing_key(sk)), ("StakePoolVerificationKey", K.StakePoolVerificationKey(bytes([3]) * 32))):
        w = W.VerificationKeyWitness(vk, bytes([2]) * 64)
        y, err = attempt(lambda: W.VerificationKeyWitness.from_cbor(w.to_cbor()))
        ctx.count(f"wc-cx:vkw:{name}:" + ("equal" if err is None and y == w else "unequal"))
        if err is not None or not (y == w):
            ctx.violation(f"VerificationKeyWitness built from {name}: decode(encode(w)) != w", {**case, "key": G.dump_key(vk)},
                          G.dump_vkw(w), cls_of(err) if err else G.dump_vkw(y))
    # ws_reencode_counterexample: an untagged vkey-witness array is written back with the tag
    tb = R.enc(R.Map([(0, [[bytes([1]) * 32, bytes([2]) * 64]])]))
    ws = W.TransactionWitnessSet.from_cbor(tb)
    b2 = ws.to_cbor()
    exp = R.enc(R.Map([(0, R.Tag(258, [[bytes([1]) * 32, bytes([2]) * 64]]))]))
    ctx.count("wc-cx:untagged-vkeys:" + ("retagged" if b2 == exp else "kept" if b2 == tb else "other"))
    if b2 != exp:
        ctx.diff("wc.cx.ws_reencode_counterexample", {**case, "hex": tb.hex()}, exp.hex(), b2.hex())
    # redeemer_untagged_not_decodable
    r = P.Redeemer(42, P.ExecutionUnits(1, 2))
    _, err = attempt(lambda: P.Redeemer.from_cbor(r.to_cbor()))
    ctx.count("wc-cx:fresh-redeemer:" + cls_of(err))
    if cls_of(err) != "deser":
        ctx.diff("wc.cx.redeemer_untagged_not_decodable", {**case}, "deser", cls_of(err))
    ctx.case(case)


# ------------------------------------------------------------------------------------------------ through the builder
SIGNERS = [["k0"], ["x1"], ["k0", "x1"], ["k0", "s1"], ["s1", "x2"], ["k0", "k1", "x1", "s1", "x2"]]


def check_builder(ctx, case):
    """`tx = builder.build_and_sign([...])` with payment / stake / extended keys: `Transaction.from_cbor(tx.to_cbor()) == tx`"""
    from vlib import bgen as B
    from vlib import scenario as S
    from pycardano import Transaction
    rng = random.Random(case["seed"])
    sc = B.gen_value_scenario(rng, plain=True)
    sc["sign"] = SIGNERS[case["signers"]]
    sc["force_skeys"] = True
    run = S.run(sc, sign=True)
    if run.tx is None:
        ctx.count("wc-builder:not-built:" + str(run.error))
        return
    tx = run.tx
    ws = tx.transaction_witness_set
    desc = {**case, "sign": sc["sign"]}
    ctx.count(f"wc-builder:signers:{'+'.join(sorted({l[0] for l in sc['sign']}))}")
    if len(ws.vkey_witnesses or []) != len(sc["sign"]):
        ctx.violation("build_and_sign(force_skeys=True): not one vkey witness per signing key", desc, len(sc["sign"]), len(ws.vkey_witnesses or []))
    b, e = attempt(lambda: tx.to_cbor())
    if e is not None:
        ctx.violation(f"the signed transaction cannot be serialized ({type(e).__name__})", desc, "bytes", cls_of(e))
        return
    desc["hex"] = b.hex()
    y, err = attempt(lambda: Transaction.from_cbor(b))
    if err is not None:
        ctx.violation(f"the signed transaction cannot be decoded ({type(err).__name__}: {str(err)[:100]})", desc, "a transaction", classify(err))
        return
    if not (y.transaction_witness_set == ws):
        ctx.violation("build_and_sign: the witness set of the signed transaction != its round trip", desc, G.dump_ws(ws),
                      G.dump_ws(y.transaction_witness_set))
    elif not (y == tx):
        ctx.violation("build_and_sign: Transaction.from_cbor(tx.to_cbor()) != tx (outside the witness set)", desc, "equal", "unequal")
    if y.to_cbor() != b:
        ctx.violation("build_and_sign: re-encoding the decoded transaction gives different bytes", desc, b.hex(), y.to_cbor().hex())
    # every witness holds the plain key; the model agrees on the witness set
    for w in ws.vkey_witnesses or []:
        if type(w.vkey) is not K.VerificationKey or w.vkey.key_type != "" or len(w.vkey.payload) != 32:
            ctx.violation("build_and_sign: a vkey witness does not hold the plain 32-byte verification key", desc, "plain key", G.dump_key(w.vkey))
    r = model(ctx, {"op": "wc.ws.enc", "a": G.dump_ws(ws)})
    if r is not None and r[0] == "ok":
        m = r[1]
        if m["constructed"] != G.dump_ws(ws) or not m["valid"] or m["hex"] != ws.to_cbor().hex():
            ctx.diff("wc.ws.enc(builder)", desc, m["hex"], ws.to_cbor().hex())
        elif m["decoded"] != G.dump_ws(y.transaction_witness_set):
            ctx.diff("wc.ws.decoded(builder)", desc, m["decoded"], G.dump_ws(y.transaction_witness_set))
    ctx.case(case)


# ------------------------------------------------------------------------------------------------ entry points
def dispatch(ctx, case):
    k = case["kind"]
    {"wc-vkw": check_vkw, "wc-redeemer": check_redeemer, "wc-ws": check_ws, "wc-ref": check_ref_decode, "wc-key": check_key,
     "wc-key-mal": check_key_mal, "wc-mal": check_mal, "wc-cx": check_cx, "wc-builder": check_builder}[k](ctx, case)


def run_ext(ctx):
    ctx.assumptions.append("witness-side codecs (VerificationKeyWitness / Redeemers / TransactionWitnessSet / Key envelope): native "
                           "scripts, bootstrap witnesses, witness datums and redeemer data are leaves of the model (abstract lawful "
                           "codec; their own codecs are C17 / C18); json.dumps / json.loads and file write / read are trusted")
    base = {"ext": EXT}
    dispatch(ctx, {**base, "kind": "wc-cx", "seed": f"{ctx.seed}/wccx"})
    for i in range(ctx.budget(300, 4000)):
        dispatch(ctx, {**base, "kind": "wc-vkw", "seed": f"{ctx.seed}/wcv{i}"})
    for i in range(ctx.budget(300, 4000)):
        dispatch(ctx, {**base, "kind": "wc-redeemer", "seed": f"{ctx.seed}/wcr{i}"})
    for i in range(ctx.budget(256, 768)):                # every subset of the eight fields, each run
        dispatch(ctx, {**base, "kind": "wc-ws", "seed": f"{ctx.seed}/wcw{i}", "mask": i % 256})
    # 256 elements in one set-valued field (quick tier: two of the seven fields, by seed)
    for j in ([0, 1, 2, 3, 4, 6, 7] if ctx.thorough else [[0, 1, 2, 3, 4, 6, 7][(ctx.seed + d) % 7] for d in (0, 3)]):
        dispatch(ctx, {**base, "kind": "wc-ws", "seed": f"{ctx.seed}/wcwb{j}", "mask": 1 << j, "big": j})
    for i in range(ctx.budget(120, 1500)):
        dispatch(ctx, {**base, "kind": "wc-ref", "seed": f"{ctx.seed}/wcf{i}"})
    for i in range(ctx.budget(75, 600)):
        dispatch(ctx, {**base, "kind": "wc-key", "seed": f"{ctx.seed}/wck{i}", "cls": G.KEY_CLASSES[i % len(G.KEY_CLASSES)].__name__})
    for i in range(ctx.budget(18, 300)):
        dispatch(ctx, {**base, "kind": "wc-builder", "seed": f"{ctx.seed}/wcb{i}", "signers": i % len(SIGNERS)})
    for i, d in enumerate(ENVELOPE_DAMAGE):
        dispatch(ctx, {**base, "kind": "wc-key-mal", "seed": f"{ctx.seed}/wckm{i}", "damage": d})
    for fam, table in (("vkw", VKW_DAMAGE), ("redeemer", REDEEMER_DAMAGE), ("redeemers", REDEEMERS_DAMAGE), ("ws", WS_DAMAGE)):
        for d in table:
            dispatch(ctx, {**base, "kind": "wc-mal", "family": fam, "damage": d})


def replay_ext(ctx, case):
    c = {k: v for k, v in case.items() if k in ("ext", "kind", "seed", "mask", "big", "cls", "damage", "family", "signers")}
    dispatch(ctx, c)
