"""C17 (extension `metadata`) — `AuxiliaryData.hash()` is BLAKE2b-256 of exactly the auxiliary-data bytes a transaction ships.

Oracle independent of pycardano and of the model: `hashlib.blake2b(digest_size=32)` over the slice of `tx.to_cbor()` found
with the RFC 8949 reference decoder (ref/cbor_ref.py).  Judged on the implementation: `aux.hash()` = hash of `aux.to_cbor()`
= hash of the slice shipped in a hand-made `Transaction`; a `TransactionBuilder` that is given auxiliary data writes that
hash under body key 7 of the transaction it builds and ships the same bytes; the decoded transaction's auxiliary data has
the same hash; insertion order of the labels does not change it.  The model gives the preimage (`md.enc`: `hash_pre`,
`hash_len`; theorems aux_hash_preimage / aux_hash_in_built_tx)."""
from __future__ import annotations

import hashlib
import random

from pycardano import (Address, Network, Transaction, TransactionBody, TransactionInput, TransactionOutput,
                       TransactionWitnessSet)
from pycardano.hash import AuxiliaryDataHash, TransactionId, VerificationKeyHash

from ref import cbor_ref as R
from ref import ledger_ref as L
from vlib import scenario as S

from checks import c01_ext_metadata as X

EXT = "metadata"


def b2(data):
    return hashlib.blake2b(data, digest_size=32).digest()


def key7(body_bytes):
    """value of key 7 of a serialized body, by the reference decoder"""
    item = R.dec(body_bytes)
    for k, v in item.pairs:
        if k == 7:
            return v
    return None


def gen(ctx, case):
    rng = random.Random(case["seed"])
    a = X.gen_aux(rng, case["era"], case["mask"], "lib", ctx)
    return rng, a, X.lib_aux(a)


def check_hash(ctx, case):
    try:
        rng, a, aux = gen(ctx, case)
        own = aux.to_cbor()
    except Exception as e:
        # a refusal of generated content is judged by C01 (c01_ext_metadata.check_aux)
        ctx.count("md-hash:refused:" + type(e).__name__)
        ctx.skipped += 1
        return
    desc = {**case, "aux_cbor": own.hex() if len(own) < 600 else own[:300].hex() + "..."}
    ctx.count("md-hash:" + a["k"])
    h = aux.hash()
    if not isinstance(h, AuxiliaryDataHash) or len(h.payload) != 32:
        ctx.violation("AuxiliaryData.hash() is not a 32-byte AuxiliaryDataHash", desc, "AuxiliaryDataHash(32)", repr(h)[:80])
        return
    if bytes(h.payload) != b2(own):
        ctx.violation("AuxiliaryData.hash() is not BLAKE2b-256 of AuxiliaryData.to_cbor()", desc, b2(own).hex(), h.payload.hex())
    # a hand-made transaction ships exactly these bytes in its last position
    ins = [TransactionInput(TransactionId(X.rb(rng, 32)), rng.randrange(4)) for _ in range(rng.randint(1, 2))]
    outs = [TransactionOutput(Address(VerificationKeyHash(X.rb(rng, 28)), network=Network.TESTNET), rng.randint(10**6, 10**8))]
    body = TransactionBody(inputs=ins, outputs=outs, fee=rng.randint(150000, 400000), auxiliary_data_hash=h)
    txb = Transaction(body, TransactionWitnessSet(), True, aux).to_cbor()
    body_s, _, aux_s = L.tx_parts(txb)
    if aux_s is None:
        ctx.violation("auxiliary data handed to a transaction is not shipped", desc, own.hex(), None)
        return
    if aux_s != own:
        ctx.violation("the auxiliary data bytes inside the transaction differ from AuxiliaryData.to_cbor()", desc, own.hex(), aux_s.hex())
    if key7(body_s) != b2(aux_s):
        ctx.violation("body key 7 is not the hash of the auxiliary data shipped in the same transaction", desc, b2(aux_s).hex(),
                      repr(key7(body_s))[:80])
    # the decoded transaction: its auxiliary data hashes to the same digest and is shipped as the same bytes
    try:
        tx2 = Transaction.from_cbor(txb)
        err = None
    except Exception as e:
        tx2, err = None, e
    if err is not None:
        ctx.violation(f"a transaction with auxiliary data cannot be decoded ({type(err).__name__}: {str(err)[:100]})", desc,
                      "a transaction", X.classify(err))
    else:
        if tx2.auxiliary_data is None:
            ctx.violation("auxiliary data lost by decoding the transaction", desc, own.hex(), None)
        else:
            if bytes(tx2.auxiliary_data.hash().payload) != b2(own):
                ctx.violation("the decoded auxiliary data has another hash", desc, b2(own).hex(), tx2.auxiliary_data.hash().payload.hex())
            if tx2.to_cbor() != txb:
                ctx.violation("re-encoding the decoded transaction changes its bytes", desc, txb.hex()[:200], tx2.to_cbor().hex()[:200])
    # insertion order of the labels
    if a["md"] and len(a["md"]) > 1:
        order = list(range(len(a["md"])))
        rng.shuffle(order)
        h2 = X.lib_aux(a, order).hash()
        if bytes(h2.payload) != bytes(h.payload):
            ctx.violation("the same labels inserted in another order give another auxiliary data hash", {**desc, "order": order},
                          h.payload.hex(), h2.payload.hex())
    # ---- the model's preimage
    if ctx.have_driver():
        d = ctx.driver()
        nat = None if a["native"] is None else [X.dumps(X.lib_native(s)).hex() for s in a["native"]]
        m = d.ok({"op": "md.enc", "aux": X.aux_json(a, nat)})
        ctx.traces += 1
        if m["hash_len"] != "32" or b2(bytes.fromhex(m["hash_pre"])) != bytes(h.payload):
            ctx.diff("md.hash", desc, [m["hash_len"], b2(bytes.fromhex(m["hash_pre"])).hex()], ["32", h.payload.hex()])
        # the transaction's last item, read by the model as `Optional[AuxiliaryData]`
        k, md = d.call({"op": "md.dec", "hex": aux_s.hex(), "as": "optaux"})
        ctx.traces += 1
        mod = "fail" if k != "ok" else md.get("err", "ok")
        impl = "ok" if err is None else X.classify(err)
        if mod != impl:
            ctx.diff("md.dec(optaux)", desc, mod, impl)
        elif impl == "ok" and tx2.auxiliary_data is not None:
            if md["val"] != X.obj_json(tx2.auxiliary_data.data):
                ctx.diff("md.dec(optaux).val", desc, md["val"], X.obj_json(tx2.auxiliary_data.data))
    ctx.case(case)


def _md_aux_op(b, cx, o, run, idx):
    rng = random.Random(o["seed"])
    b.auxiliary_data = X.lib_aux(X.gen_aux(rng, o["era"], o["mask"], "lib"))


S.EXTRA_OPS["md_aux"] = _md_aux_op


def check_build(ctx, case):
    """`TransactionBuilder` with auxiliary data: body key 7 of the built transaction is the hash of the bytes it ships"""
    rng = random.Random(case["seed"])
    t = lambda l: S.H("tx/" + l).hex()
    ops = [{"op": "add_input", "u": "w0"}, {"op": "add_input_address", "a": "k0"},
           {"op": "md_aux", "seed": case["seed"] + "/aux", "era": case["era"], "mask": case["mask"]},
           {"op": "add_output", "addr": "k1", "coin": rng.randint(2_000_000, 5_000_000)}]
    sc = {"utxos": [{"id": "w0", "txid": t("w0"), "ix": 0, "addr": "k0", "coin": 90_000_000},
                    {"id": "w1", "txid": t("w1"), "ix": 3, "addr": "k0", "coin": 40_000_000}],
          "address_utxos": {"k0": ["w0", "w1"]}, "ops": ops, "build": {"change": "k0"}, "sign": ["k0"]}
    r = S.run(sc)
    desc = dict(case)
    if r.error is not None or r.tx is None:
        ctx.count(f"md-build:refused:{r.error}")
        ctx.skipped += 1
        return
    ctx.count("md-build:" + case["era"])
    aux = r.builder.auxiliary_data
    txb = r.tx.to_cbor()
    body_s, _, aux_s = L.tx_parts(txb)
    if aux_s is None:
        ctx.violation("the builder was given auxiliary data and ships none", desc, aux.to_cbor().hex(), None)
        return
    if aux_s != aux.to_cbor():
        ctx.violation("the builder ships other auxiliary data bytes than the object it was given writes", desc, aux.to_cbor().hex(),
                      aux_s.hex())
    k7 = key7(body_s)
    if k7 != b2(aux_s):
        ctx.violation("built transaction: body key 7 is not BLAKE2b-256 of the auxiliary data it ships", desc, b2(aux_s).hex(),
                      repr(k7)[:80])
    if ctx.have_driver():
        a = X.gen_aux(random.Random(case["seed"] + "/aux"), case["era"], case["mask"], "lib")
        nat = None if a["native"] is None else [X.dumps(X.lib_native(s)).hex() for s in a["native"]]
        m = ctx.driver().ok({"op": "md.enc", "aux": X.aux_json(a, nat)})
        ctx.traces += 1
        if k7 is None or b2(bytes.fromhex(m["hash_pre"])) != k7:
            ctx.diff("md.hash(built)", desc, b2(bytes.fromhex(m["hash_pre"])).hex(), None if k7 is None else k7.hex())
    ctx.case(case)


def dispatch(ctx, case):
    if case["kind"] == "md-hash":
        check_hash(ctx, case)
    elif case["kind"] == "md-build":
        check_build(ctx, case)
    else:
        raise ValueError(case["kind"])


def run_ext(ctx):
    ctx.assumptions.append("auxiliary-data hash: BLAKE2b is hashlib's (the theorems quantify over the hash function); "
                           "the driver is given the constructor arguments and applies the model of the constructor (normAux)")
    j = 0
    for i in range(ctx.budget(360, 5000)):
        era = X.ERAS[i % 3]
        mask = 2
        if era == "alonzo":
            mask = j % 32
            j += 1
        elif era == "shelley_ma" and i % 40 == 1:
            mask = 0
        dispatch(ctx, {"ext": EXT, "kind": "md-hash", "seed": f"{ctx.seed}/mdh{i}", "era": era, "mask": mask})
    for i in range(ctx.budget(40, 600)):
        era = X.ERAS[i % 3]
        dispatch(ctx, {"ext": EXT, "kind": "md-build", "seed": f"{ctx.seed}/mdb{i}", "era": era, "mask": (i * 7 + 1) % 32 if era == "alonzo" else 2})


def replay_ext(ctx, case):
    dispatch(ctx, {k: v for k, v in case.items() if k in ("kind", "seed", "era", "mask", "ext")})
