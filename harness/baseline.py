"""Runs /repo's pinned test suite (guard off) and compares with /root/.vp/BASELINE.json stable_pass."""
import json
import subprocess
import sys
import tempfile
import xml.etree.ElementTree as ET

base = json.load(open("/root/.vp/BASELINE.json"))
with tempfile.NamedTemporaryFile(suffix=".xml") as f:
    cmd = base["cmd"].replace("<file>", f.name)
    subprocess.run(cmd, shell=True, stdout=subprocess.DEVNULL, stderr=subprocess.DEVNULL)
    root = ET.parse(f.name).getroot()
passed = set()
for tc in root.iter("testcase"):
    if not any(ch.tag in ("failure", "error", "skipped") for ch in tc):
        passed.add(f"{tc.get('classname')}::{tc.get('name')}")
missing = [t for t in base["stable_pass"] if t not in passed]
print(f"stable_pass={len(base['stable_pass'])} passed_now={len(passed)} missing={len(missing)}")
for m in missing[:20]:
    print("  MISSING", m)
sys.exit(1 if missing else 0)
