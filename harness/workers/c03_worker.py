"""C03 configuration worker: decodes serialized transactions with pycardano under ONE configuration of the process
(cbor2 back end, PYTHONHASHSEED) and reports what the property observes.

    python c03_worker.py pure|cext        (PYTHONHASHSEED is taken from the environment by the interpreter itself)

stdin : one JSON object per line  {"i": n, "hex": tx bytes, "bs": body start, "be": body end}
stdout: first line {"hello": {"backend": "pure"|"cext", "hashseed": "...", "pycardano": path}}, then per request
        {"i": n, "r": "ok" | "body" | "exc", "stage": "decode"|"encode"|"id", "exc": class name, "body": re-encoded body hex (when it
         differs), "id_ok": bool, "tx_same": bool | null}

`evaluate` is also imported by checks/c03.py for the in-process (pure back end) evaluation, so that both judge alike."""
import hashlib
import json
import os
import sys


def evaluate(b: bytes, bs: int, be: int) -> dict:
    from pycardano import Transaction
    want = b[bs:be]
    try:
        t = Transaction.from_cbor(b)
    except Exception as e:  # noqa: BLE001
        return {"r": "exc", "stage": "decode", "exc": type(e).__name__}
    try:
        body = t.transaction_body.to_cbor()
    except Exception as e:  # noqa: BLE001
        return {"r": "exc", "stage": "encode", "exc": type(e).__name__}
    try:
        tid = bytes(t.id.payload)
    except Exception as e:  # noqa: BLE001
        return {"r": "exc", "stage": "id", "exc": type(e).__name__}
    out = {"r": "ok" if body == want else "body", "id_ok": tid == hashlib.blake2b(want, digest_size=32).digest()}
    if body != want:
        out["body"] = body.hex()
    try:
        out["tx_same"] = t.to_cbor() == b
    except Exception:  # noqa: BLE001
        out["tx_same"] = None
    return out


def main():
    mode = sys.argv[1] if len(sys.argv) > 1 else "cext"
    if mode == "pure":
        sys.modules["_cbor2"] = None          # `from _cbor2 import *` fails: cbor2 keeps its pure-Python implementation
    import logging

    import cbor2
    import pycardano
    logging.getLogger("PyCardano").setLevel(logging.CRITICAL)
    is_c = type(cbor2.loads).__name__ == "builtin_function_or_method"
    sys.stdout.write(json.dumps({"hello": {"backend": "cext" if is_c else "pure", "hashseed": os.environ.get("PYTHONHASHSEED", ""),
                                           "pycardano": os.path.dirname(pycardano.__file__)}}) + "\n")
    sys.stdout.flush()
    for line in sys.stdin:
        line = line.strip()
        if not line:
            continue
        req = json.loads(line)
        res = evaluate(bytes.fromhex(req["hex"]), req["bs"], req["be"])
        res["i"] = req["i"]
        sys.stdout.write(json.dumps(res) + "\n")
        sys.stdout.flush()


if __name__ == "__main__":
    main()
