#!/bin/bash
# Re-validates every archived seeded change against the checks as they are now (scratch clones of /repo; /repo untouched).
# usage: harness/sweep_seeds.sh [outdir]     — prints the seeds that are not caught / not concrete / do not apply
cd "$(dirname "$0")/.."
out=${1:-/var/tmp/pyc-sweep}; mkdir -p "$out"
# seeds that change the codec tables regenerate lean/Pyc/Generated/Schema.lean: C01-C03 run one at a time, the rest 3 at a time
ls seeded | grep -v "^C0[123]-" | while read n; do echo "$n ${n%-*}"; done | \
  xargs -P 3 -L 1 sh -c '/venv/bin/python harness/seedtest.py seeded/$0 $1 --no-suite > '"$out"'/$0.json 2>/dev/null'
ls seeded | grep "^C0[123]-" | while read n; do /venv/bin/python harness/seedtest.py seeded/$n ${n%-*} --no-suite > "$out/$n.json" 2>/dev/null; done
python3 - "$out" <<'PY'
import json, glob, os, sys
for f in sorted(glob.glob(sys.argv[1] + "/*.json")):
    n = os.path.basename(f)[:-5]
    try:
        d = json.load(open(f))
    except Exception:
        print(n, "unreadable"); continue
    meta = json.load(open(f"seeded/{n}/meta.json"))
    sup = meta["check"].get("superseded_by_repair")
    if not d.get("applies"):
        print(n, "does not apply" + (f" (superseded by {sup})" if sup else ""))
    elif not d.get("caught"):
        print(n, "NOT caught; demo exit with the change:", d.get("demo_with_change"), f"(superseded by {sup})" if sup else "")
    elif not d.get("concrete"):
        print(n, "caught without a concrete input")
print(len(glob.glob(sys.argv[1] + "/*.json")), "seeds swept")
PY
