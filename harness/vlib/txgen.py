"""Generator of spec-level transaction contents (the content model of ref/conway.py) with a measured, coverage-biased
distribution, and `to_pycardano`: the corresponding pycardano objects built through public constructors only.

    cov = Coverage()
    spec = gen_spec_tx(rng, cov)                 # content; every alternative of the C02 quantifier is forced over a run
    wire = gen_wire(rng, spec, cov, mode="c02")  # encoding choices pycardano's constructors can express
    obj  = to_pycardano("tx", spec, wire)        # raises Inexpressible(reason) when the library cannot hold the content
    for kind, part, key in parts(spec): ...      # every part that is a serializable object of its own
"""
from __future__ import annotations

import math
from collections import Counter
from fractions import Fraction

from ref import conway as C

BOUND = [0, 23, 24, 255, 256, 65535, 65536, (1 << 32) - 1, 1 << 32, (1 << 63) - 1, (1 << 64) - 1]


class Inexpressible(Exception):
    """valid spec content that pycardano's public constructors cannot hold / serialize"""


# =====================================================================================================================
# coverage table
# =====================================================================================================================
class Coverage:
    """hit counts per feature (vocabulary of conway.features); choices are biased toward what has been hit least"""

    def __init__(self):
        self.hits = Counter()

    def w(self, item):
        return 1.0 / (1 + self.hits[item]) ** 2

    def choose(self, rng, group, options):
        ws = [self.w(f"{group}:{o}") for o in options]
        x = rng.random() * sum(ws)
        for o, wt in zip(options, ws):
            x -= wt
            if x <= 0:
                return o
        return options[-1]

    def want(self, rng, item, base):
        """include an optional item? always while it is unhit, then with a probability decaying toward `base`"""
        h = self.hits[item]
        return rng.random() < max(base, 1.0 / (1 + h))

    def note(self, feats):
        self.hits.update(feats)

    def missing(self, universe):
        return [u for u in universe if not self.hits[u]]


def universe():
    """the items the C02 quantifier names (each must be hit in a run)"""
    u = [f"body:{k}" for _, k in C.BODY_KEYS]
    u += [f"cert:{c}" for c in C.CERT_CODES]
    u += ["relay:addr", "relay:name", "relay:multi", "relay-port:none", "relay-port:some", "relay-ip:4-", "relay-ip:-6",
          "relay-ip:46", "relay-ip:--", "pool_metadata:none", "pool_metadata:some", "relays:none"]
    u += [f"voter:{c}" for c in range(5)] + [f"drep:{k}" for k in C.DREP_CODE] + [f"vote:{v}" for v in range(3)]
    u += [f"gov:{c}" for c in range(7)] + [f"ppu:{k}" for k in C.PPU_KIND]
    u += ["redeemers:list", "redeemers:map"] + [f"redeemer_tag:{t}" for t in range(6)]
    u += ["aux:shelley", "aux:shelley_ma", "aux:alonzo", "aux:none"] + [f"aux-alonzo:{k}" for k in ("metadata", "native", "v1", "v2", "v3")]
    u += [f"wits:{k}" for _, k in C.WITS_KEYS]
    u += ["out:legacy", "out:map", "datum:none", "datum:hash", "datum:inline", "script:none", "script:native", "script:v1",
          "script:v2", "script:v3", "value:coin-only", "value:assets", "credential:key", "credential:script",
          "anchor:none", "anchor:some", "mint:mint", "mint:burn"]
    u += [f"native:{c}" for c in range(6)] + ["native:nested"]
    u += [f"metadatum:{k}" for k in ("int", "bytes", "text", "list", "map")]
    u += [f"pdata:{k}" for k in ("constr", "list", "map", "int", "bytes", "constr-compact", "constr-general", "list-empty",
                                 "list-nonempty", "fields-empty", "fields-nonempty", "bytes-chunked", "bytes-plain",
                                 "int-big", "int-small")]
    u += [f"int:{b}" for b in BOUND]
    return u


# =====================================================================================================================
# content generators
# =====================================================================================================================
def rb(rng, n):
    return bytes(rng.getrandbits(8) for _ in range(n))


def gen_uint(rng, bits=64, lo=0):
    cands = [b for b in BOUND if lo <= b < (1 << bits)]
    if rng.random() < 0.55:
        return rng.choice(cands)
    e = rng.randint(0, bits)
    return max(lo, min((1 << bits) - 1, rng.getrandbits(e) if e else 0))


def gen_count(rng, lo=0, hi=6):
    return rng.choice([lo, lo, min(lo + 1, hi), min(lo + 1, hi), min(lo + 2, hi), hi, rng.randint(lo, hi)])


def gen_interval(rng, unit=True):
    """a reduced fraction (pycardano holds rationals as fractions.Fraction, which normalises)"""
    d = rng.choice([1, 2, 3, 10, 50, 100, 255, 256, 65536, 10 ** 9, (1 << 64) - 1])
    n = rng.randint(0, d) if unit else rng.choice([0, 1, d, d + 1, rng.randint(0, 4 * d)])
    n = min(n, (1 << 64) - 1)
    g = math.gcd(n, d)
    return [n // g, d // g]


def gen_credential(rng, cov):
    return {"k": cov.choose(rng, "credential", ["key", "script"]), "hash": rb(rng, 28)}


def gen_anchor(rng):
    n = rng.choice([0, 1, 20, 64, 128])
    url = "https://" + "a" * max(0, n - 8) if n >= 8 else "u" * n
    if rng.random() < 0.2:
        url = ("é" * 64)[: n // 2]           # two-byte code points: the limit is on bytes
    return {"url": url, "hash": rb(rng, 32)}


def gen_anchor_opt(rng, cov):
    return None if cov.choose(rng, "anchor", ["none", "some"]) == "none" else gen_anchor(rng)


def gen_drep(rng, cov):
    k = cov.choose(rng, "drep", list(C.DREP_CODE))
    return {"k": k, "hash": rb(rng, 28)} if k in ("key", "script") else {"k": k}


def gen_relay(rng, cov):
    k = cov.choose(rng, "relay", ["addr", "name", "multi"])
    port = None if cov.choose(rng, "relay-port", ["none", "some"]) == "none" else gen_uint(rng, 16)
    dns = rng.choice(["", "r", "relay1.example.com", "x" * 64, "y" * 128])
    if k == "addr":
        ip = cov.choose(rng, "relay-ip", ["4-", "-6", "46", "--"])
        return {"k": "addr", "port": port, "ipv4": rb(rng, 4) if "4" in ip else None, "ipv6": rb(rng, 16) if "6" in ip else None}
    if k == "name":
        return {"k": "name", "port": port, "dns": dns}
    return {"k": "multi", "dns": dns}


def gen_pool_params(rng, cov):
    return {"operator": rb(rng, 28), "vrf": rb(rng, 32), "pledge": gen_uint(rng), "cost": gen_uint(rng),
            "margin": gen_interval(rng), "reward_account": bytes([rng.choice([0xE0, 0xE1, 0xF0, 0xF1])]) + rb(rng, 28),
            "owners": [rb(rng, 28) for _ in range(gen_count(rng, 0, 3))],
            "relays": [] if cov.want(rng, "relays:none", 0.15) else [gen_relay(rng, cov) for _ in range(rng.randint(1, 3))],
            "metadata": None if cov.choose(rng, "pool_metadata", ["none", "some"]) == "none"
            else {"url": rng.choice(["", "https://meta1.example.com", "m" * 128]), "hash": rb(rng, 32)}}


def gen_cert(rng, cov, code=None):
    code = cov.choose(rng, "cert", C.CERT_CODES) if code is None else code
    cred = lambda: gen_credential(rng, cov)     # noqa: E731
    c = {"code": code}
    if code in (0, 1, 2, 7, 8, 9, 10, 11, 12, 13, 16, 17, 18):
        c["cred"] = cred()
    if code in (2, 4, 10, 11, 13):
        c["pool"] = rb(rng, 28)
    if code == 3:
        c["params"] = gen_pool_params(rng, cov)
    if code == 4:
        c["epoch"] = gen_uint(rng)
    if code in (9, 10, 12, 13):
        c["drep"] = gen_drep(rng, cov)
    if code in (7, 8, 11, 12, 13, 16, 17):
        c["coin"] = gen_uint(rng)
    if code in (14, 15):
        c["cold"] = cred()
    if code == 14:
        c["hot"] = cred()
    if code in (15, 16, 18):
        c["anchor"] = gen_anchor_opt(rng, cov)
    return c


def gen_native(rng, cov, depth=2):
    opts = ["pubkey", "all", "any", "n_of_k", "invalid_before", "invalid_hereafter"]
    if depth <= 0:
        opts = ["pubkey", "invalid_before", "invalid_hereafter"]
    k = cov.choose(rng, "native", [C.NATIVE_CODE[o] for o in opts])
    k = C.NATIVE_NAME[k]
    if k == "pubkey":
        return {"k": k, "hash": rb(rng, 28)}
    if k in ("all", "any"):
        return {"k": k, "scripts": [gen_native(rng, cov, depth - 1) for _ in range(rng.randint(0, 3))]}
    if k == "n_of_k":
        return {"k": k, "n": rng.choice([0, 1, 2, 23, 24, -1, C.I64_MAX, C.I64_MIN]),
                "scripts": [gen_native(rng, cov, depth - 1) for _ in range(rng.randint(0, 3))]}
    return {"k": k, "slot": gen_uint(rng)}


CIDS = [0, 1, 6, 7, 8, 127, 128, 1399, 1400, (1 << 32) - 1, 1 << 32]
BLENS = [0, 1, 28, 32, 63, 64, 65, 128, 129]


def gen_pdata(rng, cov, depth=3, top=False):
    """restricted to the domain on which C18 records no finding: |int| < 2^512, map keys distinct ints / byte strings"""
    kinds = ["constr", "list", "map", "int", "bytes"] if depth > 0 else ["int", "bytes", "constr"]
    k = cov.choose(rng, "pdata", kinds)
    if k == "constr":
        cid = rng.choice(CIDS) if cov.choose(rng, "pdata", ["constr-compact", "constr-general"]) == "constr-general" or rng.random() < 0.3 \
            else rng.choice([0, 1, 2, 6, 7, 127])
        n = 0 if depth <= 0 or cov.want(rng, "pdata:fields-empty", 0.2) else rng.randint(1, 3)
        return ["constr", cid, [gen_pdata(rng, cov, depth - 1) for _ in range(n)]]
    if k == "list":
        n = 0 if cov.want(rng, "pdata:list-empty", 0.2) else rng.randint(1, 3)
        return ["list", [gen_pdata(rng, cov, depth - 1) for _ in range(n)]]
    if k == "map":
        pairs, seen = [], set()
        for _ in range(rng.randint(0, 3)):
            key = ["int", rng.choice([0, 1, 23, 24, -1, 256, 1 << 40])] if rng.random() < 0.5 else ["bytes", rb(rng, rng.choice([0, 1, 28, 64, 65]))]
            kb = repr(key)
            if kb in seen:
                continue
            seen.add(kb)
            pairs.append([key, gen_pdata(rng, cov, depth - 1)])
        return ["map", pairs]
    if k == "int":
        if cov.want(rng, "pdata:int-big", 0.1):
            return ["int", rng.choice([1, -1]) * rng.choice([1 << 64, (1 << 64) + 1, 1 << 100, (1 << 511) + 5])]
        n = gen_uint(rng)
        return ["int", n if rng.random() < 0.7 else -1 - n]
    n = rng.choice([65, 128, 129]) if cov.want(rng, "pdata:bytes-chunked", 0.1) else rng.choice(BLENS[:6])
    return ["bytes", rb(rng, n)]


def gen_value(rng, cov):
    coin = gen_uint(rng)
    if cov.choose(rng, "value", ["coin-only", "assets"]) == "coin-only":
        return {"coin": coin, "assets": []}
    assets = []
    for _ in range(rng.randint(1, 3)):
        names, seen = [], set()
        for _ in range(rng.randint(1, 3)):
            n = rb(rng, rng.choice([0, 1, 2, 8, 31, 32]))
            if n in seen:
                continue
            seen.add(n)
            names.append([n, gen_uint(rng, 64, lo=1)])
        assets.append([rb(rng, 28), names])
    return {"coin": coin, "assets": assets}


def gen_mint(rng, cov):
    out = []
    for _ in range(rng.randint(1, 2)):
        names, seen = [], set()
        for _ in range(rng.randint(1, 3)):
            n = rb(rng, rng.choice([0, 1, 8, 32]))
            if n in seen:
                continue
            seen.add(n)
            q = rng.choice([1, 23, 24, 255, 256, 65536, 1 << 32, C.I64_MAX, rng.randint(1, 10 ** 9)])
            if cov.choose(rng, "mint", ["mint", "burn"]) == "burn":
                q = rng.choice([-q, C.I64_MIN, -1, -24, -25, -256, -257])
            names.append([n, q])
        out.append([rb(rng, 28), names])
    return out


ADDR_HEADERS = [0x00, 0x01, 0x10, 0x11, 0x20, 0x21, 0x30, 0x31, 0x60, 0x61, 0x70, 0x71]


def gen_address(rng):
    h = rng.choice(ADDR_HEADERS)
    return bytes([h]) + rb(rng, 28 if h >= 0x60 else 56)


def gen_script(rng, cov):
    k = cov.choose(rng, "script", ["none", "native", "v1", "v2", "v3"])
    if k == "none":
        return None
    if k == "native":
        return {"k": "native", "script": gen_native(rng, cov)}
    return {"k": "plutus", "v": int(k[1]), "bytes": rb(rng, rng.choice([0, 1, 23, 24, 60, 255, 256, 300]))}


def gen_output(rng, cov):
    d = cov.choose(rng, "datum", ["none", "hash", "inline"])
    datum = None if d == "none" else {"k": "hash", "hash": rb(rng, 32)} if d == "hash" \
        else {"k": "inline", "data": gen_pdata(rng, cov, rng.choice([1, 2, 3]), top=True)}
    return {"addr": gen_address(rng), "value": gen_value(rng, cov), "datum": datum, "script": gen_script(rng, cov)}


def gen_input(rng):
    return {"txid": rb(rng, 32), "ix": gen_uint(rng, 16)}


def gen_inputs(rng, n):
    out, seen = [], set()
    # 15% of the input lists: distinct inputs that LOOK alike — ids sharing all but the last (or the first) bytes and the
    # same index (anything that identifies an input by a shortened rendering merges them)
    near = rng.random() < 0.15 and n >= 2
    base, same_ix = rb(rng, 32), gen_uint(rng, 16)
    while len(out) < n:
        i = gen_input(rng)
        if near:
            j = len(out)
            i = {"txid": (base[:31] + bytes([j % 256])) if rng.random() < 0.7 else (bytes([j % 256]) + base[1:]), "ix": same_ix}
        k = (i["txid"], i["ix"])
        if k not in seen:
            seen.add(k)
            out.append(i)
    return out


def gen_reward_account(rng):
    return bytes([rng.choice([0xE0, 0xE1, 0xF0, 0xF1])]) + rb(rng, 28)


def gen_gaid(rng):
    return {"txid": rb(rng, 32), "ix": gen_uint(rng, 16)}


def gen_ppu_value(rng, key):
    kind = C.PPU_KIND[key]
    if kind == "coin":
        return gen_uint(rng)
    if kind in ("u32", "epoch"):
        return gen_uint(rng, 32)
    if kind == "u16":
        return gen_uint(rng, 16)
    if kind == "unit":
        return gen_interval(rng)
    if kind == "nonneg":
        return gen_interval(rng, unit=False)
    if kind == "costmdls":
        langs = sorted(rng.sample([0, 1, 2], rng.randint(1, 3)))
        return [[lang, [rng.choice([0, 1, -1, 23, 24, 205665, C.I64_MAX, C.I64_MIN]) for _ in range(rng.randint(0, 5))]] for lang in langs]
    if kind == "prices":
        return [gen_interval(rng, unit=False), gen_interval(rng, unit=False)]
    if kind == "exunits":
        return [gen_uint(rng), gen_uint(rng)]
    return [gen_interval(rng) for _ in range(5 if kind == "pvt" else 10)]


def gen_ppu(rng, cov):
    keys = [k for k in C.PPU_KIND if cov.want(rng, f"ppu:{k}", 0.12)]
    if len(keys) > 8:
        keys = sorted(rng.sample(keys, 8))
    return [[k, gen_ppu_value(rng, k)] for k in keys]


def gen_gov_action(rng, cov, code=None):
    code = cov.choose(rng, "gov", list(range(7))) if code is None else code
    prev = lambda: None if rng.random() < 0.4 else gen_gaid(rng)      # noqa: E731
    pol = lambda: None if rng.random() < 0.5 else rb(rng, 28)         # noqa: E731
    if code == 0:
        return {"code": 0, "prev": prev(), "update": gen_ppu(rng, cov), "policy": pol()}
    if code == 1:
        return {"code": 1, "prev": prev(), "version": [rng.choice([1, 9, 10]), rng.choice([0, 1, 24])]}
    if code == 2:
        accts = {gen_reward_account(rng) for _ in range(rng.randint(0, 3))}
        return {"code": 2, "withdrawals": [[a, gen_uint(rng)] for a in sorted(accts, key=lambda _: rng.random())], "policy": pol()}
    if code == 3:
        return {"code": 3, "prev": prev()}
    if code == 4:
        add = {}
        for _ in range(rng.randint(0, 3)):
            c = gen_credential(rng, cov)
            add[(c["k"], c["hash"])] = [c, gen_uint(rng)]
        return {"code": 4, "prev": prev(), "remove": [gen_credential(rng, cov) for _ in range(rng.randint(0, 3))],
                "add": list(add.values()), "quorum": gen_interval(rng)}
    if code == 5:
        return {"code": 5, "prev": prev(), "anchor": gen_anchor(rng), "script_hash": pol()}
    return {"code": 6}


def gen_proposal(rng, cov, code=None):
    return {"deposit": gen_uint(rng), "reward_account": gen_reward_account(rng), "action": gen_gov_action(rng, cov, code),
            "anchor": gen_anchor(rng)}


def gen_voter(rng, cov):
    return {"code": cov.choose(rng, "voter", [0, 1, 2, 3, 4]), "hash": rb(rng, 28)}


def gen_voting_procedures(rng, cov):
    out, seen = [], set()
    for _ in range(rng.randint(1, 3)):
        v = gen_voter(rng, cov)
        if (v["code"], v["hash"]) in seen:
            continue
        seen.add((v["code"], v["hash"]))
        votes, seen_g = [], set()
        for _ in range(rng.randint(1, 3)):
            g = gen_gaid(rng)
            if rng.random() < 0.4 and votes:
                g = {"txid": votes[0][0]["txid"], "ix": gen_uint(rng, 16)}     # same tx, another index: order by index width
            if (g["txid"], g["ix"]) in seen_g:
                continue
            seen_g.add((g["txid"], g["ix"]))
            votes.append([g, {"vote": cov.choose(rng, "vote", [0, 1, 2]), "anchor": gen_anchor_opt(rng, cov)}])
        out.append([v, votes])
    return out


def gen_metadatum(rng, cov, depth=2):
    kinds = ["int", "bytes", "text", "list", "map"] if depth > 0 else ["int", "bytes", "text"]
    k = cov.choose(rng, "metadatum", kinds)
    if k == "int":
        n = gen_uint(rng)
        return ["int", n if rng.random() < 0.7 else -1 - n]
    if k == "bytes":
        return ["bytes", rb(rng, rng.choice([0, 1, 23, 24, 63, 64]))]
    if k == "text":
        return ["text", rng.choice(["", "a", "hello", "x" * 23, "x" * 24, "y" * 64, "é" * 32, "日本語"])]
    if k == "list":
        return ["list", [gen_metadatum(rng, cov, depth - 1) for _ in range(rng.randint(0, 3))]]
    pairs, seen = [], set()
    for _ in range(rng.randint(0, 3)):
        key = gen_metadatum(rng, cov, 0)
        if repr(key) in seen:
            continue
        seen.add(repr(key))
        pairs.append([key, gen_metadatum(rng, cov, depth - 1)])
    return ["map", pairs]


def gen_metadata(rng, cov):
    labels = set()
    for _ in range(rng.randint(0, 4)):
        labels.add(rng.choice([0, 1, 23, 24, 255, 256, 674, 721, 65535, 65536, (1 << 32) - 1, 1 << 32, (1 << 64) - 1]))
    labels = sorted(labels, key=lambda _: rng.random())
    return [[label, gen_metadatum(rng, cov)] for label in labels]


def gen_scripts_bytes(rng):
    return [rb(rng, rng.choice([0, 1, 24, 100, 256])) for _ in range(rng.randint(0, 2))]


def gen_aux(rng, cov):
    k = cov.choose(rng, "aux", ["none", "shelley", "shelley_ma", "alonzo"])
    if k == "none":
        return None
    if k == "shelley":
        return {"k": k, "metadata": gen_metadata(rng, cov)}
    if k == "shelley_ma":
        return {"k": k, "metadata": gen_metadata(rng, cov), "native": [gen_native(rng, cov, 1) for _ in range(rng.randint(0, 2))]}
    a = {"k": "alonzo", "metadata": None, "native": None, "v1": None, "v2": None, "v3": None}
    if cov.want(rng, "aux-alonzo:metadata", 0.6):
        a["metadata"] = gen_metadata(rng, cov)
    if cov.want(rng, "aux-alonzo:native", 0.3):
        a["native"] = [gen_native(rng, cov, 1) for _ in range(rng.randint(0, 2))]
    for name in ("v1", "v2", "v3"):
        if cov.want(rng, f"aux-alonzo:{name}", 0.25):
            a[name] = gen_scripts_bytes(rng)
    return a


def gen_redeemers(rng, cov, lo=1, hi=4):
    items, seen = [], set()
    for _ in range(gen_count(rng, lo, hi)):
        tag = cov.choose(rng, "redeemer_tag", list(range(6)))
        ix = gen_uint(rng, 32)
        if (tag, ix) in seen:
            continue
        seen.add((tag, ix))
        items.append({"tag": tag, "ix": ix, "data": gen_pdata(rng, cov, rng.choice([0, 1, 2])), "mem": gen_uint(rng), "steps": gen_uint(rng)})
    return {"form": cov.choose(rng, "redeemers", ["list", "map"]), "items": items}


def distinct(kind, items):
    """a set has no repeated element: keep the first occurrence (compared by the reference encoding)"""
    out, seen = [], set()
    for x in items:
        k = C.encode_part(kind, x) if kind else bytes(x)
        if k not in seen:
            seen.add(k)
            out.append(x)
    return out


def gen_wits(rng, cov, lo=1, hi=4):
    ws = {}
    if cov.want(rng, "wits:0", 0.6):
        ws["vkeys"] = [{"vkey": rb(rng, 32), "sig": rb(rng, 64)} for _ in range(gen_count(rng, lo, hi))]
    if cov.want(rng, "wits:1", 0.25):
        ws["native"] = distinct("native_script", [gen_native(rng, cov) for _ in range(gen_count(rng, lo, 3))])
    if cov.want(rng, "wits:2", 0.12):
        ws["bootstrap"] = [{"vkey": rb(rng, 32), "sig": rb(rng, 64), "chain_code": rb(rng, 32), "attrs": rng.choice([b"\xa0", b"", rb(rng, 30)])}
                           for _ in range(gen_count(rng, lo, 2))]
    if cov.want(rng, "wits:3", 0.2):
        ws["v1"] = distinct(None, [rb(rng, rng.choice([1, 24, 100])) for _ in range(gen_count(rng, lo, 2))])
    if cov.want(rng, "wits:4", 0.25):
        ws["data"] = distinct("plutus_data", [gen_pdata(rng, cov, rng.choice([1, 2, 3])) for _ in range(gen_count(rng, lo, 3))])
    if cov.want(rng, "wits:5", 0.3):
        ws["redeemers"] = gen_redeemers(rng, cov, lo, hi)
    if cov.want(rng, "wits:6", 0.2):
        ws["v2"] = distinct(None, [rb(rng, rng.choice([1, 24, 100])) for _ in range(gen_count(rng, lo, 2))])
    if cov.want(rng, "wits:7", 0.2):
        ws["v3"] = distinct(None, [rb(rng, rng.choice([1, 24, 100])) for _ in range(gen_count(rng, lo, 2))])
    return ws


def gen_body(rng, cov, max_elems=6, min_set=1):
    """min_set: smallest size of the non-empty sets / lists (0 only for the examine streams of C03)"""
    # 3% of the bodies hold a long collection: 24 / 25 / 30 / 256 elements do not fit the initial byte of the CBOR head
    long_n = rng.choice([24, 24, 25, 30, 256]) if rng.random() < 0.03 else None
    long_what = rng.choice(["inputs", "outputs", "required_signers", "vkeys"]) if long_n else None
    b = {"inputs": gen_inputs(rng, long_n if long_what == "inputs" else gen_count(rng, 0, max_elems)),
         "outputs": [gen_output(rng, cov) for _ in range(long_n if long_what == "outputs" else gen_count(rng, 0, min(max_elems, 4)))],
         "fee": gen_uint(rng)}
    W = lambda key, base: cov.want(rng, f"body:{key}", base)      # noqa: E731
    if W(3, 0.4):
        b["ttl"] = gen_uint(rng)
    if W(4, 0.4):
        b["certs"] = [gen_cert(rng, cov) for _ in range(gen_count(rng, min_set, min(max_elems, 4)))]
    if W(5, 0.25):
        accts = []
        for _ in range(gen_count(rng, max(min_set, 1), 3)):
            a = gen_reward_account(rng)
            if rng.random() < 0.2:
                a = a[:rng.choice([1, 20])]           # shorter keys: canonical order is length-first
            if a not in [x[0] for x in accts]:
                accts.append([a, gen_uint(rng)])
        b["withdrawals"] = accts
    if W(7, 0.25):
        b["aux_hash"] = rb(rng, 32)
    if W(8, 0.3):
        b["validity_start"] = gen_uint(rng)
    if W(9, 0.25):
        b["mint"] = gen_mint(rng, cov)
    if W(11, 0.25):
        b["script_data_hash"] = rb(rng, 32)
    if W(13, 0.25):
        b["collateral"] = gen_inputs(rng, gen_count(rng, min_set, min(max_elems, 3)))
    if W(14, 0.25):
        b["required_signers"] = [rb(rng, 28) for _ in range(gen_count(rng, min_set, max_elems))]
    if long_what == "required_signers":
        b["required_signers"] = [rb(rng, 28) for _ in range(long_n)]
    if W(15, 0.2):
        b["network_id"] = rng.choice([0, 1])
    if W(16, 0.2):
        b["collateral_return"] = gen_output(rng, cov)
    if W(17, 0.2):
        b["total_collateral"] = gen_uint(rng)
    if W(18, 0.25):
        b["reference_inputs"] = gen_inputs(rng, gen_count(rng, min_set, max_elems))
    if W(19, 0.2):
        b["voting_procedures"] = gen_voting_procedures(rng, cov)
    if W(20, 0.3):
        b["proposals"] = [gen_proposal(rng, cov) for _ in range(gen_count(rng, min_set, 3))]
    if W(21, 0.15):
        b["treasury_value"] = gen_uint(rng)
    if W(22, 0.15):
        b["donation"] = gen_uint(rng, 64, lo=1)
    return b


def gen_spec_tx(rng, cov=None, max_elems=6, min_set=1):
    """one spec-level transaction; `cov` (a Coverage) biases every choice toward what the run has not produced yet"""
    cov = cov if cov is not None else Coverage()
    tx = {"body": gen_body(rng, cov, max_elems, min_set), "wits": gen_wits(rng, cov, max(min_set, 1)),
          "valid": rng.random() < 0.85, "aux": gen_aux(rng, cov)}
    if rng.random() < 0.01:
        tx["wits"] = {**(tx["wits"] or {}), "vkeys": [{"vkey": rb(rng, 32), "sig": rb(rng, 64)} for _ in range(rng.choice([24, 25, 30]))]}
    cov.note(C.features(tx))
    return tx


# ---- wire choices ------------------------------------------------------------------------------------------------------
CTOR_TAGGED_SITES = ["vkeys", "native_scripts", "plutus_v1", "plutus_v2", "plutus_v3"]   # TransactionWitnessSet.__post_init__


def output_keys(tx):
    keys = [(str(i), o) for i, o in enumerate(tx["body"]["outputs"])]
    if tx["body"].get("collateral_return") is not None:
        keys.append(("collateral_return", tx["body"]["collateral_return"]))
    return keys


def gen_wire(rng, tx, cov=None, mode="c02"):
    """mode c02: only choices the public constructors can express (the five witness-set sets the constructor always
    tags stay tagged); mode c03: every per-site choice"""
    style = rng.choice(["tagged", "untagged", "mixed", "mixed"])
    sets = {}
    for site in C.SET_SITES:
        sets[site] = True if style == "tagged" else False if style == "untagged" else rng.random() < 0.5
        if mode == "c02" and site in CTOR_TAGGED_SITES:
            sets[site] = True
    outs = {}
    for key, o in output_keys(tx):
        needs_map = (o.get("datum") or {}).get("k") == "inline" or o.get("script") is not None
        outs[key] = "map" if needs_map or rng.random() < 0.5 else "legacy"
    w = C.WireChoices(sets=sets, outputs=outs)
    if cov is not None:
        cov.note([f for f in C.features(tx, w) if f.startswith(("set:", "out:"))])
    return w


# =====================================================================================================================
# parts
# =====================================================================================================================
def parts(tx):
    """(kind, part, output key) of every part of a transaction that is a serializable object of its own"""
    out = []
    b = tx["body"]

    def native(s):
        out.append(("native_script", s, None))

    def output(o, key):
        out.append(("output", o, key))
        out.append(("value", o["value"], None))
        if o["value"].get("assets"):
            out.append(("multiasset", o["value"]["assets"], None))
        if o.get("datum") is not None and o["datum"]["k"] == "inline":
            out.append(("plutus_data", o["datum"]["data"], None))
        if o.get("script") is not None and o["script"]["k"] == "native":
            native(o["script"]["script"])
    for i in b["inputs"][:2]:
        out.append(("input", i, None))
    for i, o in enumerate(b["outputs"]):
        output(o, str(i))
    if b.get("collateral_return") is not None:
        output(b["collateral_return"], "collateral_return")
    for c in b.get("certs") or []:
        out.append(("certificate", c, None))
        for k in ("cred", "cold", "hot"):
            if k in c:
                out.append(("credential", c[k], None))
        if "drep" in c:
            out.append(("drep", c["drep"], None))
        if c.get("anchor") is not None:
            out.append(("anchor", c["anchor"], None))
        if c["code"] == 3:
            out.append(("pool_params", c["params"], None))
            for r in c["params"]["relays"]:
                out.append(("relay", r, None))
    if b.get("withdrawals") is not None:
        out.append(("withdrawals", b["withdrawals"], None))
    if b.get("mint") is not None:
        out.append(("mint", b["mint"], None))
    if b.get("voting_procedures") is not None:
        out.append(("voting_procedures", b["voting_procedures"], None))
        for voter, votes in b["voting_procedures"]:
            out.append(("voter", voter, None))
            for g, p in votes[:2]:
                out.append(("gov_action_id", g, None))
                out.append(("voting_procedure", p, None))
    for p in b.get("proposals") or []:
        out.append(("proposal", p, None))
        out.append(("gov_action", p["action"], None))
        if p["action"]["code"] == 0:
            out.append(("protocol_param_update", p["action"]["update"], None))
    out.append(("body", b, None))
    ws = tx.get("wits") or {}
    for v in (ws.get("vkeys") or [])[:2]:
        out.append(("vkey_witness", v, None))
    for s in ws.get("native") or []:
        native(s)
    for d in ws.get("data") or []:
        out.append(("plutus_data", d, None))
    if ws.get("redeemers") is not None:
        out.append(("redeemers", ws["redeemers"], None))
        for r in ws["redeemers"]["items"][:3]:
            out.append(("redeemer", r, None))
    out.append(("witness_set", ws, None))
    aux = tx.get("aux")
    if aux is not None:
        out.append(("aux_data", aux, None))
        if aux.get("metadata") is not None:
            out.append(("metadata", aux["metadata"], None))
        for s in aux.get("native") or []:
            native(s)
    out.append(("tx", tx, None))
    return out


# =====================================================================================================================
# spec content -> pycardano objects (public constructors only)
# =====================================================================================================================
def _pc():
    import pycardano as pc
    from pycardano import certificate as ce, governance as go, hash as ha, metadata as me, pool_params as pp
    from pycardano import nativescript as ns, plutus as pl, serialization as se, transaction as tr, witness as wi, key as ke
    return pc, ce, go, ha, me, pp, ns, pl, se, tr, wi, ke


def py_set(items, site, wire, nonempty=True):
    _, _, _, _, _, _, _, _, se, *_ = _pc()
    if wire.tagged(site):
        return (se.NonEmptyOrderedSet if nonempty else se.OrderedSet)(list(items))
    return list(items)


def py_pdata_prim(d, top=False, nested=False):
    """Plutus data -> the primitives pycardano's encoder writes in the ledger's framing: non-empty sequences as
    IndefiniteList, empty ones as plain lists, byte strings over 64 bytes as ByteString"""
    from cbor2 import CBORTag
    _, _, _, _, _, _, _, _, se, *_ = _pc()
    from ref import plutusdata_ref as P
    k = d[0]
    seq = lambda xs: se.IndefiniteList(xs) if xs else []      # noqa: E731
    if k == "constr":
        fields = seq([py_pdata_prim(x, nested=True) for x in d[2]])
        t = P.constr_tag(d[1])
        return CBORTag(t, fields) if t is not None else CBORTag(102, [d[1], fields])
    if k == "list":
        return seq([py_pdata_prim(x, nested=True) for x in d[1]])
    if k == "map":
        return {py_pdata_prim(a, nested=True): py_pdata_prim(b, nested=True) for a, b in d[1]}
    if k == "int":
        if abs(d[1]) >= 1 << 512:
            raise Inexpressible("plutus integer with a bignum payload over 64 bytes (cbor2 writes it unchunked; C18 finding)")
        return d[1]
    # a byte string of up to 64 bytes may be held either as plain `bytes` or in the `ByteString` wrapper (which is what
    # RawPlutusData.from_json / from_dict produce for anything over 32 bytes): same content, same prescribed bytes.  Nested
    # strings of 33..64 bytes take the wrapper in about half of the cases (a function of the content, so a case replays)
    if len(d[1]) > 64 or (nested and len(d[1]) > 32 and sum(d[1]) % 2 == 0):
        return se.ByteString(d[1])
    return d[1]


def py_datum(d):
    """inline datum of an output: the Datum union admits dict, int, bytes, IndefiniteList, RawPlutusData"""
    from cbor2 import CBORTag
    _, _, _, _, _, _, _, pl, se, *_ = _pc()
    prim = py_pdata_prim(d)
    if isinstance(prim, CBORTag):
        return pl.RawPlutusData(prim)
    if isinstance(prim, list):
        raise Inexpressible("inline datum that is the empty list (a plain list is not a Datum; IndefiniteList([]) writes 9fff)")
    if isinstance(prim, se.ByteString):
        raise Inexpressible("inline datum that is a byte string over 64 bytes (ByteString is not a Datum)")
    return prim


def py_native(s):
    _, _, _, ha, _, _, ns, *_ = _pc()
    k = s["k"]
    if k == "pubkey":
        return ns.ScriptPubkey(ha.VerificationKeyHash(s["hash"]))
    if k == "all":
        return ns.ScriptAll([py_native(x) for x in s["scripts"]])
    if k == "any":
        return ns.ScriptAny([py_native(x) for x in s["scripts"]])
    if k == "n_of_k":
        return ns.ScriptNofK(s["n"], [py_native(x) for x in s["scripts"]])
    if k == "invalid_before":
        return ns.InvalidBefore(s["slot"])
    return ns.InvalidHereAfter(s["slot"])


def py_script(s):
    _, _, _, _, _, _, _, pl, *_ = _pc()
    if s["k"] == "native":
        return py_native(s["script"])
    return {1: pl.PlutusV1Script, 2: pl.PlutusV2Script, 3: pl.PlutusV3Script}[s["v"]](s["bytes"])


def py_multiasset(ma):
    _, _, _, ha, _, _, _, _, _, tr, *_ = _pc()
    m = tr.MultiAsset()
    for p, assets in ma:
        a = tr.Asset()
        for n, q in assets:
            a[tr.AssetName(n)] = q
        m[ha.ScriptHash(p)] = a
    return m


def py_value(v):
    _, _, _, _, _, _, _, _, _, tr, *_ = _pc()
    return tr.Value(v["coin"], py_multiasset(v.get("assets") or []))


def py_output(o, wire, key):
    pc, _, _, ha, *_ = _pc()
    form = wire.form(key, o)
    d, s = o.get("datum"), o.get("script")
    kw = {}
    if d is not None and d["k"] == "hash":
        kw["datum_hash"] = ha.DatumHash(d["hash"])
    if d is not None and d["k"] == "inline":
        kw["datum"] = py_datum(d["data"])
    if s is not None:
        kw["script"] = py_script(s)
    if form == "legacy" and ("datum" in kw or "script" in kw):
        raise Inexpressible("legacy output with inline datum / script (not a form of the CDDL either)")
    # an inline datum or a reference script implies the map form whatever the flag says: half of those outputs are
    # constructed with the flag left at its default (False), the bytes must be the same
    flag = form == "map" and not (("datum" in kw or "script" in kw) and int(o["value"]["coin"]) % 2 == 0)
    if kw and int(o["value"]["coin"]) % 3 == 0:
        # construction history: the output is created bare and its datum hash / inline datum / reference script are ASSIGNED
        # afterwards (the flag is only raised by the constructor): the content is the same, so are the prescribed bytes
        out = pc.TransactionOutput(pc.Address.from_primitive(o["addr"]), py_value(o["value"]), post_alonzo=flag)
        for k, v in kw.items():
            setattr(out, k, v)
        return out
    return pc.TransactionOutput(pc.Address.from_primitive(o["addr"]), py_value(o["value"]), post_alonzo=flag, **kw)


def py_input(i):
    pc, _, _, ha, *_ = _pc()
    return pc.TransactionInput(ha.TransactionId(i["txid"]), i["ix"])


def py_cred_hash(c):
    _, _, _, ha, *_ = _pc()
    return ha.VerificationKeyHash(c["hash"]) if c["k"] == "key" else ha.ScriptHash(c["hash"])


def py_credential(c, cls=None):
    _, ce, *_ = _pc()
    return (cls or ce.StakeCredential)(py_cred_hash(c))


def py_drep(d):
    _, ce, _, ha, *_ = _pc()
    kind = {"key": ce.DRepKind.VERIFICATION_KEY_HASH, "script": ce.DRepKind.SCRIPT_HASH, "abstain": ce.DRepKind.ALWAYS_ABSTAIN,
            "no_confidence": ce.DRepKind.ALWAYS_NO_CONFIDENCE}[d["k"]]
    return ce.DRep(kind, py_cred_hash(d) if d["k"] in ("key", "script") else None)


def py_anchor(a):
    _, ce, _, ha, *_ = _pc()
    return None if a is None else ce.Anchor(a["url"], ha.AnchorDataHash(a["hash"]))


def py_relay(r):
    _, _, _, _, _, pp, *_ = _pc()
    if r["k"] == "addr":
        return pp.SingleHostAddr(port=r.get("port"), ipv4=r.get("ipv4"), ipv6=r.get("ipv6"))
    if r["k"] == "name":
        return pp.SingleHostName(port=r.get("port"), dns_name=r["dns"])
    return pp.MultiHostName(dns_name=r["dns"])


def py_fraction(q):
    n, d = q
    if math.gcd(n, d) != 1:
        raise Inexpressible("rational not in lowest terms (fractions.Fraction normalises)")
    return Fraction(n, d)


def py_pool_params(p, wire):
    _, _, _, ha, _, pp, *_ = _pc()
    md = p.get("metadata")
    return pp.PoolParams(operator=ha.PoolKeyHash(p["operator"]), vrf_keyhash=ha.VrfKeyHash(p["vrf"]), pledge=p["pledge"],
                         cost=p["cost"], margin=py_fraction(p["margin"]),
                         reward_account=ha.RewardAccountHash(p["reward_account"]),
                         pool_owners=py_set([ha.VerificationKeyHash(h) for h in p["owners"]], "pool_owners", wire, nonempty=False),
                         relays=[py_relay(r) for r in p["relays"]],
                         pool_metadata=None if md is None else pp.PoolMetadata(md["url"], ha.PoolMetadataHash(md["hash"])))


def py_cert(c, wire):
    _, ce, _, ha, *_ = _pc()
    code = c["code"]
    cred = lambda: py_credential(c["cred"])                         # noqa: E731
    dcred = lambda: py_credential(c["cred"], ce.DRepCredential)     # noqa: E731
    pool = lambda: ha.PoolKeyHash(c["pool"])                        # noqa: E731
    if code == 0:
        return ce.StakeRegistration(cred())
    if code == 1:
        return ce.StakeDeregistration(cred())
    if code == 2:
        return ce.StakeDelegation(cred(), pool())
    if code == 3:
        return ce.PoolRegistration(py_pool_params(c["params"], wire))
    if code == 4:
        return ce.PoolRetirement(pool(), c["epoch"])
    if code == 7:
        return ce.StakeRegistrationConway(cred(), c["coin"])
    if code == 8:
        return ce.StakeDeregistrationConway(cred(), c["coin"])
    if code == 9:
        return ce.VoteDelegation(cred(), py_drep(c["drep"]))
    if code == 10:
        return ce.StakeAndVoteDelegation(cred(), pool(), py_drep(c["drep"]))
    if code == 11:
        return ce.StakeRegistrationAndDelegation(cred(), pool(), c["coin"])
    if code == 12:
        return ce.StakeRegistrationAndVoteDelegation(cred(), py_drep(c["drep"]), c["coin"])
    if code == 13:
        return ce.StakeRegistrationAndDelegationAndVoteDelegation(cred(), pool(), py_drep(c["drep"]), c["coin"])
    if code == 14:
        return ce.AuthCommitteeHotCertificate(py_credential(c["cold"]), py_credential(c["hot"]))
    if code == 15:
        return ce.ResignCommitteeColdCertificate(py_credential(c["cold"]), py_anchor(c.get("anchor")))
    if code == 16:
        return ce.RegDRepCert(dcred(), c["coin"], py_anchor(c.get("anchor")))
    if code == 17:
        return ce.UnregDRepCertificate(dcred(), c["coin"])
    if code == 18:
        return ce.UpdateDRepCertificate(dcred(), py_anchor(c.get("anchor")))
    raise ValueError(code)


def py_voter(v):
    _, _, go, ha, *_ = _pc()
    t = {0: go.VoterType.COMMITTEE_HOT, 1: go.VoterType.COMMITTEE_HOT, 2: go.VoterType.DREP, 3: go.VoterType.DREP,
         4: go.VoterType.STAKING_POOL}[v["code"]]
    return go.Voter(ha.ScriptHash(v["hash"]) if v["code"] in (1, 3) else ha.VerificationKeyHash(v["hash"]), t)


def py_gaid(g):
    _, _, go, ha, *_ = _pc()
    return None if g is None else go.GovActionId(ha.TransactionId(g["txid"]), g["ix"])


def py_voting_procedure(p):
    _, _, go, *_ = _pc()
    return go.VotingProcedure(go.Vote(p["vote"]), py_anchor(p.get("anchor")))


def py_voting_procedures(vp):
    _, _, go, *_ = _pc()
    out = go.VotingProcedures()
    for voter, votes in vp:
        inner = go.GovActionIdToVotingProcedure()
        for g, p in votes:
            inner[py_gaid(g)] = py_voting_procedure(p)
        out[py_voter(voter)] = inner
    return out


PPU_FIELD = {0: "min_fee_a", 1: "min_fee_b", 2: "max_block_body_size", 3: "max_transaction_size", 4: "max_block_header_size",
             5: "key_deposit", 6: "pool_deposit", 7: "maximum_epoch", 8: "n_opt", 9: "pool_pledge_influence", 10: "expansion_rate",
             11: "treasury_growth_rate", 16: "min_pool_cost", 17: "ada_per_utxo_byte", 18: "cost_models", 19: "execution_costs",
             20: "max_tx_ex_units", 21: "max_block_ex_units", 22: "max_value_size", 23: "collateral_percentage",
             24: "max_collateral_inputs", 25: "pool_voting_thresholds", 26: "drep_voting_thresholds", 27: "min_committee_size",
             28: "committee_term_limit", 29: "governance_action_validity_period", 30: "governance_action_deposit",
             31: "drep_deposit", 32: "drep_inactivity_period", 33: "min_fee_ref_script_cost"}


def py_ppu(u):
    _, _, go, _, _, _, _, pl, *_ = _pc()
    kw = {}
    for k, v in u:
        kind = C.PPU_KIND[k]
        if kind in ("unit", "nonneg"):
            v = py_fraction(v)
        elif kind == "costmdls":
            v = {lang: list(costs) for lang, costs in sorted(v)}
        elif kind == "prices":
            v = go.ExUnitPrices(py_fraction(v[0]), py_fraction(v[1]))
        elif kind == "exunits":
            v = pl.ExecutionUnits(v[0], v[1])
        elif kind == "pvt":
            v = go.PoolVotingThresholds(*[py_fraction(q) for q in v])
        elif kind == "dvt":
            v = go.DRepVotingThresholds(*[py_fraction(q) for q in v])
        kw[PPU_FIELD[k]] = v
    return go.ProtocolParamUpdate(**kw)


def py_gov_action(a, wire):
    _, _, go, ha, _, _, _, _, se, *_ = _pc()
    code = a["code"]
    pol = lambda: None if a.get("policy") is None else ha.PolicyHash(a["policy"])     # noqa: E731
    if code == 0:
        return go.ParameterChangeAction(py_gaid(a.get("prev")), py_ppu(a["update"]), pol())
    if code == 1:
        return go.HardForkInitiationAction(py_gaid(a.get("prev")), (a["version"][0], a["version"][1]))
    if code == 2:
        tw = go.TreasuryWithdrawal()
        for k, c in a["withdrawals"]:
            tw[k] = c
        return go.TreasuryWithdrawalsAction(tw, pol())
    if code == 3:
        return go.NoConfidence(py_gaid(a.get("prev")))
    if code == 4:
        m = go.CommitteeColdCredentialEpochMap()
        for c, e in a["add"]:
            m[py_credential(c, go.CommitteeColdCredential)] = e
        rem = [py_credential(c, go.CommitteeColdCredential) for c in a["remove"]]
        return go.UpdateCommittee(py_gaid(a.get("prev")), se.OrderedSet(rem) if wire.tagged("committee_remove") else rem, m,
                                  py_fraction(a["quorum"]))
    if code == 5:
        sh = a.get("script_hash")
        return go.NewConstitution(py_gaid(a.get("prev")), (py_anchor(a["anchor"]), None if sh is None else ha.ScriptHash(sh)))
    return go.InfoAction()


def py_proposal(p, wire):
    _, _, go, *_ = _pc()
    return go.ProposalProcedure(p["deposit"], p["reward_account"], py_gov_action(p["action"], wire), py_anchor(p["anchor"]))


def py_withdrawals(ws):
    pc, *_ = _pc()
    w = pc.Withdrawals()
    for k, c in ws:
        w[k] = c
    return w


def py_metadatum(m):
    k = m[0]
    if k in ("int", "bytes", "text"):
        return m[1]
    if k == "list":
        return [py_metadatum(x) for x in m[1]]
    out = {}
    for a, b in m[1]:
        key = py_metadatum(a)
        try:
            hash(key)
        except TypeError:
            raise Inexpressible("metadatum map keyed by a list / map (a Python dict key must be hashable)")
        out[key] = py_metadatum(b)
    return out


def py_metadata(md):
    _, _, _, _, me, *_ = _pc()
    return me.Metadata({label: py_metadatum(v) for label, v in md})


def py_aux(a):
    _, _, _, _, me, _, _, pl, *_ = _pc()
    if a["k"] == "shelley":
        return me.AuxiliaryData(py_metadata(a["metadata"]))
    if a["k"] == "shelley_ma":
        return me.AuxiliaryData(me.ShelleyMarryMetadata(py_metadata(a["metadata"]), [py_native(s) for s in a["native"]]))
    kw = {}
    if a.get("metadata") is not None:
        kw["metadata"] = py_metadata(a["metadata"])
    if a.get("native") is not None:
        kw["native_scripts"] = [py_native(s) for s in a["native"]]
    for name, cls, f in (("v1", pl.PlutusV1Script, "plutus_v1_scripts"), ("v2", pl.PlutusV2Script, "plutus_v2_scripts"),
                         ("v3", pl.PlutusV3Script, "plutus_v3_scripts")):
        if a.get(name) is not None:
            kw[f] = [cls(s) for s in a[name]]
    return me.AuxiliaryData(me.AlonzoMetadata(**kw))


def py_redeemer(r):
    _, _, _, _, _, _, _, pl, *_ = _pc()
    x = pl.Redeemer(py_pdata_prim(r["data"]), pl.ExecutionUnits(r["mem"], r["steps"]))
    x.tag = pl.RedeemerTag(r["tag"])        # tag / index are init=False fields: attribute assignment is the public way
    x.index = r["ix"]
    return x


def py_redeemers(rs):
    _, _, _, _, _, _, _, pl, *_ = _pc()
    if rs["form"] == "list":
        return [py_redeemer(r) for r in rs["items"]]
    m = pl.RedeemerMap()
    for r in rs["items"]:
        m[pl.RedeemerKey(pl.RedeemerTag(r["tag"]), r["ix"])] = pl.RedeemerValue(py_pdata_prim(r["data"]), pl.ExecutionUnits(r["mem"], r["steps"]))
    return m


def py_vkey_witness(v):
    _, _, _, _, _, _, _, _, _, _, wi, ke = _pc()
    return wi.VerificationKeyWitness(ke.VerificationKey(v["vkey"]), v["sig"])


def py_wits(ws, wire):
    _, _, _, _, _, _, _, pl, _, _, wi, _ = _pc()
    for site in CTOR_TAGGED_SITES:
        name = {v: k for k, v in C.WITS_SITE.items()}[site]
        if ws.get(name) is not None and not wire.tagged(site):
            raise Inexpressible(f"untagged {site}: TransactionWitnessSet.__post_init__ re-wraps every list in a tagged NonEmptyOrderedSet")
    kw = {}
    if ws.get("vkeys") is not None:
        kw["vkey_witnesses"] = py_set([py_vkey_witness(v) for v in ws["vkeys"]], "vkeys", wire)
    if ws.get("native") is not None:
        kw["native_scripts"] = py_set([py_native(s) for s in ws["native"]], "native_scripts", wire)
    if ws.get("bootstrap") is not None:
        kw["bootstrap_witness"] = py_set([[b["vkey"], b["sig"], b["chain_code"], b["attrs"]] for b in ws["bootstrap"]], "bootstrap", wire)
    for name, cls, f, site in (("v1", pl.PlutusV1Script, "plutus_v1_script", "plutus_v1"), ("v2", pl.PlutusV2Script, "plutus_v2_script", "plutus_v2"),
                               ("v3", pl.PlutusV3Script, "plutus_v3_script", "plutus_v3")):
        if ws.get(name) is not None:
            kw[f] = py_set([cls(s) for s in ws[name]], site, wire)
    if ws.get("data") is not None:
        kw["plutus_data"] = py_set([py_pdata_prim(d) for d in ws["data"]], "plutus_data", wire)
    if ws.get("redeemers") is not None:
        kw["redeemer"] = py_redeemers(ws["redeemers"])
    return wi.TransactionWitnessSet(**kw)


def py_body(b, wire):
    pc, _, _, ha, *_ = _pc()
    if b.get("extra"):
        raise Inexpressible("foreign body keys")
    kw = {"inputs": py_set([py_input(i) for i in b["inputs"]], "inputs", wire, nonempty=False),
          "outputs": [py_output(o, wire, str(i)) for i, o in enumerate(b["outputs"])], "fee": b["fee"]}
    G = b.get
    if G("ttl") is not None:
        kw["ttl"] = b["ttl"]
    if G("certs") is not None:
        kw["certificates"] = py_set([py_cert(c, wire) for c in b["certs"]], "certs", wire)
    if G("withdrawals") is not None:
        kw["withdraws"] = py_withdrawals(b["withdrawals"])
    if G("aux_hash") is not None:
        kw["auxiliary_data_hash"] = ha.AuxiliaryDataHash(b["aux_hash"])
    if G("validity_start") is not None:
        kw["validity_start"] = b["validity_start"]
    if G("mint") is not None:
        kw["mint"] = py_multiasset(b["mint"])
    if G("script_data_hash") is not None:
        kw["script_data_hash"] = ha.ScriptDataHash(b["script_data_hash"])
    if G("collateral") is not None:
        kw["collateral"] = py_set([py_input(i) for i in b["collateral"]], "collateral", wire)
    if G("required_signers") is not None:
        kw["required_signers"] = py_set([ha.VerificationKeyHash(h) for h in b["required_signers"]], "required_signers", wire)
    if G("network_id") is not None:
        kw["network_id"] = pc.Network(b["network_id"])
    if G("collateral_return") is not None:
        kw["collateral_return"] = py_output(b["collateral_return"], wire, "collateral_return")
    if G("total_collateral") is not None:
        kw["total_collateral"] = b["total_collateral"]
    if G("reference_inputs") is not None:
        kw["reference_inputs"] = py_set([py_input(i) for i in b["reference_inputs"]], "reference_inputs", wire)
    if G("voting_procedures") is not None:
        kw["voting_procedures"] = py_voting_procedures(b["voting_procedures"])
    if G("proposals") is not None:
        kw["proposal_procedures"] = py_set([py_proposal(p, wire) for p in b["proposals"]], "proposals", wire)
    if G("treasury_value") is not None:
        kw["current_treasury_value"] = b["treasury_value"]
    if G("donation") is not None:
        kw["donation"] = b["donation"]
    return pc.TransactionBody(**kw)


def py_tx(tx, wire):
    pc, *_ = _pc()
    return pc.Transaction(py_body(tx["body"], wire), py_wits(tx.get("wits") or {}, wire), tx.get("valid", True),
                          None if tx.get("aux") is None else py_aux(tx["aux"]))


def to_pycardano(kind, part, wire=None, key="0"):
    """the pycardano object for one part (kinds: those yielded by `parts`); raises Inexpressible"""
    _, _, _, _, _, _, _, pl, *_ = _pc()
    w = wire or C.WireChoices()
    if w.plutus_lists != "canonical" or w.plutus_bytes != "canonical" or w.table_order != "canonical" or w.body_order or w.wits_order:
        raise Inexpressible("non-canonical framing / map order cannot be chosen through the constructors")
    f = {
        "tx": lambda: py_tx(part, w), "body": lambda: py_body(part, w), "witness_set": lambda: py_wits(part, w),
        "aux_data": lambda: py_aux(part), "metadata": lambda: py_metadata(part), "output": lambda: py_output(part, w, key),
        "value": lambda: py_value(part), "multiasset": lambda: py_multiasset(part), "mint": lambda: py_multiasset(part),
        "input": lambda: py_input(part), "withdrawals": lambda: py_withdrawals(part), "certificate": lambda: py_cert(part, w),
        "pool_params": lambda: py_pool_params(part, w), "relay": lambda: py_relay(part), "credential": lambda: py_credential(part),
        "drep": lambda: py_drep(part), "anchor": lambda: py_anchor(part), "voter": lambda: py_voter(part),
        "gov_action_id": lambda: py_gaid(part), "voting_procedure": lambda: py_voting_procedure(part),
        "voting_procedures": lambda: py_voting_procedures(part), "gov_action": lambda: py_gov_action(part, w),
        "proposal": lambda: py_proposal(part, w), "protocol_param_update": lambda: py_ppu(part),
        "native_script": lambda: py_native(part), "redeemer": lambda: py_redeemer(part), "vkey_witness": lambda: py_vkey_witness(part),
        "redeemers": lambda: py_redeemers(part),
        "plutus_data": lambda: pl.RawPlutusData(_raw_datum(part)),
    }[kind]
    return f()


def _raw_datum(d):
    """RawPlutusData admits PlutusData, dict, int, bytes, IndefiniteList, RawCBOR, CBORTag at its top"""
    _, _, _, _, _, _, _, _, se, *_ = _pc()
    prim = py_pdata_prim(d)
    if isinstance(prim, list):
        raise Inexpressible("the empty list as a datum of its own (C18: RawPlutusData refuses a plain list)")
    if isinstance(prim, se.ByteString):
        raise Inexpressible("a byte string over 64 bytes as a datum of its own (ByteString is not a RawDatum)")
    return prim
