"""Plutus scenarios for C11 / C12: generator, extra builder calls, independent reading of the built transaction.

A scenario is the JSON grammar of vlib/scenario.py plus
  * extra ops registered in `scenario.EXTRA_OPS` (`x_script_input`, `x_minting_script`, `x_withdrawal_script`,
    `x_certificate_script`, `x_output_datum`, `x_cost_models`) whose datums / redeemer data are built by `mk_data` from a
    richer data grammar (every Plutus data shape) and which can hand the builder raw `bytes` scripts;
  * a key "x" with the list of attachments (what each redeemer was attached to) that the oracle judges against.
Every redeemer's data contains one *marker* integer (MARK + attachment number) by which the oracle recognises it
in the decoded transaction bytes."""
from __future__ import annotations

import copy
import hashlib
from dataclasses import dataclass
from typing import Dict, List

import cbor2
from cbor2 import CBORTag

import pycardano as pc
from pycardano import (Address, ExecutionUnits, PlutusData, RawCBOR, RawPlutusData, Redeemer, Withdrawals)
from pycardano.serialization import IndefiniteList, default_encoder

from ref import cbor_ref as R
from ref import ledger_ref as L
from vlib import scenario as S

import logging as _logging
import pycardano.logging as _pyc_logging

# the builder's @log_state decorator pretty-prints the whole builder after every build; only the formatting helper of
# the logging module is neutralised (no functional code is touched)
_pyc_logging.pformat = lambda *a, **k: ""
_pyc_logging.logger.setLevel(_logging.CRITICAL)

MARK = 7_000_000


# ---- typed PlutusData used by the data factory --------------------------------------------------------------------
@dataclass
class PD0(PlutusData):
    CONSTR_ID = 0
    a: int
    b: bytes


@dataclass
class PD1(PlutusData):
    CONSTR_ID = 3
    x: PD0
    l: List[int]
    m: Dict[int, bytes]


@dataclass
class PDBig(PlutusData):
    CONSTR_ID = 9          # tag 1282
    n: int


def mk_data(spec):
    """int | ['bytes', hex] | ['list', [..]] | ['ilist', [..]] | ['map', [[k, v]..]] | ['constr', id, [..]] |
    ['tag102', id, [..]] | ['pd0', a, hex] | ['pd1', a, hex, [ints], [[int, hex]..]] | ['pdbig', n] | ['rawcbor', spec]"""
    if isinstance(spec, int):
        return spec
    k = spec[0]
    if k == "bytes":
        return bytes.fromhex(spec[1])
    if k == "list":
        return [mk_prim(s) for s in spec[1]]
    if k == "ilist":
        return IndefiniteList([mk_prim(s) for s in spec[1]])
    if k == "map":
        return {mk_prim(a): mk_prim(b) for a, b in spec[1]}
    if k == "constr":
        cid = spec[1]
        fields = [mk_prim(f) for f in spec[2]]
        body = IndefiniteList(fields) if fields else []
        tag = 121 + cid if cid < 7 else 1280 + cid - 7
        return RawPlutusData(CBORTag(tag, body))
    if k == "tag102":
        return RawPlutusData(CBORTag(102, [spec[1], IndefiniteList([mk_prim(f) for f in spec[2]])]))
    if k == "constr_ie":      # constructor whose EMPTY field list is written 9f ff (as some off-chain tools do)
        cid = spec[1]
        return RawPlutusData(CBORTag(121 + cid if cid < 7 else 1280 + cid - 7, IndefiniteList([])))
    if k == "pd0":
        return PD0(spec[1], bytes.fromhex(spec[2]))
    if k == "pd1":
        return PD1(PD0(spec[1], bytes.fromhex(spec[2])), list(spec[3]), {int(a): bytes.fromhex(b) for a, b in spec[4]})
    if k == "pdbig":
        return PDBig(spec[1])
    if k == "rawcbor":
        return RawCBOR(R.enc(ref_data(spec[1])))
    raise ValueError(k)


def mk_prim(spec):
    d = mk_data(spec)
    return d.data if isinstance(d, RawPlutusData) else d


def ref_data(spec):
    """the same grammar as a ref/cbor_ref.py object (only used to *produce* RawCBOR payloads)"""
    if isinstance(spec, int):
        return spec
    k = spec[0]
    if k == "bytes":
        return bytes.fromhex(spec[1])
    if k == "list":
        return [ref_data(s) for s in spec[1]]
    if k == "ilist":
        return R.IndefList([ref_data(s) for s in spec[1]])
    if k == "map":
        return R.Map([(ref_data(a), ref_data(b)) for a, b in spec[1]])
    if k == "constr":
        cid = spec[1]
        f = [ref_data(s) for s in spec[2]]
        return R.Tag(121 + cid if cid < 7 else 1280 + cid - 7, R.IndefList(f) if f else [])
    if k == "constr_ie":
        cid = spec[1]
        return R.Tag(121 + cid if cid < 7 else 1280 + cid - 7, R.IndefList([]))
    raise ValueError(k)


def data_cbor(obj) -> bytes:
    """the bytes the implementation's hashing route produces for a datum / redeemer data object"""
    return cbor2.dumps(obj, default=default_encoder)


def find_markers(x, out=None):
    """marker integers inside a cbor_ref-decoded object"""
    if out is None:
        out = []
    if isinstance(x, bool) or x is None:
        return out
    if isinstance(x, int):
        if MARK <= x < MARK + 100000:
            out.append(x)
    elif isinstance(x, (list, tuple)):
        for i in x:
            find_markers(i, out)
    elif isinstance(x, R.Map):
        for a, b in x.pairs:
            find_markers(a, out)
            find_markers(b, out)
    elif isinstance(x, R.Tag):
        find_markers(x.value, out)
    return out


# ---- scripts ---------------------------------------------------------------------------------------------------------
def script_obj(spec, raw=False):
    s = S.any_script(spec)
    if raw:
        assert isinstance(spec, str) and spec.startswith("p1:")
        return bytes(s)
    return s


def plutus_body(name: str) -> bytes:
    """the deterministic script bytes of scenario.plutus_script, re-derived here (independent of pycardano)"""
    ver, tag = name.split(":", 1)
    key = tag[tag.index("="):] if "=" in tag else None
    return hashlib.blake2b(("script/" + (key or name)).encode(), digest_size=40).digest() + bytes([len(key or tag) % 7])


def ref_script_hash(lang: int, body: bytes) -> bytes:
    """ledger script hash: blake2b-224(language prefix byte ‖ script bytes); native = prefix 0 ‖ CBOR of the script"""
    return hashlib.blake2b(bytes([lang]) + body, digest_size=28).digest()


def spec_hash(spec) -> bytes:
    """script hash of a scenario script spec, computed with hashlib"""
    if isinstance(spec, str):
        return ref_script_hash(int(spec[1]), plutus_body(spec))
    return ref_script_hash(0, S.native_script(spec).to_cbor())


def spec_kind(spec, raw=False) -> str:
    if isinstance(spec, str):
        return "raw" if raw else "v" + spec[1]
    return "native"


# ---- extra builder calls ------------------------------------------------------------------------------------------------
def _redeemer(o):
    r = o.get("redeemer")
    if r is None:
        return None
    d = mk_data(r["data"])
    if r.get("units") is not None:
        return Redeemer(d, ExecutionUnits(int(r["units"][0]), int(r["units"][1])))
    return Redeemer(d)


def _script_arg(cx, o):
    if o.get("script_in") == "ref":
        return cx.utxo_objs[o["ref_utxo"]]
    return script_obj(o["script"], bool(o.get("raw")))


def x_script_input(b, cx, o, run, idx):
    u = cx.utxo_objs[o["u"]]
    d = mk_data(o["datum"]) if o.get("datum") is not None else None
    mode = o.get("datum_mode")
    if mode in ("hash", "hash-unsupplied"):      # chain data: the UTxO is locked by the hash of that datum
        u.output.datum_hash = pc.datum_hash(d)
    elif mode == "inline":
        u.output.datum = d
    r = _redeemer(o)
    run.redeemer_objs[idx] = r
    sc = None
    if o.get("script_in") == "witness":
        sc = script_obj(o["script"], bool(o.get("raw")))
    elif o.get("script_in") == "ref":
        sc = cx.utxo_objs[o["ref_utxo"]]
    b.add_script_input(u, sc, d if mode == "hash" else None, r)


def x_minting_script(b, cx, o, run, idx):
    r = _redeemer(o)
    run.redeemer_objs[idx] = r
    b.add_minting_script(_script_arg(cx, o), r)


def x_withdrawal_script(b, cx, o, run, idx):
    r = _redeemer(o)
    run.redeemer_objs[idx] = r
    b.add_withdrawal_script(_script_arg(cx, o), r)


def x_certificate_script(b, cx, o, run, idx):
    r = _redeemer(o)
    run.redeemer_objs[idx] = r
    b.add_certificate_script(_script_arg(cx, o), r)


def x_output_datum(b, cx, o, run, idx):
    out = S.mk_output(o)
    b.add_output(out, datum=mk_data(o["datum"]), add_datum_to_witness=bool(o.get("witness", True)))


def x_cost_models(b, cx, o, run, idx):
    """protocol parameters: {'PlutusV1': [[name, value]..], ...} with names in the given (unsorted) order"""
    cm = cx.protocol_param.cost_models
    cm.clear()
    for k, tab in o["tables"].items():
        cm[k] = {n: int(v) for n, v in tab}


def x_withdraw_first(b, cx, o, run, idx):
    """withdrawals set as a fresh Withdrawals object in the given order (insertion order differs from byte order)"""
    w = Withdrawals()
    for e in o["entries"]:
        if "script" in e:
            ra = Address(staking_part=pc.script_hash(S.any_script(e["script"])), network=S.NET)
        else:
            ra = Address(staking_part=S.vkh(e["stake"]), network=S.NET)
        w[bytes(ra)] = int(e["amount"])
    b.withdrawals = w


def x_mint_set(b, cx, o, run, idx):
    """`builder.mint = MultiAsset(...)` stored as given (no `+`, hence no normalisation): may hold zero quantities"""
    b.mint = S.multi_asset(o["assets"])


for _n, _f in [("x_mint_set", x_mint_set), ("x_script_input", x_script_input), ("x_minting_script", x_minting_script),
               ("x_withdrawal_script", x_withdrawal_script), ("x_certificate_script", x_certificate_script),
               ("x_output_datum", x_output_datum), ("x_cost_models", x_cost_models),
               ("x_withdrawals", x_withdraw_first)]:
    S.EXTRA_OPS[_n] = _f


# ---- generator ------------------------------------------------------------------------------------------------------------
FIRST = ["00", "09", "0a", "0f", "10", "1f", "5c", "99", "9a", "9f", "a0", "ab", "f0", "ff"]
LONG = "ab" * 70


def gen_shape(rng, depth=0):
    """a random data spec without markers"""
    r = rng.random()
    if depth > 2 or r < 0.3:
        return rng.choice([0, 1, 23, 24, -1, -25, 255, 65536, 2**32, 2**64 - 1, 2**64, -(2**64) - 1, 10**30])
    if r < 0.45:
        return ["bytes", rng.choice(["", "00", "ff" * 28, "cd" * 64, "ef" * 65, LONG])]
    if r < 0.6:
        return ["constr", rng.choice([0, 1, 6, 7, 8, 50]), [gen_shape(rng, depth + 1) for _ in range(rng.randint(0, 3))]]
    if r < 0.7:
        return ["ilist", [gen_shape(rng, depth + 1) for _ in range(rng.randint(0, 3))]]
    if r < 0.8:
        return ["list", [gen_shape(rng, depth + 1) for _ in range(rng.randint(0, 3))]]
    if r < 0.9:
        ks = rng.sample([0, 1, 5, 300, 2**40], rng.randint(0, 3))
        return ["map", [[k, gen_shape(rng, depth + 1)] for k in ks]]
    return ["tag102", rng.choice([0, 7, 200]), [gen_shape(rng, depth + 1) for _ in range(rng.randint(0, 2))]]


def gen_top_datum(rng):
    """a datum spec of a top-level type pycardano accepts as Datum"""
    r = rng.random()
    if r < 0.2:
        return rng.choice([0, 42, -7, 2**64, 10**25])
    if r < 0.35:
        return ["bytes", rng.choice(["", "aa", "cd" * 64, "ef" * 65, LONG])]
    if r < 0.55:
        return ["constr", rng.choice([0, 2, 6, 7, 30]), [gen_shape(rng, 1) for _ in range(rng.randint(0, 3))]]
    if r < 0.65:
        return ["map", [[k, gen_shape(rng, 1)] for k in rng.sample([1, 2, 3, 1000], rng.randint(0, 3))]]
    if r < 0.72:
        return ["ilist", [gen_shape(rng, 1) for _ in range(rng.randint(0, 3))]]
    if r < 0.8:
        return ["pd0", rng.choice([0, 5, 2**70]), rng.choice(["", "aa", "cd" * 64])]
    if r < 0.88:
        return ["pd1", rng.randint(0, 9), rng.choice(["", "bb" * 64]), [rng.randint(0, 99) for _ in range(rng.randint(0, 3))],
                [[k, "0" + str(k % 10)] for k in rng.sample([1, 2, 3, 4], rng.randint(0, 3))]]
    if r < 0.93:
        return ["pdbig", rng.choice([0, 10**20])]
    if r < 0.97:
        return ["tag102", rng.choice([0, 9, 128]), [gen_shape(rng, 1) for _ in range(rng.randint(0, 2))]]
    return ["rawcbor", ["constr", 1, [5, ["bytes", "0102"], ["ilist", [1, 2]]]]]


def marked(rng, marker):
    """redeemer data containing the marker exactly once"""
    r = rng.random()
    if r < 0.25:
        return marker
    if r < 0.6:
        return ["constr", rng.choice([0, 1, 7]), [marker] + [gen_shape(rng, 1) for _ in range(rng.randint(0, 2))]]
    if r < 0.75:
        return ["ilist", [gen_shape(rng, 1), marker]]
    if r < 0.85:
        return ["map", [[marker, gen_shape(rng, 1)]]]
    if r < 0.95:
        return ["list", [marker, ["bytes", rng.choice(["", "cd" * 64, "ef" * 65])]]]
    return ["pdbig", marker]


def gen(rng, force=None):
    """one scenario; `force` = dict of feature overrides (used by the corpus)"""
    f = force or {}
    attach = []
    utxos, addr_utxos, ops_free, ops_cert = [], {}, [], []
    used_txids = set()

    def new_ref(share=None):
        """a (txid, ix) with a first byte from FIRST; `share` = reuse that txid with another index"""
        for attempt in range(100):
            if share is not None and attempt < 20:
                txid = share
            else:
                txid = rng.choice(FIRST) + S.H("tx/%d" % rng.randrange(10**9), 31).hex()
                if rng.random() < 0.15:      # ids that agree on a long prefix
                    txid = rng.choice(FIRST) + "77" * 30 + rng.choice(["09", "0a", "a0", "9f"])
            ix = rng.choice([0, 1, 2, 3, 9, 10, 11, 100])
            if (txid, ix) not in used_txids:
                used_txids.add((txid, ix))
                return txid, ix
        raise RuntimeError("no free ref")

    n_att = [0]

    def next_marker():
        n_att[0] += 1
        return MARK + n_att[0]

    estimate = f.get("estimate", rng.random() < 0.5)

    def red(marker):
        return {"data": marked(rng, marker), "units": None if estimate else [rng.randint(1, 2 * 10**6), rng.randint(1, 3 * 10**8)]}

    versions = f.get("versions") or rng.choice([[1], [2], [3], [1, 2], [2, 3], [1, 3], [1, 2, 3], [2], [3], [2, 3]])
    names = ["a", "b", "c", "dd", "e"]
    if len(versions) > 1 and rng.random() < 0.35:
        names = ["=s", "=s", "=t", "a", "b"]       # the same compiled bytes under several languages (different script hashes)

    def plutus_spec():
        return "p%d:%s" % (rng.choice(versions), rng.choice(names))

    def native_spec():
        return rng.choice([["pk", "k0"], ["all", [["pk", "k0"]]], ["any", [["pk", "k0"], ["pk", "k5"]]],
                           ["nofk", 1, [["pk", "k0"], ["pk", "k6"]]]])

    # ---- script inputs
    n_si = f.get("n_si", rng.choice([0, 1, 1, 2, 2, 3, 3, 4]))
    shared_txid = None
    for i in range(n_si):
        native = rng.random() < 0.12
        spec = native_spec() if native else plutus_spec()
        raw = (not native) and spec.startswith("p1:") and rng.random() < 0.35
        loc = rng.choice(["witness", "witness", "ref", "ref", "own", "addr"])
        if raw and loc != "witness":
            raw = False
        txid, ix = new_ref(shared_txid if (shared_txid and rng.random() < 0.4) else None)
        shared_txid = shared_txid or txid
        addr = ["script", spec] if rng.random() < 0.7 else ["script", spec, "s3"]
        u = {"id": "s%d" % i, "txid": txid, "ix": ix, "addr": addr, "coin": rng.randint(3, 9) * 1000000}
        if loc == "own":
            u["script"] = spec
        utxos.append(u)
        o = {"op": "x_script_input", "u": u["id"], "script": spec, "script_in": {"witness": "witness", "ref": "ref"}.get(loc)}
        if raw:
            o["raw"] = True
        if loc == "ref":
            rt, ri = new_ref(txid if rng.random() < 0.2 else None)
            ru = {"id": "r%d" % i, "txid": rt, "ix": ri, "addr": rng.choice(["k2", ["script", spec]]), "coin": 2500000,
                  "script": spec}
            utxos.append(ru)
            o["ref_utxo"] = ru["id"]
        if loc == "addr":
            at, ai = new_ref()
            au = {"id": "a%d" % i, "txid": at, "ix": ai, "addr": addr, "coin": 2600000, "script": spec}
            utxos.append(au)
            lst = addr_utxos.setdefault(repr(addr), [])
            if rng.random() < 0.5:       # a decoy carrying another script comes first
                dt, di = new_ref()
                du = {"id": "d%d" % i, "txid": dt, "ix": di, "addr": addr, "coin": 2700000, "script": "p2:decoy"}
                utxos.append(du)
                lst.append(du["id"])
            lst.extend([au["id"], u["id"]])
            if (not native) and rng.random() < 0.15:
                # the UTxO that carries the script at that address is itself spent (its own script unlocks it)
                m2 = next_marker()
                o2 = {"op": "x_script_input", "u": au["id"], "script": spec, "script_in": None, "redeemer": red(m2)}
                a2 = {"kind": "spend", "u": au["id"], "script": spec, "raw": False, "loc": "own", "native": False,
                      "marker": m2, "datum_mode": "none"}
                if int(spec[1]) != 3:
                    o2["datum"] = gen_top_datum(rng)
                    o2["datum_mode"] = a2["datum_mode"] = "inline"
                attach.append(a2)
                ops_free.append(o2)
        a = {"kind": "spend", "u": u["id"], "script": spec, "raw": raw, "loc": loc, "native": native}
        if not native:
            ver = int(spec[1])
            mode = rng.choice(["hash", "hash", "inline"] + (["none"] if ver == 3 else []))
            if mode != "none":
                o["datum"] = gen_top_datum(rng)
                o["datum_mode"] = mode
            a["datum_mode"] = mode
            m = next_marker()
            o["redeemer"] = red(m)
            a["marker"] = m
        attach.append(a)
        ops_free.append(o)

    # ---- key inputs that shift the ranks
    n_key = f.get("n_key", rng.choice([0, 1, 1, 2, 3]))
    for j in range(n_key):
        txid, ix = new_ref(shared_txid if (shared_txid and rng.random() < 0.3) else None)
        utxos.append({"id": "kx%d" % j, "txid": txid, "ix": ix, "addr": "k0", "coin": rng.randint(3, 8) * 1000000})
        ops_free.append({"op": "add_input", "u": "kx%d" % j})
    # ---- pool at the change address: collateral candidates and inputs picked by selection
    pool = []
    for j in range(rng.randint(3, 6)):
        txid, ix = new_ref(shared_txid if (shared_txid and rng.random() < 0.2) else None)
        utxos.append({"id": "w%d" % j, "txid": txid, "ix": ix, "addr": "k0", "coin": rng.randint(30, 90) * 1000000})
        pool.append("w%d" % j)
    addr_utxos["k0"] = pool
    select = f.get("select", rng.random() < 0.6)
    out_coin = rng.randint(2, 4) * 1000000
    if select:
        ops_free.append({"op": "add_input_address", "a": "k0"})
        out_coin = rng.randint(40, 150) * 1000000
    if select or n_key or rng.random() < 0.5:
        ops_free.append({"op": "add_output", "addr": "k1", "coin": out_coin})
    elif n_si == 0:
        ops_free.append({"op": "add_input_address", "a": "k0"})
        ops_free.append({"op": "add_output", "addr": "k1", "coin": out_coin})
        select = True

    # ---- minting policies
    n_mint = f.get("n_mint", rng.choice([0, 0, 1, 1, 2, 3]))
    mint_specs = []
    for i in range(n_mint):
        for _ in range(20):
            native = rng.random() < 0.25
            spec = native_spec() if native else "p%d:m%s" % (rng.choice(versions), rng.choice(names))
            if spec not in mint_specs:
                break
        else:
            continue
        mint_specs.append(spec)
        raw = (not native) and spec.startswith("p1:") and rng.random() < 0.35
        loc = "witness" if (raw or rng.random() < 0.6) else "ref"
        o = {"op": "x_minting_script", "script": spec}
        if raw:
            o["raw"] = True
        if loc == "ref":
            rt, ri = new_ref()
            utxos.append({"id": "rm%d" % i, "txid": rt, "ix": ri, "addr": "k2", "coin": 2500000, "script": spec})
            o.update(script_in="ref", ref_utxo="rm%d" % i)
        a = {"kind": "mint", "script": spec, "raw": raw, "loc": loc, "native": native}
        if not native:
            m = next_marker()
            o["redeemer"] = red(m)
            a["marker"] = m
        elif loc == "witness" and rng.random() < 0.5:
            # the native policy script is handed over through `builder.native_scripts` (no add_minting_script call)
            o = {"op": "native_script", "script": spec}
            a["loc"] = "native_scripts"
        attach.append(a)
        ops_free.append(o)
        ops_free.append({"op": "mint", "assets": [[spec, rng.choice(["", "61", "6262"]), rng.randint(1, 5)]]})

    # ---- variant: the mint is stored directly and holds a policy whose only quantity is 0 (not in the body's mint)
    zero_mint = []
    plutus_minted = [a["script"] for a in attach if a["kind"] == "mint" and "marker" in a]
    if plutus_minted and f.get("zero_mint", (not f) and rng.random() < 0.06):
        cands = ["p2:zero%d" % i for i in range(12)]
        if f.get("zero_mint"):          # corpus: make sure the stored-zero policy sorts before an attached one
            lo = min(spec_hash(x) for x in plutus_minted)
            cands = [c for c in cands if spec_hash(c) < lo] or cands
        zspec = rng.choice(cands)
        zero_mint.append(zspec)
        assets = []
        for o in [o for o in ops_free if o["op"] == "mint"]:
            assets.extend(o["assets"])
            ops_free.remove(o)
        assets.insert(rng.randint(0, len(assets)), [zspec, "7a", 0])
        ops_free.append({"op": "x_mint_set", "assets": assets})
    # ---- variant: the same UTxO is added more than once (it is one input of the body, whatever the route):
    #   "key"    a key UTxO through add_input twice
    #   "script" a script UTxO through add_input as well as add_script_input (either order after the shuffle)
    #   "twice"  a Plutus script UTxO through add_script_input twice, the second time with another redeemer
    #            (the per-UTxO bookkeeping is a dict: the redeemer of the later call is the one that counts)
    dup_input = None
    twice = None
    dup_mode = (n_key and not zero_mint) and f.get("dup_input", (not f) and rng.random() < 0.06)
    if dup_mode:
        if dup_mode is True:
            dup_mode = "key" if f else rng.choice(["key", "key", "script", "twice"])
        s_ops = [o for o in ops_free if o["op"] == "x_script_input" and o["u"].startswith("s")]
        if dup_mode == "twice":
            s_ops = [o for o in s_ops if o.get("redeemer")]
        if dup_mode != "key" and not s_ops:
            dup_mode = "key"
        if dup_mode == "key":
            j = 0
            if f.get("dup_input"):          # corpus: the repeated input sorts before a script input
                refs = [(u["txid"], u["ix"]) for u in utxos if u["id"].startswith("s")]
                keyed = sorted((u for u in utxos if u["id"].startswith("kx")), key=lambda u: (u["txid"], u["ix"]))
                if refs and (keyed[0]["txid"], keyed[0]["ix"]) < max(refs):
                    j = int(keyed[0]["id"][2:])
            else:
                j = rng.randrange(n_key)
            dup_input = "kx%d" % j
            ops_free.append({"op": "add_input", "u": dup_input})
        else:
            # the repeated script input is the one that sorts first, so that it shifts the list positions of the others
            by_id = {u["id"]: u for u in utxos}
            o1 = min(s_ops, key=lambda o: (by_id[o["u"]]["txid"], by_id[o["u"]]["ix"]))
            dup_input = o1["u"]
            if dup_mode == "script":
                ops_free.append({"op": "add_input", "u": dup_input})
            else:
                a1 = next(a for a in attach if a["kind"] == "spend" and a["u"] == dup_input and "marker" in a)
                m2 = next_marker()
                o1["_m"] = a1["marker"]
                ops_free.append({**copy.deepcopy({k: v for k, v in o1.items() if k != "_m"}), "redeemer": red(m2), "_m": m2})
                twice = a1

    # ---- withdrawals
    n_wd = f.get("n_wd", rng.choice([0, 0, 0, 1, 1, 2]))
    wd_entries = []
    wd_specs = []
    for i in range(n_wd):
        for _ in range(20):
            native = rng.random() < 0.2
            spec = native_spec() if native else "p%d:w%s" % (rng.choice(versions), rng.choice(names))
            if spec not in wd_specs:
                break
        else:
            continue
        wd_specs.append(spec)
        loc = "witness" if rng.random() < 0.6 else "ref"
        o = {"op": "x_withdrawal_script", "script": spec}
        if loc == "ref":
            rt, ri = new_ref()
            utxos.append({"id": "rw%d" % i, "txid": rt, "ix": ri, "addr": "k2", "coin": 2500000, "script": spec})
            o.update(script_in="ref", ref_utxo="rw%d" % i)
        a = {"kind": "reward", "script": spec, "raw": False, "loc": loc, "native": native}
        if not native:
            m = next_marker()
            o["redeemer"] = red(m)
            a["marker"] = m
        attach.append(a)
        ops_free.append(o)
        wd_entries.append({"script": spec, "amount": rng.randint(1, 9) * 100000})
    mixed_wd = f.get("mixed_wd", n_wd > 0 and rng.random() < 0.25)
    if mixed_wd:
        for s in rng.sample(["s1", "s2", "s4"], rng.randint(1, 2)):
            wd_entries.append({"stake": s, "amount": rng.randint(1, 9) * 100000})
    if wd_entries:
        rng.shuffle(wd_entries)
        if rng.random() < 0.5:
            ops_free.append({"op": "x_withdrawals", "entries": wd_entries})
        else:
            for e in wd_entries:
                ops_free.append({"op": "withdraw", **e})

    # ---- certificates (their relative order is kept when the calls are shuffled)
    n_cert = f.get("n_cert", rng.choice([0, 0, 0, 1, 2, 3]))
    ncerts = 0
    for i in range(n_cert):
        if rng.random() < 0.35:
            ops_cert.append({"op": "cert", "kind": "stake_deleg", "cred": rng.choice(["s1", "s2"]), "pool": "p%d" % i})
            ncerts += 1
            continue
        native = rng.random() < 0.2
        spec = native_spec() if native else "p%d:c%s" % (rng.choice(versions), rng.choice(names))
        ops_cert.append({"op": "cert", "kind": rng.choice(["stake_deleg", "vote_deleg", "stake_vote_deleg"]),
                         "cred": ["script", spec], "pool": "q%d" % i})
        ncerts += 1
        if rng.random() < 0.2:      # another certificate slips in before the script is attached
            ops_cert.append({"op": "cert", "kind": "stake_deleg", "cred": "s4", "pool": "z%d" % i})
            ncerts += 1
        loc = "witness" if rng.random() < 0.7 else "ref"
        o = {"op": "x_certificate_script", "script": spec}
        if loc == "ref":
            rt, ri = new_ref()
            utxos.append({"id": "rc%d" % i, "txid": rt, "ix": ri, "addr": "k2", "coin": 2500000, "script": spec})
            o.update(script_in="ref", ref_utxo="rc%d" % i)
        a = {"kind": "cert", "script": spec, "raw": False, "loc": loc, "native": native, "pos": ncerts - 1}
        if not native:
            m = next_marker()
            o["redeemer"] = red(m)
            a["marker"] = m
        attach.append(a)
        ops_cert.append(o)

    # ---- extra datum in the witness set (no script needed), redeemer form, buffers, cost models
    if f.get("out_datum", rng.random() < 0.15):
        ops_free.append({"op": "x_output_datum", "addr": "k1", "coin": 2000000, "datum": gen_top_datum(rng)})
    if f.get("twin_datums", rng.random() < 0.12):
        # two different datums (different bytes, different hashes) that PRINT alike: the same constructor with its empty
        # field list in definite / indefinite framing, or two typed classes' instances vs. their raw form
        cid = rng.choice([0, 1, 6, 7])
        ops_free.append({"op": "x_output_datum", "addr": "k1", "coin": 2000000, "datum": ["constr", cid, []]})
        ops_free.append({"op": "x_output_datum", "addr": "k1", "coin": 2100000, "datum": ["constr_ie", cid]})
    use_list = f.get("use_list", rng.random() < 0.4)
    if use_list:
        ops_free.append({"op": "redeemer_list"})
    if estimate and rng.random() < 0.5:
        ops_free.append({"op": "buffers", "mem": rng.choice([0, 0.1, 0.5, 1]), "steps": rng.choice([0, 0.25, 1.5])})
    params = {}
    cm_mode = f.get("cm_mode", rng.choice(["default", "default", "tables", "tables", "missing"]))
    tables = None
    if cm_mode == "missing":
        present = rng.sample(["PlutusV1", "PlutusV2", "PlutusV3"], rng.randint(0, 2))
        params["cost_models"] = {k: rng.randint(1, 12) for k in present}
    elif cm_mode == "tables":
        tables = {}
        for k in rng.sample(["PlutusV1", "PlutusV2", "PlutusV3"], rng.randint(1, 3)):
            n = rng.randint(0, 14)
            nm = ["%s-%s" % (rng.choice(["add", "Add", "bls", "cek", "z", "a", "é"]), i) for i in range(n)]
            rng.shuffle(nm)
            tables[k] = [[x, rng.choice([0, 1, 23, 24, 255, 256, -1, -300, 2**31, 2**63 - 1, 2**64 + 5, 100788])] for x in nm]
    # ---- call order
    ops = list(ops_free)
    rng.shuffle(ops)
    for o in ops_cert:                      # merge, keeping the certificate-related calls in their order
        lo = max([i for i, p in enumerate(ops) if p.get("_c")] + [-1]) + 1
        pos = rng.randint(lo, len(ops))
        ops.insert(pos, {**o, "_c": 1})
    if twice is not None:                   # the redeemer of the later add_script_input call is the one that counts
        twice["marker"] = [o["_m"] for o in ops if "_m" in o][-1]
    ops = [{k: v for k, v in o.items() if k not in ("_c", "_m")} for o in ops]
    if f.get("mixed_units") or (not f and rng.random() < 0.03):
        reds = [o for o in ops if o.get("redeemer")]
        if len(reds) >= 2:
            reds[-1]["redeemer"]["units"] = None if reds[0]["redeemer"]["units"] else [5, 5]
    if tables is not None:
        ops.insert(0, {"op": "x_cost_models", "tables": tables})
    build = {"change": "k0", "selectors": [["largest"]] if rng.random() < 0.6 else [["random"], ["largest"]],
             "pyseed": rng.randrange(10**6)}
    r = rng.random()
    if r < 0.1:
        build["auto_validity_start_offset"] = rng.choice([0, -1, -5000])
    if 0.05 < r < 0.15:
        build["auto_ttl_offset"] = rng.choice([0, 1, 777])
    sc = {"slot": rng.choice([0, 500, 999, 1000, 1001, 2000, 123456789]), "utxos": utxos, "address_utxos": addr_utxos,
          "ops": ops, "build": build, "sign": ["k0"],
          "x": {"attach": attach, "estimate": estimate, "use_list": use_list, "versions": versions, "cm_mode": cm_mode,
                "mixed_wd": bool(mixed_wd), "zero_mint": zero_mint, "dup_input": dup_input}}
    if params:
        sc["params"] = params
    if estimate:
        sc["eval_units"] = [rng.choice([0, 1, 399882, 10**7]), rng.choice([1, 175940720, 5 * 10**9])]
    return sc


# ---- independent reading of the built transaction ---------------------------------------------------------------------------
def map_slices(b: bytes):
    """top-level CBOR map -> [(decoded key, decoded value, value byte slice)] in wire order"""
    d = R.Dec(b)
    ib = b[0]
    assert ib >> 5 == 5, "not a map"
    d.i = 1
    n = d._arg(ib & 31)
    out = []
    for _ in range(n):
        k = d.item()
        s = d.i
        v = d.item()
        out.append((k, v, b[s:d.i]))
    assert d.i == len(b)
    return out


def list_slices(b: bytes):
    """definite or indefinite list (optionally wrapped in tag 258) -> element byte slices"""
    d = R.Dec(b)
    ib = b[0]
    d.i = 1
    if ib >> 5 == 6:
        d._arg(ib & 31)
        ib = b[d.i]
        d.i += 1
    assert ib >> 5 == 4, "not a list"
    out = []
    if ib & 31 == 31:
        while b[d.i] != 0xFF:
            s = d.i
            d.item()
            out.append(b[s:d.i])
    else:
        for _ in range(d._arg(ib & 31)):
            s = d.i
            d.item()
            out.append(b[s:d.i])
    return out


class TxView:
    """what the ledger reads off the transaction bytes"""

    def __init__(self, tx_bytes: bytes):
        body_b, wit_b, _ = L.tx_parts(tx_bytes)
        self.body = L.Body(body_b)
        self.wit = {k: (v, sl) for k, v, sl in map_slices(wit_b)}
        self.red_bytes = self.wit[5][1] if 5 in self.wit else None
        self.datum_bytes = self.wit[4][1] if 4 in self.wit else None
        # redeemers: (tag, index) -> [(data, mem, steps)]
        self.redeemers = {}
        self.red_form = None
        if 5 in self.wit:
            r = self.wit[5][0]
            if isinstance(r, R.Map):
                self.red_form = "map"
                for k, v in r.pairs:
                    self.redeemers.setdefault((k[0], k[1]), []).append((v[0], v[1][0], v[1][1]))
            else:
                self.red_form = "list"
                for e in r:
                    self.redeemers.setdefault((e[0], e[1]), []).append((e[2], e[3][0], e[3][1]))
        # witness scripts: hash -> occurrences, language
        self.wit_scripts = {}
        for key, lang in ((1, 0), (3, 1), (6, 2), (7, 3)):
            if key in self.wit:
                for sl in list_slices(self.wit[key][1]):
                    body = sl if lang == 0 else R.dec(sl)
                    h = ref_script_hash(lang, body)
                    self.wit_scripts.setdefault(h, []).append(lang)
        self.datum_hashes = []
        if 4 in self.wit:
            self.datum_hashes = [hashlib.blake2b(sl, digest_size=32).digest() for sl in list_slices(self.wit[4][1])]
        self.sorted_inputs = sorted((bytes.fromhex(t), i) for t, i in self.body.inputs)
        self.policies = sorted({bytes.fromhex(p) for p, _ in self.body.mint})
        self.accounts = sorted(k for k, _ in self.body.withdrawals)


def utxo_script(cx, uid):
    """(language, hash) of the script carried by a scenario UTxO, read from the UTxO's own serialization
    (`script_ref = #6.24(bytes .cbor [language, script])`); None when it carries no script"""
    out = L.parse_output(R.dec(cx.utxo_objs[uid].output.to_cbor()))
    ref = out["script_ref"]
    if ref is None:
        return None
    assert ref[0] == 0x82
    lang, e1 = R.dec_prefix(ref, 1)
    body, e2 = R.dec_prefix(ref, e1)
    assert e2 == len(ref)
    if lang == 0:
        return 0, ref_script_hash(0, ref[e1:e2])      # native: hash over the CBOR of the script itself
    return lang, ref_script_hash(lang, body)


# ---- running a scenario and handing it to the Lean model --------------------------------------------------------------------
def utxo_ref(cx, uid):
    u = cx.utxo_objs[uid]
    return [bytes(u.input.transaction_id.payload).hex(), int(u.input.index)]


def resolve_src(cx, o):
    """where add_script_input finds the script (the chain look-up of the Python code, pre-resolved for the model)"""
    u = cx.utxo_objs[o["u"]]
    if u.output.script is not None:
        return "own"
    if o.get("script_in") == "witness":
        return "witness"
    if o.get("script_in") == "ref":
        return utxo_ref(cx, o["ref_utxo"])
    want = spec_hash(o["script"])
    for cand in cx._by_addr.get(str(u.output.address), []):
        if cand.output.script is not None and bytes(pc.script_hash(cand.output.script).payload) == want:
            if cand is u:
                return "own"
            return [bytes(cand.input.transaction_id.payload).hex(), int(cand.input.index)]
    return "witness"


def model_red(o):
    r = o.get("redeemer")
    if r is None:
        return None
    u = r.get("units") or [0, 0]
    return [data_cbor(mk_data(r["data"])).hex(), str(u[0]), str(u[1])]


def _policy_hex(p) -> str:
    if isinstance(p, str) and len(p) == 56 and all(c in "0123456789abcdef" for c in p):
        return p
    return spec_hash(p).hex()


def stored_mint(cur, assets, direct):
    """the value a scenario's `mint` / `x_mint_set` op assigns to `builder.mint`, as insertion-ordered dicts
    {policy hex: {name hex: qty}}: `x_mint_set` and the first `mint` store the MultiAsset as given (zero quantities
    stay); a later `mint` stores `builder.mint + MultiAsset(assets)`, and `+` drops zero quantities and empty policies"""
    new = {}
    for p, n, q in assets:
        new.setdefault(_policy_hex(p), {})[n] = int(q)
    if direct or cur is None:
        return new
    res = {p: dict(a) for p, a in cur.items()}
    for p, a in new.items():
        acc = dict(res.get(p, {}))
        for n, q in a.items():
            acc[n] = acc.get(n, 0) + q
        res[p] = {n: q for n, q in acc.items() if q != 0}
    res = {p: {n: q for n, q in a.items() if q != 0} for p, a in res.items()}
    return {p: a for p, a in res.items() if a}


def model_mint(m):
    """[[policy hex, [[name hex, qty], …]], …] for the driver"""
    return [[p, [[n, str(q)] for n, q in a.items()]] for p, a in m.items()]


def model_ops(sc, cx):
    out = []
    mint = None
    for o in sc["ops"]:
        k = o["op"]
        if k == "add_input":
            out.append({"k": "add_input", "u": utxo_ref(cx, o["u"])})
        elif k == "x_script_input":
            m = {"k": "script_input", "u": utxo_ref(cx, o["u"]),
                 "script": [spec_kind(o["script"], o.get("raw")), spec_hash(o["script"]).hex()],
                 "src": resolve_src(cx, o), "datum": None, "red": model_red(o)}
            if o.get("datum_mode") == "hash":
                c = data_cbor(mk_data(o["datum"]))
                m["datum"] = [hashlib.blake2b(c, digest_size=32).hexdigest(), c.hex()]
            out.append(m)
        elif k in ("x_minting_script", "x_withdrawal_script", "x_certificate_script"):
            out.append({"k": k[2:], "script": [spec_kind(o["script"], o.get("raw")), spec_hash(o["script"]).hex()],
                        "ref": utxo_ref(cx, o["ref_utxo"]) if o.get("script_in") == "ref" else None, "red": model_red(o)})
        elif k == "native_script":
            out.append({"k": "native_script", "script": [spec_kind(o["script"], False), spec_hash(o["script"]).hex()]})
        elif k == "cert":
            out.append({"k": "cert"})
        elif k in ("mint", "x_mint_set"):
            mint = stored_mint(mint, o["assets"], k == "x_mint_set")
            out.append({"k": "mint_set", "m": model_mint(mint)})
        elif k == "withdraw":
            out.append({"k": "withdraw", "a": account_bytes(o).hex()})
        elif k == "x_withdrawals":
            for e in o["entries"]:
                out.append({"k": "withdraw", "a": account_bytes(e).hex()})
        elif k == "x_output_datum":
            if o.get("witness", True):
                c = data_cbor(mk_data(o["datum"]))
                out.append({"k": "output_datum", "d": [hashlib.blake2b(c, digest_size=32).hexdigest(), c.hex()]})
    return out


def account_bytes(e) -> bytes:
    """reward account of a withdrawal entry: header e0 (key) / f0 (script) | network of the scenario ‖ credential hash"""
    net = int(S.NET.value)
    if "script" in e:
        return bytes([0xf0 | net]) + spec_hash(e["script"])
    return bytes([0xe0 | net]) + bytes(S.vkh(e["stake"]).payload)


def cost_tables(cx):
    """{language id: table} of the protocol parameters the context serves"""
    cm = cx.protocol_param.cost_models
    return {i: dict(cm[k]) for i, k in enumerate(["PlutusV1", "PlutusV2", "PlutusV3"]) if k in cm}


def model_request(sc, run):
    """the `rd.build` request corresponding to an executed scenario"""
    cx, b = run.context, run.builder
    explicit = {tuple(utxo_ref(cx, o["u"])) for o in sc["ops"] if o["op"] in ("add_input", "x_script_input")}
    final = [[bytes(i.input.transaction_id.payload).hex(), int(i.input.index)] for i in b.inputs]
    selected = [i for i in final if tuple(i) not in explicit]
    carried = []
    for i in b.inputs:
        if i.output.script is not None:
            s = i.output.script
            kind = "native" if isinstance(s, pc.NativeScript) else "raw" if type(s) is bytes else "v%d" % s.version
            lang = 0 if kind == "native" else 1 if kind == "raw" else s.version
            body = s.to_cbor() if kind == "native" else bytes(s)
            carried.append([[bytes(i.input.transaction_id.payload).hex(), int(i.input.index)],
                            [kind, ref_script_hash(lang, body).hex()]])
    ev = []
    if sc["x"]["estimate"]:
        for r in b._redeemer_list:
            ev.append([str(r.tag.value), str(r.index), str(r.ex_units.mem), str(r.ex_units.steps)])
    tabs = cost_tables(cx)
    return {"op": "rd.build", "net": str(int(S.NET.value)), "ops": model_ops(sc, cx), "selected": selected, "ev": ev,
            "use_map": not sc["x"]["use_list"], "remove_dup": True, "carried": carried,
            "cost_models": [[str(l), [[n.encode().hex(), str(v)] for n, v in t.items()]] for l, t in tabs.items()],
            "dflt": cbor2.dumps(pc.plutus.COST_MODELS, default=default_encoder).hex()}


def impl_witness_hashes(tx):
    """script hashes of the implementation's witness set per language list, in order"""
    ws = tx.transaction_witness_set
    out = {}
    for name, attr, lang in (("native", "native_scripts", 0), ("v1", "plutus_v1_script", 1),
                             ("v2", "plutus_v2_script", 2), ("v3", "plutus_v3_script", 3)):
        lst = getattr(ws, attr) or []
        out[name] = [ref_script_hash(lang, s.to_cbor() if lang == 0 else bytes(s)).hex() for s in lst]
    return out
