"""Stake-pool registration data (pycardano/pool_params.py, PoolRegistration / PoolRetirement of certificate.py):
generators, construction through the public constructors, dumps in the JSON of the driver ops `pool.*`
(lean/Pyc/Driver/Pool.lean), the spec-level content of harness/ref/conway.py, and the malformed stream.

Everything is regenerated from a seed string, so one case replays alone."""
from __future__ import annotations

import random
import socket
from fractions import Fraction

from ref import bech32_ref
from ref import cbor_ref as R

INTS = [0, 1, 23, 24, 255, 256, 65535, 65536, 2**32 - 1, 2**32, 2**63 - 1, 2**64 - 1, 340_000_000, 500_000_000]
BIG = [2**64, 2**64 + 1, 3 * 2**70, -1, -24, -25, -(2**63), -(2**64), -(2**64) - 1]
PORTS = [0, 1, 23, 24, 255, 256, 3001, 6000, 65535]
PORTS_OUT = [65536, 2**32, -1, 2**64]
COUNTS = [0, 1, 1, 2, 3, 3, 24, 25]

IPV4_NONCANON = ["01.2.3.4", "1.2.3", "1.2", "16909060", "0x1.0x2.0x3.0x4", "010.1.1.1", "1.2.3.4 ", "1.2.3.4\tx", "127.1", "0.0.0.0 x"]
IPV4_BAD = ["garbage", "1.2.3.256", "1.2.3.4.5", "", "1.2.3.4x", " 1.2.3.4", "08.1.1.1"]
IPV6_NONCANON = ["0:0:0:0:0:0:0:1", "::0001", "ABCD::", "2001:DB8::1", "1:0:0:0:0:0:0:8", "::ffff:102:304", "1:2:3:4:5:6:1.2.3.4",
                 "0::0", "1::0:0", "fe80::1.2.3.4", "::0:1.2.3.4"]
IPV6_BAD = ["garbage", "1::2::3", ":1::", "1::2:", "12345::", "::1.2.3", "::01.2.3.4", "", "1:2:3:4:5:6:7", "::1 ", "::g"]


def rbytes(rng, n):
    return bytes(rng.getrandbits(8) for _ in range(n))


def hx(s):
    return s.encode("utf-8").hex()


def gen_ipv4_bytes(rng):
    r = rng.random()
    if r < 0.25:
        return bytes(rng.choice([0, 1, 9, 10, 99, 100, 127, 199, 200, 255]) for _ in range(4))
    return rbytes(rng, 4)


def gen_ipv6_bytes(rng):
    """zero runs of every length and position, IPv4-compatible and IPv4-mapped forms, small and full groups"""
    r = rng.random()
    if r < 0.08:
        return bytes(12) + rbytes(rng, 4)                       # ::a.b.c.d
    if r < 0.16:
        return bytes(10) + b"\xff\xff" + rbytes(rng, 4)         # ::ffff:a.b.c.d
    if r < 0.2:
        return bytes(10) + rng.choice([b"\xff\xfe", b"\x00\x01", b"\xff\x00"]) + rbytes(rng, 4)
    ws = []
    for _ in range(8):
        k = rng.random()
        ws.append(0 if k < 0.45 else rng.choice([1, 0xf, 0x10, 0xff, 0x100, 0xfff, 0x1000, 0xffff, 0xa, 0xabcd]) if k < 0.7
                  else rng.getrandbits(16))
    if r < 0.3:
        a = rng.randrange(0, 8)
        b = rng.randrange(a, 9)
        for i in range(a, b):
            ws[i] = 0
    return b"".join(w.to_bytes(2, "big") for w in ws)


def gen_ip_arg(rng, v6, allow_bad=True):
    """an `ipv4=` / `ipv6=` constructor argument: None | {"b": hex} | {"t": hex of the text}; with its class"""
    r = rng.random()
    gen = gen_ipv6_bytes if v6 else gen_ipv4_bytes
    if r < 0.25:
        return None, "none"
    if r < 0.6:
        return {"b": gen(rng).hex()}, "bytes"
    if r < 0.85:
        b = gen(rng)
        t = socket.inet_ntop(socket.AF_INET6, b) if v6 else socket.inet_ntoa(b)
        return {"t": hx(t)}, "text-canonical"
    if r < 0.95 or not allow_bad:
        return {"t": hx(rng.choice(IPV6_NONCANON if v6 else IPV4_NONCANON))}, "text-noncanonical"
    if r < 0.985:
        return {"t": hx(rng.choice(IPV6_BAD if v6 else IPV4_BAD))}, "text-refused"           # the constructor must raise
    n = rng.choice([0, 3, 5, 15, 17]) if not v6 else rng.choice([0, 4, 15, 17, 32])
    return {"b": rbytes(rng, n).hex()}, "bytes-wrong-length"


def gen_port(rng):
    r = rng.random()
    if r < 0.3:
        return None
    if r < 0.97:
        return {"i": str(rng.choice(PORTS) if rng.random() < 0.7 else rng.randint(0, 65535))}
    return {"i": str(rng.choice(PORTS_OUT))}


DNS = ["relay.example.com", "a", "", "r1.pool.io", "x" * 64, "y" * 128, "relais-é.example", "名前.jp"]


def gen_dns(rng):
    r = rng.random()
    if r < 0.04:
        return None
    if r < 0.06:
        return {"s": hx("z" * 129)}                          # one byte more than `dns_name = text .size (0 .. 128)`
    s = rng.choice(DNS) if r < 0.6 else "".join(rng.choice("abcdefghijklmnopqrstuvwxyz0123456789.-") for _ in range(rng.randint(1, 40)))
    return {"s": hx(s)}


def gen_relay(rng, kind=None, allow_bad=True):
    kind = kind or rng.choice(["addr", "addr", "name", "multi"])
    if kind == "addr":
        a, _ = gen_ip_arg(rng, False, allow_bad)
        b, _ = gen_ip_arg(rng, True, allow_bad)
        return {"k": "addr", "port": gen_port(rng), "ipv4": a, "ipv6": b}
    if kind == "name":
        return {"k": "name", "port": gen_port(rng), "dns": gen_dns(rng)}
    return {"k": "multi", "dns": gen_dns(rng)}


def pool_id_text(rng):
    r = rng.random()
    if r < 0.8:
        return bech32_ref.encode("pool", rbytes(rng, 28))
    if r < 0.9:
        return bech32_ref.encode("pool", rbytes(rng, rng.choice([0, 1, 27, 29, 32])))     # any payload length is accepted
    return bech32_ref.encode(rng.choice(["pool_vk", "poolx", "pool1x"]), rbytes(rng, 28))  # any prefix that starts with "pool"


def gen_margin(rng):
    r = rng.random()
    if r < 0.25:
        return rng.choice([[0, 1], [1, 1], [1, 2], [2, 4], [3, 100], [25, 1000], [0, 5], [7, 7], [6, 4], [2**64, 2**65], [1, 2**64]])
    if r < 0.3:
        return rng.choice([[1, -2], [-1, 2], [-3, -6], [5, 1]])
    d = rng.choice([1, 2, 3, 10, 100, 1000, 2**32, rng.randint(1, 10**6)])
    return [rng.randint(0, d), d]


def gen_params(rng, allow_bad=True):
    """constructor arguments of PoolParams (driver JSON)"""
    no = rng.choice(COUNTS) if rng.random() > 0.01 else 256
    pool = [rbytes(rng, 28) for _ in range(max(no, 1))]
    owners = [pool[i] for i in range(no)]
    if no >= 2 and rng.random() < 0.15:
        owners[rng.randrange(1, no)] = owners[0]                                          # a duplicate owner
    ok = rng.choice(["list", "list", "oset-tagged", "oset-tagged", "oset-untagged"])
    nr = rng.choice(COUNTS) if rng.random() > 0.01 else 256
    r = rng.random()
    relays = None if r < 0.06 else [gen_relay(rng, allow_bad=allow_bad and nr <= 3) for _ in range(nr)]
    md = None
    if rng.random() < 0.6:
        url = rng.choice(["https://pool.example/meta.json", "", "u" * 64, "u" * 128, "https://é.example/ü"])
        if rng.random() < 0.04:
            url = "u" * 129
        md = {"url": hx(url), "hash": rbytes(rng, 32).hex()}
    pid = hx(pool_id_text(rng)) if rng.random() < 0.1 else None

    def coin():
        k = rng.random()
        return rng.choice(INTS) if k < 0.6 else rng.choice(BIG) if k < 0.65 else rng.randint(0, 10**12)

    return {"operator": rbytes(rng, 28).hex(), "vrf": rbytes(rng, 32).hex(), "pledge": str(coin()), "cost": str(coin()),
            "margin": [str(x) for x in gen_margin(rng)], "ra": (rng.choice([b"\xe0", b"\xe1", b"\xf0", b"\xf1"]) + rbytes(rng, 28)).hex(),
            "owners": {"kind": "list" if ok == "list" else "oset", "tagged": ok == "oset-tagged", "xs": [o.hex() for o in owners]},
            "relays": relays, "metadata": md, "id": pid}


# ------------------------------------------------------------------------------------------ construction (public API)
def build_ip(a):
    if a is None:
        return None
    if "b" in a:
        return bytes.fromhex(a["b"])
    return bytes.fromhex(a["t"]).decode("utf-8")


def build_port(p):
    return None if p is None else int(p["i"])


def build_name(d):
    return None if d is None else bytes.fromhex(d["s"]).decode("utf-8")


def build_relay(j):
    from pycardano.pool_params import MultiHostName, SingleHostAddr, SingleHostName
    if j["k"] == "addr":
        return SingleHostAddr(port=build_port(j["port"]), ipv4=build_ip(j["ipv4"]), ipv6=build_ip(j["ipv6"]))
    if j["k"] == "name":
        return SingleHostName(port=build_port(j["port"]), dns_name=build_name(j["dns"]))
    return MultiHostName(dns_name=build_name(j["dns"]))


def build_params(j):
    from pycardano.hash import PoolKeyHash, PoolMetadataHash, RewardAccountHash, VerificationKeyHash, VrfKeyHash
    from pycardano.pool_params import PoolId, PoolMetadata, PoolParams
    from pycardano.serialization import OrderedSet
    owners = [VerificationKeyHash(bytes.fromhex(h)) for h in j["owners"]["xs"]]
    if j["owners"]["kind"] == "oset":
        owners = OrderedSet(owners, use_tag=j["owners"]["tagged"])
    md = None
    if j["metadata"] is not None:
        md = PoolMetadata(url=bytes.fromhex(j["metadata"]["url"]).decode("utf-8"),
                          pool_metadata_hash=PoolMetadataHash(bytes.fromhex(j["metadata"]["hash"])))
    n, d = (int(x) for x in j["margin"])
    kw = {}
    if j["id"] is not None:
        kw["id"] = PoolId(bytes.fromhex(j["id"]).decode("utf-8"))
    return PoolParams(operator=PoolKeyHash(bytes.fromhex(j["operator"])), vrf_keyhash=VrfKeyHash(bytes.fromhex(j["vrf"])),
                      pledge=int(j["pledge"]), cost=int(j["cost"]), margin=Fraction(n, d),
                      reward_account=RewardAccountHash(bytes.fromhex(j["ra"])), pool_owners=owners,
                      relays=None if j["relays"] is None else [build_relay(r) for r in j["relays"]], pool_metadata=md, **kw)


# ------------------------------------------------------------------------------------------ dumps (driver JSON)
def isint(x):
    return isinstance(x, int) and not isinstance(x, bool)


def dump_port(p):
    return None if p is None else {"i": str(p)} if isint(p) else "junk"


def dump_name(d):
    return None if d is None else {"s": hx(d)} if isinstance(d, str) else "junk"


def dump_text(t):
    return None if t is None else hx(t) if isinstance(t, str) else "junk"


def dump_relay(r):
    n = type(r).__name__
    if n == "SingleHostAddr":
        return {"k": "addr", "port": dump_port(r.port), "ipv4": dump_text(r.ipv4), "ipv6": dump_text(r.ipv6)}
    if n == "SingleHostName":
        return {"k": "name", "port": dump_port(r.port), "dns": dump_name(r.dns_name)}
    if n == "MultiHostName":
        return {"k": "multi", "dns": dump_name(r.dns_name)}
    return "junk"


def dump_params(p):
    from pycardano.serialization import OrderedSet
    o = p.pool_owners
    owners = {"kind": "oset" if isinstance(o, OrderedSet) else "list", "tagged": bool(getattr(o, "_use_tag", False)),
              "xs": [h.payload.hex() for h in o]}
    md = None if p.pool_metadata is None else {"url": hx(p.pool_metadata.url), "hash": p.pool_metadata.pool_metadata_hash.payload.hex()}
    return {"operator": p.operator.payload.hex(), "vrf": p.vrf_keyhash.payload.hex(), "pledge": str(p.pledge), "cost": str(p.cost),
            "margin": [str(p.margin.numerator), str(p.margin.denominator)], "ra": p.reward_account.payload.hex(), "owners": owners,
            "relays": None if p.relays is None else [dump_relay(r) for r in p.relays], "metadata": md,
            "id": None if p.id is None else hx(p.id.value)}


def unjunk(j):
    """model dumps carry the junk item, implementation dumps only the fact"""
    if isinstance(j, dict):
        if set(j) == {"junk"}:
            return "junk"
        return {k: unjunk(v) for k, v in j.items()}
    if isinstance(j, list):
        return [unjunk(v) for v in j]
    return j


# ------------------------------------------------------------------------------------------ independent oracles
def canon_ip(a, v6):
    """the text as given, the bytes on the wire, and the canonical text (what the constructor stores and the decoder restores)
    — by the socket module, which is not pycardano code.  Returns (given text | None, wire bytes | None, canonical text | None)
    or raises OSError/ValueError (the constructor must raise too)."""
    if a is None:
        return None, None, None
    fam = socket.AF_INET6 if v6 else socket.AF_INET
    if "b" in a:
        b = bytes.fromhex(a["b"])
        t = socket.inet_ntop(fam, b)
        return t, b, t
    t = bytes.fromhex(a["t"]).decode("utf-8")
    b = socket.inet_pton(fam, t) if v6 else socket.inet_aton(t)
    return t, b, socket.inet_ntop(fam, b)


def spec_relay(j):
    """spec content (ref/conway.py) of a constructor relay; None = not expressible in the CDDL (dns_name null)"""
    if j["k"] == "addr":
        _, b4, _ = canon_ip(j["ipv4"], False)
        _, b6, _ = canon_ip(j["ipv6"], True)
        return {"k": "addr", "port": build_port(j["port"]), "ipv4": b4, "ipv6": b6}
    if j["dns"] is None:
        return None
    dns = bytes.fromhex(j["dns"]["s"]).decode("utf-8")
    if j["k"] == "name":
        return {"k": "name", "port": build_port(j["port"]), "dns": dns}
    return {"k": "multi", "dns": dns}


def dedup(xs):
    out = []
    for x in xs:
        if x not in out:
            out.append(x)
    return out


def spec_params(j):
    """spec content + wire choice of the owner set for constructor arguments; None = outside the CDDL"""
    if j["id"] is not None:
        return None
    rs = [spec_relay(r) for r in (j["relays"] or [])]          # relays=None: `__post_init__` makes it []
    if any(r is None for r in rs):
        return None
    q = Fraction(int(j["margin"][0]), int(j["margin"][1]))
    owners = [bytes.fromhex(h) for h in j["owners"]["xs"]]
    if j["owners"]["kind"] == "oset":
        owners = dedup(owners)
    md = None
    if j["metadata"] is not None:
        md = {"url": bytes.fromhex(j["metadata"]["url"]).decode("utf-8"), "hash": bytes.fromhex(j["metadata"]["hash"])}
    content = {"operator": bytes.fromhex(j["operator"]), "vrf": bytes.fromhex(j["vrf"]), "pledge": int(j["pledge"]),
               "cost": int(j["cost"]), "margin": [q.numerator, q.denominator], "reward_account": bytes.fromhex(j["ra"]),
               "owners": owners, "relays": rs, "metadata": md}
    tagged = j["owners"]["kind"] == "oset" and j["owners"]["tagged"]
    return content, tagged


def spec_json(content, tagged):
    """the content as the JSON of the driver op pool.spec.reg"""
    def rel(r):
        o = {"k": r["k"]}
        if r["k"] in ("addr", "name"):
            o["port"] = None if r["port"] is None else str(r["port"])
        if r["k"] == "addr":
            o["ipv4"] = None if r["ipv4"] is None else r["ipv4"].hex()
            o["ipv6"] = None if r["ipv6"] is None else r["ipv6"].hex()
        else:
            o["dns"] = hx(r["dns"])
        return o
    md = content["metadata"]
    return {"operator": content["operator"].hex(), "vrf": content["vrf"].hex(), "pledge": str(content["pledge"]),
            "cost": str(content["cost"]), "margin": [str(x) for x in content["margin"]], "ra": content["reward_account"].hex(),
            "owners": [h.hex() for h in content["owners"]], "tagged": tagged, "relays": [rel(r) for r in content["relays"]],
            "metadata": None if md is None else {"url": hx(md["url"]), "hash": md["hash"].hex()}}


def free_relay(r):
    """the relay rule without value ranges"""
    if r["k"] == "addr":
        return [0, r["port"], r["ipv4"], r["ipv6"]]
    if r["k"] == "name":
        return [1, r["port"], r["dns"]]
    return [2, r["dns"]]


def free_registration(c, tagged):
    """[3, *pool_params] of a content, written from the CDDL text, without the value ranges"""
    owners = R.Tag(258, list(c["owners"])) if tagged else list(c["owners"])
    md = None if c["metadata"] is None else [c["metadata"]["url"], c["metadata"]["hash"]]
    return [3, c["operator"], c["vrf"], c["pledge"], c["cost"], R.Tag(30, list(c["margin"])), c["reward_account"], owners,
            [free_relay(r) for r in c["relays"]], md]



# ------------------------------------------------------------------------------------------ malformed stream
def good_parts(rng):
    """the ten items of a well-formed flattened registration (cbor_ref data model) and variations of each"""
    op, vrf, ra = rbytes(rng, 28), rbytes(rng, 32), b"\xe1" + rbytes(rng, 28)
    o1, o2 = rbytes(rng, 28), rbytes(rng, 28)
    relays = [[0, 3001, bytes([1, 2, 3, 4]), None], [1, None, "relay.example"], [2, "multi.example"]]
    md = ["https://x.example", rbytes(rng, 32)]
    return [3, op, vrf, 100, 340_000_000, R.Tag(30, [1, 20]), ra, R.Tag(258, [o1, o2]), relays, md]


def _with(parts, pos, v):
    p = list(parts)
    p[pos] = v
    return p


RELAY_DAMAGE = {
    "relay-code-3": [3, 1, "x"], "relay-code-neg": [-1, 1], "relay-code-text": ["0", 1, None, None], "relay-code-null": [None, 1],
    "relay-code-bignum0": [R.Tag(2, b"\x00"), 5, None, None], "relay-code-true": [True, 7, "t.example"], "relay-code-false": [False, 7, None, None],
    "relay-empty": [], "relay-addr-arity1": [0], "relay-addr-arity3": [0, 1, None], "relay-addr-arity5": [0, 1, None, None, 9],
    "relay-name-arity2": [1, 1], "relay-name-arity4": [1, 1, "a", "b"], "relay-multi-arity1": [2], "relay-multi-arity3": [2, "a", "b"],
    "relay-ipv4-3": [0, 1, b"\x01\x02\x03", None], "relay-ipv4-5": [0, 1, b"\x01\x02\x03\x04\x05", None], "relay-ipv4-0": [0, 1, b"", None],
    "relay-ipv6-15": [0, 1, None, bytes(15)], "relay-ipv6-17": [0, 1, None, bytes(17)], "relay-ipv6-4": [0, 1, None, b"\x01\x02\x03\x04"],
    "relay-ipv4-text": [0, 1, "1.2.3.4", None], "relay-ipv4-text-noncanon": [0, 1, "01.2.3.4", None], "relay-ipv4-text-bad": [0, 1, "nonsense", None],
    "relay-ipv6-text": [0, 1, None, "::1"], "relay-ipv6-text-noncanon": [0, 1, None, "0:0:0:0:0:0:0:1"], "relay-ipv6-text-bad": [0, 1, None, "zz"],
    "relay-ipv4-int": [0, 1, 16909060, None], "relay-ipv6-list": [0, 1, None, [1, 2]], "relay-ipv4-chunked": [0, 1, R.Chunked([b"\x01\x02", b"\x03\x04"]), None],
    "relay-port-text": [0, "3001", None, None], "relay-port-bytes": [1, b"\x0b\xb9", "a.example"], "relay-port-neg": [0, -1, None, None],
    "relay-port-big": [1, 2**64, "a.example"], "relay-port-bignum-small": [0, R.Tag(2, b"\x0b\xb9"), None, None], "relay-port-list": [1, [1], "a"],
    "relay-dns-int": [1, 1, 5], "relay-dns-null": [1, 1, None], "relay-dns-bytes": [2, b"abc"], "relay-multi-dns-null": [2, None],
    "relay-indef": R.IndefList([0, 1, None, None]), "relay-map": R.Map([(0, 1)]), "relay-int": 7, "relay-null": None, "relay-text": "relay",
    "relay-tagged": R.Tag(258, [2, "a"]), "relay-nested": [[0, 1, None, None]],
}

# damage kinds of a whole registration; each is a function (rng, parts) -> primitive
REG_DAMAGE = {
    "good": lambda g, p: p,
    "nested-form": lambda g, p: [3, p[1:]],
    "nested-form-extra": lambda g, p: [3, p[1:], 7],
    "nested-indef": lambda g, p: [3, R.IndefList(p[1:])],
    "nested-short": lambda g, p: [3, p[1:5]],
    "top-indef": lambda g, p: R.IndefList(p),
    "top-map": lambda g, p: R.Map([(0, 3)]),
    "top-int": lambda g, p: 3,
    "top-bytes": lambda g, p: b"\x03",
    "top-null": lambda g, p: None,
    "top-tag": lambda g, p: R.Tag(258, p),
    "empty": lambda g, p: [],
    "code-only": lambda g, p: [3],
    "code-4": lambda g, p: _with(p, 0, 4),
    "code-text": lambda g, p: _with(p, 0, "3"),
    "code-bignum": lambda g, p: _with(p, 0, R.Tag(2, b"\x03")),
    "code-neg": lambda g, p: _with(p, 0, -3),
    "code-true": lambda g, p: _with(p, 0, True),
    **{f"arity-{n}": (lambda n: lambda g, p: p[:n])(n) for n in range(2, 10)},
    "arity-11-id": lambda g, p: p + [bech32_ref.encode("pool", rbytes(g, 28))],
    "arity-11-id-null": lambda g, p: p + [None],
    "arity-11-id-bad": lambda g, p: p + ["pool1notvalid"],
    "arity-11-id-addr": lambda g, p: p + [bech32_ref.encode("addr", rbytes(g, 29))],
    "arity-11-id-int": lambda g, p: p + [5],
    "arity-11-id-upper": lambda g, p: p + [bech32_ref.encode("pool", rbytes(g, 28)).upper()],
    "arity-12": lambda g, p: p + [None, 99],
    "operator-27": lambda g, p: _with(p, 1, rbytes(g, 27)),
    "operator-29": lambda g, p: _with(p, 1, rbytes(g, 29)),
    "operator-hex-text": lambda g, p: _with(p, 1, rbytes(g, 28).hex()),
    "operator-bad-text": lambda g, p: _with(p, 1, "zz"),
    "operator-int": lambda g, p: _with(p, 1, 5),
    "operator-null": lambda g, p: _with(p, 1, None),
    "operator-chunked": lambda g, p: _with(p, 1, R.Chunked([rbytes(g, 20), rbytes(g, 8)])),
    "operator-list": lambda g, p: _with(p, 1, [1, 2]),
    "vrf-28": lambda g, p: _with(p, 2, rbytes(g, 28)),
    "vrf-int": lambda g, p: _with(p, 2, 0),
    "pledge-text": lambda g, p: _with(p, 3, "100"),
    "pledge-neg": lambda g, p: _with(p, 3, -5),
    "pledge-bignum": lambda g, p: _with(p, 3, 2**70),
    "pledge-bignum-small": lambda g, p: _with(p, 3, R.Tag(2, b"\x64")),
    "pledge-null": lambda g, p: _with(p, 3, None),
    "pledge-bytes": lambda g, p: _with(p, 3, b"\x64"),
    "cost-list": lambda g, p: _with(p, 4, [1]),
    "cost-negbig": lambda g, p: _with(p, 4, -(2**64) - 1),
    "margin-nonreduced": lambda g, p: _with(p, 5, R.Tag(30, [2, 4])),
    "margin-6-4": lambda g, p: _with(p, 5, R.Tag(30, [6, 4])),
    "margin-neg-den": lambda g, p: _with(p, 5, R.Tag(30, [1, -2])),
    "margin-neg-both": lambda g, p: _with(p, 5, R.Tag(30, [-2, -4])),
    "margin-zero-den": lambda g, p: _with(p, 5, R.Tag(30, [1, 0])),
    "margin-zero": lambda g, p: _with(p, 5, R.Tag(30, [0, 7])),
    "margin-one-elem": lambda g, p: _with(p, 5, R.Tag(30, [5])),
    "margin-no-elem": lambda g, p: _with(p, 5, R.Tag(30, [])),
    "margin-three": lambda g, p: _with(p, 5, R.Tag(30, [1, 2, 3])),
    "margin-untagged": lambda g, p: _with(p, 5, [1, 2]),
    "margin-int": lambda g, p: _with(p, 5, 1),
    "margin-tag-int": lambda g, p: _with(p, 5, R.Tag(30, 5)),
    "margin-tag-31": lambda g, p: _with(p, 5, R.Tag(31, [1, 2])),
    "margin-bytes-elem": lambda g, p: _with(p, 5, R.Tag(30, [b"\x01", 2])),
    "margin-null-elem": lambda g, p: _with(p, 5, R.Tag(30, [None, 2])),
    "margin-big": lambda g, p: _with(p, 5, R.Tag(30, [2**64, 2**65])),
    "margin-null": lambda g, p: _with(p, 5, None),
    "ra-28": lambda g, p: _with(p, 6, rbytes(g, 28)),
    "ra-30": lambda g, p: _with(p, 6, rbytes(g, 30)),
    "ra-text": lambda g, p: _with(p, 6, "e1" + "00" * 28),
    "owners-untagged": lambda g, p: _with(p, 7, [rbytes(g, 28), rbytes(g, 28)]),
    "owners-indef": lambda g, p: _with(p, 7, R.IndefList([rbytes(g, 28)])),
    "owners-indef-int": lambda g, p: _with(p, 7, R.IndefList([5])),
    "owners-indef-short": lambda g, p: _with(p, 7, R.IndefList([rbytes(g, 27)])),
    "owners-empty": lambda g, p: _with(p, 7, []),
    "owners-tagged-empty": lambda g, p: _with(p, 7, R.Tag(258, [])),
    "owners-tagged-indef": lambda g, p: _with(p, 7, R.Tag(258, R.IndefList([rbytes(g, 28)]))),
    "owners-tagged-dup": lambda g, p: (lambda h, k: _with(p, 7, R.Tag(258, [h, k, h, h, k])))(rbytes(g, 28), rbytes(g, 28)),
    "owners-untagged-dup": lambda g, p: (lambda h: _with(p, 7, [h, h]))(rbytes(g, 28)),
    "owners-elem-27": lambda g, p: _with(p, 7, R.Tag(258, [rbytes(g, 27)])),
    "owners-elem-int": lambda g, p: _with(p, 7, [rbytes(g, 28), 5]),
    "owners-tagged-elem-int": lambda g, p: _with(p, 7, R.Tag(258, [5])),
    "owners-elem-hex-text": lambda g, p: _with(p, 7, [rbytes(g, 28).hex()]),
    "owners-elem-null": lambda g, p: _with(p, 7, [None]),
    "owners-tag-259": lambda g, p: _with(p, 7, R.Tag(259, [rbytes(g, 28)])),
    "owners-tag-int": lambda g, p: _with(p, 7, R.Tag(258, 5)),
    "owners-tag-bytes": lambda g, p: _with(p, 7, R.Tag(258, b"ab")),
    "owners-tag-empty-bytes": lambda g, p: _with(p, 7, R.Tag(258, b"")),
    "owners-tag-text": lambda g, p: _with(p, 7, R.Tag(258, "ab")),
    "owners-tag-empty-text": lambda g, p: _with(p, 7, R.Tag(258, "")),
    "owners-tag-map": lambda g, p: _with(p, 7, R.Tag(258, R.Map([(rbytes(g, 28), 1), (rbytes(g, 28), 2)]))),
    "owners-tag-null": lambda g, p: _with(p, 7, R.Tag(258, None)),
    "owners-tag-tag": lambda g, p: _with(p, 7, R.Tag(258, R.Tag(258, []))),
    "owners-int": lambda g, p: _with(p, 7, 5),
    "owners-null": lambda g, p: _with(p, 7, None),
    "owners-bytes": lambda g, p: _with(p, 7, rbytes(g, 28)),
    "owners-map": lambda g, p: _with(p, 7, R.Map([])),
    "relays-null": lambda g, p: _with(p, 8, None),
    "relays-int": lambda g, p: _with(p, 8, 0),
    "relays-empty": lambda g, p: _with(p, 8, []),
    "relays-indef": lambda g, p: _with(p, 8, R.IndefList(p[8])),
    "relays-tagged": lambda g, p: _with(p, 8, R.Tag(258, p[8])),
    "relays-map": lambda g, p: _with(p, 8, R.Map([])),
    "relays-25": lambda g, p: _with(p, 8, [[2, f"r{i}.example"] for i in range(25)]),
    "metadata-null": lambda g, p: _with(p, 9, None),
    "metadata-empty": lambda g, p: _with(p, 9, []),
    "metadata-url-only": lambda g, p: _with(p, 9, ["u"]),
    "metadata-url-only-bad": lambda g, p: _with(p, 9, [5]),
    "metadata-extra": lambda g, p: _with(p, 9, ["u", rbytes(g, 32), 1]),
    "metadata-url-bytes": lambda g, p: _with(p, 9, [b"u", rbytes(g, 32)]),
    "metadata-url-null": lambda g, p: _with(p, 9, [None, rbytes(g, 32)]),
    "metadata-hash-31": lambda g, p: _with(p, 9, ["u", rbytes(g, 31)]),
    "metadata-hash-int": lambda g, p: _with(p, 9, ["u", 5]),
    "metadata-hash-hex-text": lambda g, p: _with(p, 9, ["u", rbytes(g, 32).hex()]),
    "metadata-indef": lambda g, p: _with(p, 9, R.IndefList(["u", rbytes(g, 32)])),
    "metadata-int": lambda g, p: _with(p, 9, 5),
    "metadata-text": lambda g, p: _with(p, 9, "u"),
    "metadata-map": lambda g, p: _with(p, 9, R.Map([])),
    **{k: (lambda v: lambda g, p: _with(p, 8, [p[8][0], v, p[8][2]]))(v) for k, v in RELAY_DAMAGE.items()},
}

RET_DAMAGE = {
    "good": lambda g: [4, rbytes(g, 28), 300],
    "empty": lambda g: [],
    "code-only": lambda g: [4],
    "no-epoch": lambda g: [4, rbytes(g, 28)],
    "extra": lambda g: [4, rbytes(g, 28), 300, 7],
    "code-3": lambda g: [3, rbytes(g, 28), 300],
    "code-text": lambda g: ["4", rbytes(g, 28), 300],
    "code-bignum": lambda g: [R.Tag(2, b"\x04"), rbytes(g, 28), 300],
    "kh-27": lambda g: [4, rbytes(g, 27), 300],
    "kh-29": lambda g: [4, rbytes(g, 29), 300],
    "kh-int": lambda g: [4, 5, 300],
    "kh-hex-text": lambda g: [4, rbytes(g, 28).hex(), 300],
    "kh-chunked": lambda g: [4, R.Chunked([rbytes(g, 14), rbytes(g, 14)]), 300],
    "kh-only-bad": lambda g: [4, 5],
    "epoch-text": lambda g: [4, rbytes(g, 28), "300"],
    "epoch-neg": lambda g: [4, rbytes(g, 28), -1],
    "epoch-big": lambda g: [4, rbytes(g, 28), 2**64],
    "epoch-bignum-small": lambda g: [4, rbytes(g, 28), R.Tag(2, b"\x01\x2c")],
    "epoch-null": lambda g: [4, rbytes(g, 28), None],
    "epoch-bytes": lambda g: [4, rbytes(g, 28), b"\x01"],
    "indef": lambda g: R.IndefList([4, rbytes(g, 28), 300]),
    "map": lambda g: R.Map([(4, 1)]),
    "int": lambda g: 4,
    "null": lambda g: None,
}


def rng_of(seed):
    return random.Random(seed)
