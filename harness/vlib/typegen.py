"""Type-directed generation of pycardano objects from the extracted schema (extract_schema.schema()), and the
generic conversion of objects to the `Val` JSON image of the Lean codec model.  A new class or field in /repo is
exercised without editing this file (classes that need hand-written construction are listed in CUSTOM_GEN)."""
from __future__ import annotations

import dataclasses
import enum
import importlib
from fractions import Fraction

import cbor2

import extract_schema as E

from pycardano.serialization import (CBORSerializable, DictCBORSerializable, IndefiniteList, NonEmptyOrderedSet, OrderedSet,
                                     default_encoder)

SCH = {d["name"]: d for d in E.schema()}


def _classes():
    out = {}
    for c in E.load():
        out[c.__name__] = c
    import pycardano.address
    import pycardano.certificate
    import pycardano.governance
    import pycardano.network
    import pycardano.plutus
    for e in (pycardano.network.Network, pycardano.address.AddressType, pycardano.certificate.DRepKind, pycardano.governance.Vote,
              pycardano.governance.VoterType, pycardano.plutus.PlutusV1Script, pycardano.plutus.PlutusV2Script,
              pycardano.plutus.PlutusV3Script):
        out[e.__name__] = e
    return out


CLS = _classes()
LONG = [23, 24, 24, 25, 25, 30, 30, 256]     # collection sizes around the CBOR head-width boundaries
INTS = [0, 1, 23, 24, 255, 256, 65535, 65536, 2**32 - 1, 2**32, 2**63 - 1, 2**64 - 1]


def rb(rng, n):
    return bytes(rng.randrange(256) for _ in range(n))


def generic_enc(name):
    """the class is serialized by the generic table-driven code (no to_primitive / to_shallow_primitive of its own)"""
    d = SCH.get(name)
    if d is None or d["kind"] not in ("array", "map", "coded"):
        return False
    if {"to_primitive", "to_shallow_primitive"} & set(d["overrides"]):
        return False
    if d["kind"] == "coded" and d["code"] is None:
        return False
    return True


def generic_dec(name):
    """... and restored by the generic code (no from_primitive / __post_init__ of its own)"""
    d = SCH.get(name)
    return generic_enc(name) and "from_primitive" not in d["overrides"] and "__post_init__" not in d["overrides"]


def fully_generic(name, seen=None):
    """every part of the class is restored by the generic code (no custom / hook leaf anywhere below)"""
    seen = seen or set()
    if name in seen:
        return True
    seen = seen | {name}
    d = SCH.get(name)
    if d is None:
        return False
    if d["kind"] in ("cbytes", "enum"):
        return not ({"from_primitive"} & set(d["overrides"])) or d["kind"] == "enum"
    if not generic_dec(name):
        return False

    def ok(t):
        k = t[0]
        if k in ("int", "bool", "bytes", "text", "none", "frac"):
            return True
        if k == "cls":
            return fully_generic(t[1], seen)
        if k in ("list",):
            return ok(t[1])
        if k == "oset":
            return ok(t[1])
        if k in ("union", "tuple"):
            return all(ok(a) for a in t[1])
        return False
    return all(ok(f["type"]) and not f["hook"] for f in d["fields"] if f["init"])


def enc_fields(d):
    """fields the generic encoder emits: every dataclass field for array / map classes (init or not), the constructor
    fields after the code for coded classes"""
    if d["kind"] == "coded":
        return [f for f in d["fields"] if f["init"]]
    return list(d["fields"])


# ---- object -> Val JSON ------------------------------------------------------------------------------------------------
def raw(obj):
    return {"raw": cbor2.dumps(obj, default=default_encoder).hex()}


def raw_field(v):
    """the primitive of a field value as an opaque leaf (an OrderedSet is a `list` subclass: cbor2 would write it as a bare
    array without consulting the default encoder, so its own `to_primitive` is taken first)"""
    if isinstance(v, CBORSerializable):
        v = v.to_primitive()
    return raw(v)


def to_val(x):
    """dynamic, like `to_primitive`: dispatch on the runtime class of the value"""
    from pycardano.hash import ConstrainedBytes
    if x is None:
        return {"n": None}
    if isinstance(x, bool):
        return {"t": x}
    if isinstance(x, int):
        return {"i": str(x)}
    if isinstance(x, (bytes, bytearray)) and type(x) in (bytes, bytearray):
        return {"b": bytes(x).hex()}
    if isinstance(x, str):
        return {"s": x.encode("utf-8").hex()}
    if isinstance(x, Fraction):
        return {"q": [str(x.numerator), str(x.denominator)]}
    if isinstance(x, OrderedSet):
        return {"os": [bool(x._use_tag), [to_val(e) for e in x]]}
    if type(x) in (list, tuple):
        return {"l": [to_val(e) for e in x]}
    if isinstance(x, ConstrainedBytes):
        return {"cb": bytes(x.payload).hex()}
    if isinstance(x, enum.Enum) and isinstance(x, CBORSerializable) and isinstance(x.value, int):
        return {"e": str(x.value)}
    if isinstance(x, DictCBORSerializable):
        d = SCH.get(type(x).__name__)
        if d and not ({"to_primitive", "to_shallow_primitive"} & set(d["overrides"])):
            return {"d": [[to_val(k), to_val(v)] for k, v in x.data.items()]}
        return raw(x)
    if dataclasses.is_dataclass(x) and isinstance(x, CBORSerializable) and generic_enc(type(x).__name__):
        d = SCH[type(x).__name__]
        # a field restored by its `object_hook` (hand-written code) is an opaque leaf of the model: its primitive
        return {"o": [d["name"], [raw_field(getattr(x, f["name"])) if f["hook"] and getattr(x, f["name"]) is not None
                                  else to_val(getattr(x, f["name"])) for f in enc_fields(d)]]}
    return raw(x)


def same_val(drv, a, b):
    """structural comparison of two `Val` images; where one side is an opaque leaf (`raw`) and the other is
    structural, the structural side is encoded by the model driver and the bytes are compared"""
    if "raw" in a or "raw" in b:
        ea = a["raw"] if "raw" in a else drv.ok({"op": "codec.enc", "v": a})
        eb = b["raw"] if "raw" in b else drv.ok({"op": "codec.enc", "v": b})
        return ea == eb
    ka, kb = next(iter(a)), next(iter(b))
    if {ka, kb} == {"cb", "b"}:              # a hash-typed field: Python holds a ConstrainedBytes, both are byte strings
        return a[ka] == b[kb]
    if ka != kb:
        return False
    if ka == "l":
        return len(a["l"]) == len(b["l"]) and all(same_val(drv, x, y) for x, y in zip(a["l"], b["l"]))
    if ka == "os":
        return a["os"][0] == b["os"][0] and len(a["os"][1]) == len(b["os"][1]) and all(same_val(drv, x, y) for x, y in zip(a["os"][1], b["os"][1]))
    if ka == "d":
        if len(a["d"]) != len(b["d"]):
            return False
        rest = list(b["d"])
        for k1, v1 in a["d"]:
            for idx, (k2, v2) in enumerate(rest):
                if same_val(drv, k1, k2) and same_val(drv, v1, v2):
                    rest.pop(idx)
                    break
            else:
                return False
        return True
    if ka == "o":
        return a["o"][0] == b["o"][0] and len(a["o"][1]) == len(b["o"][1]) and all(same_val(drv, x, y) for x, y in zip(a["o"][1], b["o"][1]))
    return a == b


# ---- generation ----------------------------------------------------------------------------------------------------------
class Gen:
    def __init__(self, rng, coverage=None):
        self.rng = rng
        self.cov = coverage if coverage is not None else {}

    def hit(self, key):
        self.cov[key] = self.cov.get(key, 0) + 1

    def value(self, t, depth):
        rng = self.rng
        k = t[0]
        if k == "int":
            return rng.choice(INTS) if rng.random() < 0.6 else rng.randint(0, 10**7)
        if k == "bool":
            return rng.random() < 0.5
        if k == "bytes":
            return rb(rng, rng.choice([0, 1, 28, 29, 32, 64]))
        if k == "text":
            return rng.choice(["", "a", "https://example.org/x", "é☃", "x" * 64])
        if k == "none":
            return None
        if k == "frac":
            return Fraction(rng.randint(0, 100), rng.choice([1, 3, 100, 2**32]))
        if k == "any":
            return rng.choice([0, 1, b"\x01", [1, 2], b""])
        if k == "cls":
            return self.obj(t[1], depth)
        if k == "list":
            n = 0 if depth <= 0 else rng.choice([0, 1, 2, 3])
            if depth > 0 and rng.random() < 0.02:
                n = rng.choice(LONG)          # lengths that do not fit the initial byte of the CBOR head
                self.hit("long-list")
                return [self.value(t[1], 0 if depth <= 1 else 1) for _ in range(n)]
            return [self.value(t[1], depth - 1) for _ in range(n)]
        if k == "oset":
            n = rng.choice([1, 2, 3]) if (t[2] or depth > 0) else 0
            if depth <= 0:
                n = 1 if t[2] else 0
            elif rng.random() < 0.02:
                n = rng.choice(LONG)
                self.hit("long-set")
            items = [self.value(t[1], depth - 1) for _ in range(n)]
            c = NonEmptyOrderedSet if t[2] else OrderedSet
            s = c(items, use_tag=rng.random() < 0.7)
            if t[2] and len(s) == 0:
                s = c([self.value(t[1], depth - 1)], use_tag=True)
            return s
        if k == "union":
            alts = t[1]
            # every choice depends on the case's own rng only (a case replays from its seed); the shared table counts
            a = rng.choice(alts)
            if depth <= 0 and any(x[0] == "none" for x in alts):
                a = ("none",)
            self.hit("alt:" + str(a))
            return self.value(a, depth)
        if k == "tuple":
            return tuple(self.value(a, depth - 1) for a in t[1])
        if k == "dict":
            # a plain `Dict` hint (ProtocolParamUpdate.cost_models): the decoded map is handed through as it is, so whatever
            # framing a value has must survive — cost models as definite and as INDEFINITE-length arrays, empty ones, a few
            # hundred entries now and then
            if rng.random() < 0.25:
                return {}
            from pycardano.serialization import IndefiniteList
            out = {}
            for lang in rng.sample([0, 1, 2], rng.randint(1, 3)):
                n = rng.choice([0, 1, 3, 23, 24, 25, 166]) if rng.random() < 0.7 else rng.randint(0, 300)
                xs = [rng.choice(INTS[:8]) if rng.random() < 0.3 else rng.randint(-1000, 10**7) for _ in range(n)]
                out[lang] = IndefiniteList(xs) if rng.random() < 0.5 else xs
            return out
        if k == "named" and " | " in t[1]:
            # a PEP 604 union (`X | None`): pycardano's restorer does not understand it (no `__origin__`), the translator renders
            # it as an unknown named type; values are generated from its alternatives so that the failure becomes concrete
            names = {"None": ("none",), "int": ("int",), "bytes": ("bytes",), "str": ("text",), "bool": ("bool",),
                     "fractions.Fraction": ("frac",), "Fraction": ("frac",)}
            alts = [names.get(a.strip()) or (("cls", a.strip().split(".")[-1]) if a.strip().split(".")[-1] in SCH else None)
                    for a in t[1].split(" | ")]
            alts = [a for a in alts if a is not None]
            if alts:
                a = rng.choice([x for x in alts if x != ("none",)] or alts)
                return self.value(a, depth)
        raise ValueError(t)

    def obj(self, name, depth):
        self.hit("cls:" + name)
        if name in CUSTOM_GEN:
            return CUSTOM_GEN[name](self, depth)
        d = SCH[name]
        c = CLS[name]
        rng = self.rng
        if d["kind"] == "cbytes":
            n = rng.randint(d["min"], d["max"]) if d["min"] != d["max"] else d["min"]
            return c(rb(rng, n))
        if d["kind"] == "enum":
            return rng.choice(list(c))
        if d["kind"] == "dict":
            x = c()
            n = 0 if depth <= 0 else rng.choice([0, 1, 2, 3])
            if depth > 0 and rng.random() < 0.02:
                n = rng.choice(LONG)
                self.hit("long-dict")
            for _ in range(n):
                x[self.value(d["key_type"], depth - 1)] = self.value(d["value_type"], depth - 1)
            return x
        if d["kind"] in ("array", "map", "coded"):
            kw = {}
            mask = []
            for f in d["fields"]:
                if not f["init"]:
                    continue
                if f["optional"] and rng.random() < 0.5:
                    kw[f["name"]] = None
                    mask.append("0")
                    continue
                mask.append("1")
                kw[f["name"]] = self.value(f["type"], depth - 1)
            self.hit(f"mask:{name}:{''.join(mask)}")
            return c(**kw)
        raise ValueError(f"no generator for {name} ({d['kind']})")


# ---- hand-written construction for classes with constraints / their own codec -----------------------------------------
def g_address(g, depth):
    from pycardano import Address, Network, PointerAddress
    from pycardano.hash import ScriptHash, VerificationKeyHash
    rng = g.rng
    net = rng.choice(list(Network))
    pay = rng.choice([VerificationKeyHash, ScriptHash])(rb(rng, 28))
    kind = rng.choice(["ent", "base", "ptr", "reward"])
    g.hit("addr:" + kind)
    if kind == "ent":
        return Address(pay, network=net)
    if kind == "base":
        return Address(pay, rng.choice([VerificationKeyHash, ScriptHash])(rb(rng, 28)), net)
    if kind == "ptr":
        return Address(pay, PointerAddress(rng.choice([0, 1, 127, 128, 2**32]), rng.choice([0, 5, 300]), rng.choice([0, 1])), net)
    return Address(staking_part=pay, network=net)


def g_plutus_datum(g, depth):
    from cbor2 import CBORTag
    from pycardano import RawPlutusData
    rng = g.rng
    fields = [rng.choice([0, 1, 2**40, b"\x01\x02", b""]) for _ in range(rng.choice([0, 1, 2]))]
    return RawPlutusData(CBORTag(121 + rng.randrange(7), IndefiniteList(fields) if fields else []))


def g_native_script(g, depth):
    from pycardano import InvalidBefore, InvalidHereAfter, ScriptAll, ScriptAny, ScriptNofK, ScriptPubkey
    from pycardano.hash import VerificationKeyHash
    rng = g.rng
    if depth <= 0 or rng.random() < 0.4:
        k = rng.choice(["pk", "before", "after"])
        g.hit("native:" + k)
        return {"pk": lambda: ScriptPubkey(VerificationKeyHash(rb(rng, 28))), "before": lambda: InvalidBefore(rng.choice(INTS[:8])),
                "after": lambda: InvalidHereAfter(rng.choice(INTS[:8]))}[k]()
    k = rng.choice(["all", "any", "nofk"])
    g.hit("native:" + k)
    subs = [g_native_script(g, depth - 1) for _ in range(rng.choice([0, 1, 2, 3]))]
    if k == "all":
        return ScriptAll(subs)
    if k == "any":
        return ScriptAny(subs)
    return ScriptNofK(rng.randint(0, 3), subs)


def g_plutus_script(version):
    def f(g, depth):
        import pycardano.plutus as P
        return {1: P.PlutusV1Script, 2: P.PlutusV2Script, 3: P.PlutusV3Script}[version](rb(g.rng, g.rng.choice([1, 5, 70])))
    return f


def g_any_plutus_script(g, depth):
    return g_plutus_script(g.rng.choice([1, 2, 3]))(g, depth)


def g_value(g, depth):
    from pycardano import Value
    from vlib import values as V
    return V.load_value(V.gen_value_json(g.rng, npol=3, nname=3, negatives=False))


def g_multi_asset(g, depth):
    from vlib import values as V
    return V.load_ma(V.gen_ma_json(g.rng, npol=3, nname=3, negatives=g.rng.random() < 0.3))


def g_asset(g, depth):
    from vlib import values as V
    m = V.gen_ma_json(g.rng, npol=1, nname=3, negatives=False, maxp=1)
    return V.load_asset(m[0][1] if m else [])


def g_output(g, depth):
    import pycardano as pc
    from pycardano import TransactionOutput
    rng = g.rng
    addr, amount, flag = g_address(g, 0), g_value(g, 0), rng.random() < 0.5
    kw = {}
    r = rng.random()
    if r < 0.25:
        kw["datum_hash"] = pc.hash.DatumHash(rb(rng, 32))
        g.hit("out:datum_hash")
    elif r < 0.5:
        kw["datum"] = rng.choice([g_plutus_datum(g, 0), 0, 42, b"", b"\x01"])
        g.hit("out:inline")
    if rng.random() < 0.25:
        kw["script"] = rng.choice([g_any_plutus_script(g, 0), g_native_script(g, 1)])
        g.hit("out:script")
    # every field goes through the constructor: `__post_init__` is where `post_alonzo` is made consistent with the content
    o = TransactionOutput(addr, amount, post_alonzo=flag, **kw)
    g.hit("out:" + ("map" if (o.datum is not None or o.script is not None or o.post_alonzo) else "legacy"))
    return o


def g_stake_credential(name):
    def f(g, depth):
        from pycardano.hash import ScriptHash, VerificationKeyHash
        c = CLS[name]
        return c(g.rng.choice([VerificationKeyHash, ScriptHash])(rb(g.rng, 28)))
    return f


def g_drep(g, depth):
    from pycardano.certificate import DRep, DRepKind
    from pycardano.hash import ScriptHash, VerificationKeyHash
    k = g.rng.choice(list(DRepKind))
    g.hit("drep:" + k.name)
    if k == DRepKind.VERIFICATION_KEY_HASH:
        return DRep(k, VerificationKeyHash(rb(g.rng, 28)))
    if k == DRepKind.SCRIPT_HASH:
        return DRep(k, ScriptHash(rb(g.rng, 28)))
    return DRep(k)


def g_voter(g, depth):
    from pycardano.governance import Voter, VoterType
    from pycardano.hash import ScriptHash, VerificationKeyHash
    t = g.rng.choice(list(VoterType))
    cred = VerificationKeyHash(rb(g.rng, 28)) if t == VoterType.STAKING_POOL or g.rng.random() < 0.5 else ScriptHash(rb(g.rng, 28))
    g.hit(f"voter:{t.name}:{type(cred).__name__}")
    return Voter(cred, t)


def g_voting_procedure(g, depth):
    from pycardano.governance import Vote, VotingProcedure
    return VotingProcedure(g.rng.choice(list(Vote)), None if g.rng.random() < 0.5 else g.obj("Anchor", 1))


def g_relay(kind):
    def f(g, depth):
        import pycardano.pool_params as PP
        rng = g.rng
        if kind == "addr":
            return PP.SingleHostAddr(port=rng.choice([None, 3001]), ipv4=rng.choice([None, "192.168.0.1"]),
                                     ipv6=rng.choice([None, "::1", "2001:db8::1"]))
        if kind == "name":
            return PP.SingleHostName(port=rng.choice([None, 3001]), dns_name=rng.choice(["relay.example.org", "a.b"]))
        return PP.MultiHostName(dns_name=rng.choice(["relay.example.org", "a.b"]))
    return f


def g_pool_params(g, depth):
    import pycardano.pool_params as PP
    from pycardano.hash import PoolKeyHash, PoolMetadataHash, RewardAccountHash, VerificationKeyHash, VrfKeyHash
    rng = g.rng
    relays = None if rng.random() < 0.3 else [g.obj(rng.choice(["SingleHostAddr", "SingleHostName", "MultiHostName"]), 0) for _ in range(rng.choice([0, 1, 3]))]
    return PP.PoolParams(operator=PoolKeyHash(rb(rng, 28)), vrf_keyhash=VrfKeyHash(rb(rng, 32)), pledge=rng.choice(INTS), cost=rng.choice(INTS),
                         margin=Fraction(rng.randint(0, 100), 100), reward_account=RewardAccountHash(rb(rng, 29)),
                         pool_owners=[VerificationKeyHash(rb(rng, 28)) for _ in range(rng.choice([0, 1, 2]))], relays=relays,
                         pool_metadata=None if rng.random() < 0.5 else PP.PoolMetadata("https://p.example", PoolMetadataHash(rb(rng, 32))))


def g_pool_registration(g, depth):
    from pycardano.certificate import PoolRegistration
    return PoolRegistration(g_pool_params(g, depth))


def g_vkey(g, depth):
    from pycardano.key import VerificationKey
    return VerificationKey(rb(g.rng, 32))


def g_vkey_witness(g, depth):
    from pycardano.key import ExtendedVerificationKey, VerificationKey
    from pycardano.witness import VerificationKeyWitness
    # the key is handed over as the caller holds it: plain, role-specific (what `skey.to_verification_key()` returns for a
    # payment / stake / pool key) or extended — only the 32 key bytes are on the wire, the witness must still equal its round trip
    from pycardano import key as K
    r = g.rng.random()
    if r < 0.25:
        vk = VerificationKey(rb(g.rng, 32))
    elif r < 0.45:
        # what `SigningKey.to_verification_key()` returns: the plain class carrying a role-specific envelope
        vk = VerificationKey(rb(g.rng, 32), g.rng.choice(["PaymentVerificationKeyShelley_ed25519", "StakeVerificationKeyShelley_ed25519", "X"]),
                             g.rng.choice(["Payment Verification Key", "Y"]))
    elif r < 0.8:
        vk = g.rng.choice([K.PaymentVerificationKey, K.StakeVerificationKey, K.StakePoolVerificationKey])(rb(g.rng, 32))
    else:
        vk = g.rng.choice([ExtendedVerificationKey, K.PaymentExtendedVerificationKey, K.StakeExtendedVerificationKey])(rb(g.rng, 64))
    return VerificationKeyWitness(vk, rb(g.rng, 64))


def g_metadata(g, depth):
    from pycardano.metadata import Metadata
    rng = g.rng
    m = Metadata()
    for _ in range(rng.choice([0, 1, 2])):
        m[rng.choice([0, 1, 674, 721, 2**32])] = rng.choice([1, "text", b"\x01", [1, "a"], {"k": [1, 2]}, {1: "x"}])
    return m


def g_aux(g, depth):
    from pycardano.metadata import AlonzoMetadata, AuxiliaryData, ShelleyMarryMetadata
    rng = g.rng
    era = rng.choice(["shelley", "marry", "alonzo"])
    g.hit("aux:" + era)
    md = g_metadata(g, depth)
    if era == "shelley":
        return AuxiliaryData(md)
    if era == "marry":
        return AuxiliaryData(ShelleyMarryMetadata(md, [g_native_script(g, 1) for _ in range(rng.choice([0, 1, 2]))]))
    return AuxiliaryData(g_alonzo(g, depth))


def g_alonzo(g, depth):
    from pycardano.metadata import AlonzoMetadata
    rng = g.rng
    return AlonzoMetadata(metadata=g_metadata(g, depth) if rng.random() < 0.7 else None,
                          native_scripts=[g_native_script(g, 1)] if rng.random() < 0.4 else None,
                          plutus_v1_scripts=[g_plutus_script(1)(g, 0)] if rng.random() < 0.3 else None,
                          plutus_v2_scripts=[g_plutus_script(2)(g, 0)] if rng.random() < 0.3 else None,
                          plutus_v3_scripts=[g_plutus_script(3)(g, 0)] if rng.random() < 0.3 else None)


def g_marry(g, depth):
    from pycardano.metadata import ShelleyMarryMetadata
    return ShelleyMarryMetadata(g_metadata(g, depth), [g_native_script(g, 1) for _ in range(g.rng.choice([0, 1, 2]))])


def g_redeemer(g, depth):
    from pycardano.plutus import ExecutionUnits, Redeemer, RedeemerTag
    r = Redeemer(g.rng.choice([0, 7, b"\x00", g_plutus_datum(g, 0)]), ExecutionUnits(g.rng.choice(INTS[:9]), g.rng.choice(INTS[:9])))
    r.tag = g.rng.choice(list(RedeemerTag))
    r.index = g.rng.choice([0, 1, 23, 24, 300])
    return r


def g_redeemer_value(g, depth):
    from pycardano.plutus import ExecutionUnits, RedeemerValue
    return RedeemerValue(g.rng.choice([0, 7, b"\x00", g_plutus_datum(g, 0)]), ExecutionUnits(g.rng.choice(INTS[:9]), g.rng.choice(INTS[:9])))


def g_hard_fork(g, depth):
    from pycardano.governance import HardForkInitiationAction
    return HardForkInitiationAction(None if g.rng.random() < 0.5 else g.obj("GovActionId", 1), (g.rng.randint(1, 10), g.rng.randint(0, 3)))


def g_new_constitution(g, depth):
    from pycardano.governance import NewConstitution
    from pycardano.hash import ScriptHash
    return NewConstitution(None if g.rng.random() < 0.5 else g.obj("GovActionId", 1),
                           (g.obj("Anchor", 1), None if g.rng.random() < 0.5 else ScriptHash(rb(g.rng, 28))))


def g_datum_option(g, depth):
    from pycardano.hash import DatumHash
    from pycardano.transaction import _DatumOption
    return _DatumOption(g.rng.choice([DatumHash(rb(g.rng, 32)), g_plutus_datum(g, 0), 5]))


def g_script(g, depth):
    from pycardano.transaction import _Script
    return _Script(g.rng.choice([g_any_plutus_script(g, 0), g_native_script(g, 1)]))


def g_script_ref(g, depth):
    from pycardano.transaction import _ScriptRef
    return _ScriptRef(g_script(g, depth))


def g_pool_id(g, depth):
    from pycardano.pool_params import PoolId
    from pycardano.crypto import bech32
    return PoolId(bech32.encode("pool", rb(g.rng, 28)))


def g_witness_set(g, depth):
    """generic generation, but keep Plutus data / redeemers consistent with what the class can hold"""
    from pycardano.witness import TransactionWitnessSet
    rng = g.rng
    kw = {}
    if rng.random() < 0.5:
        kw["vkey_witnesses"] = [g_vkey_witness(g, 0) for _ in range(rng.choice([1, 2]))]
    if rng.random() < 0.4:
        kw["native_scripts"] = [g_native_script(g, 2) for _ in range(rng.choice([1, 2]))]
    for v, f in ((1, "plutus_v1_script"), (2, "plutus_v2_script"), (3, "plutus_v3_script")):
        if rng.random() < 0.3:
            kw[f] = [g_plutus_script(v)(g, 0) for _ in range(rng.choice([1, 2]))]
    if rng.random() < 0.4:
        kw["plutus_data"] = [g_plutus_datum(g, 0) for _ in range(rng.choice([1, 2]))]
    # the caller may hand over an ordered set instead of a plain list, tagged or not (the constructor re-wraps it)
    for f in ("vkey_witnesses", "native_scripts", "plutus_v1_script", "plutus_v2_script", "plutus_v3_script"):
        if f in kw and rng.random() < 0.35:
            kw[f] = NonEmptyOrderedSet(kw[f], use_tag=rng.random() < 0.5)
            g.hit("witness-set:field-given-as-ordered-set")
    if rng.random() < 0.5:
        if rng.random() < 0.5:
            kw["redeemer"] = [g_redeemer(g, 0) for _ in range(rng.choice([1, 2]))]
            g.hit("redeemers:list")
        else:
            from pycardano.plutus import RedeemerKey, RedeemerMap, RedeemerTag
            m = RedeemerMap()
            for _ in range(rng.choice([1, 2, 3])):
                m[RedeemerKey(rng.choice(list(RedeemerTag)), rng.choice([0, 1, 24]))] = g_redeemer_value(g, 0)
            kw["redeemer"] = m
            g.hit("redeemers:map")
    return TransactionWitnessSet(**kw)


def g_gov_action_id(g, depth):
    from pycardano.governance import GovActionId
    from pycardano.hash import TransactionId
    return GovActionId(TransactionId(rb(g.rng, 32)), g.rng.choice([0, 1, 23, 24, 255, 256, 65535]))


CUSTOM_GEN = {
    "Address": g_address, "TransactionOutput": g_output, "Value": g_value, "MultiAsset": g_multi_asset, "Asset": g_asset,
    "NativeScript": lambda g, d: g_native_script(g, max(d, 1)), "PlutusV1Script": g_plutus_script(1),
    "PlutusV2Script": g_plutus_script(2), "PlutusV3Script": g_plutus_script(3), "PlutusScript": g_any_plutus_script,
    "StakeCredential": g_stake_credential("StakeCredential"), "DRepCredential": g_stake_credential("DRepCredential"),
    "CommitteeColdCredential": g_stake_credential("CommitteeColdCredential"), "DRep": g_drep, "Voter": g_voter,
    "VotingProcedure": g_voting_procedure, "SingleHostAddr": g_relay("addr"), "SingleHostName": g_relay("name"),
    "MultiHostName": g_relay("multi"), "PoolParams": g_pool_params, "PoolRegistration": g_pool_registration,
    "VerificationKey": g_vkey, "ExtendedVerificationKey": g_vkey, "VerificationKeyWitness": g_vkey_witness,
    "Metadata": g_metadata, "AuxiliaryData": g_aux, "AlonzoMetadata": g_alonzo, "ShelleyMarryMetadata": g_marry,
    "Redeemer": g_redeemer, "RedeemerValue": g_redeemer_value, "HardForkInitiationAction": g_hard_fork,
    "NewConstitution": g_new_constitution, "_DatumOption": g_datum_option, "_Script": g_script, "_ScriptRef": g_script_ref,
    "PoolId": g_pool_id, "TransactionWitnessSet": g_witness_set, "RawPlutusData": g_plutus_datum, "GovActionId": g_gov_action_id,
    "ScriptAll": lambda g, d: __import__("pycardano").ScriptAll([g_native_script(g, d - 1) for _ in range(g.rng.choice([0, 1, 2]))]),
    "ScriptAny": lambda g, d: __import__("pycardano").ScriptAny([g_native_script(g, d - 1) for _ in range(g.rng.choice([0, 1, 2]))]),
    "ScriptNofK": lambda g, d: __import__("pycardano").ScriptNofK(g.rng.randint(0, 2), [g_native_script(g, d - 1) for _ in range(g.rng.choice([0, 1, 2]))]),
}

# classes that are not standalone ledger objects / cannot be generated (abstract bases, keys with their own formats,
# encode-only classes, typed Plutus data (C18), internal helpers)
SKIP = {"PlutusData", "Unit", "CostModels", "SigningKey", "ExtendedSigningKey", "PaymentSigningKey", "PaymentExtendedSigningKey",
        "StakeSigningKey", "StakeExtendedSigningKey", "StakePoolSigningKey", "PaymentVerificationKey", "PaymentExtendedVerificationKey",
        "StakeVerificationKey", "StakeExtendedVerificationKey", "StakePoolVerificationKey", "ExtendedVerificationKey",
        "PointerAddress", "_TransactionOutputLegacy", "_TransactionOutputPostAlonzo", "Key", "PoolId"}


def top_level_classes():
    out = []
    for name, d in sorted(SCH.items()):
        if name in SKIP or d.get("stub") or d["kind"] == "enum":
            continue
        if name not in CLS:
            continue
        out.append(name)
    return out
