"""Common machinery of every check: context, Lean obligations, driver client, findings, verdict, evidence.

Pipeline (DESIGN.md 2.4): regenerate (T1) -> obligations (lake build + re-elaboration of Props/Cnn.lean with
`#print axioms`) -> correspondence (T2, model driver vs implementation) -> direct property evaluation on the
implementation (failing-input search) -> verdict -> evidence.
"""
from __future__ import annotations

import fcntl
import hashlib
import json
import os
import random
import re
import subprocess
import sys
import time
from pathlib import Path

VERIF = Path(__file__).resolve().parents[2]
LEAN = VERIF / "lean"
REPO = Path(os.environ.get("VERIF_REPO", "/repo"))
ALLOWED_AXIOMS = {"propext", "Classical.choice", "Quot.sound"}
FORBIDDEN = re.compile(r"\b(sorry|admit|native_decide|bv_decide|implemented_by|unsafe)\b|^\s*axiom\s|maxHeartbeats\s+0\b")


class Infra(Exception):
    """infrastructure failure: exit 2, never a VIOLATION"""


def strip_comments(src: str) -> str:
    # remove /- ... -/ (nested not handled beyond one level; our sources do not nest) and -- comments
    out, i, depth = [], 0, 0
    n = len(src)
    while i < n:
        if src.startswith("/-", i):
            depth += 1
            i += 2
        elif depth and src.startswith("-/", i):
            depth -= 1
            i += 2
        elif depth:
            if src[i] == "\n":
                out.append("\n")
            i += 1
        elif src.startswith("--", i):
            while i < n and src[i] != "\n":
                i += 1
        else:
            out.append(src[i])
            i += 1
    return "".join(out)


class Driver:
    """Line-protocol client of the native Lean model driver."""

    def __init__(self):
        exe = LEAN / ".lake" / "build" / "bin" / "pycdriver"
        if not exe.exists():
            raise Infra(f"driver not built: {exe}")
        self.p = subprocess.Popen([str(exe)], stdin=subprocess.PIPE, stdout=subprocess.PIPE, text=True, bufsize=1)
        self.calls = 0

    def call(self, obj):
        """returns ('ok', value) or ('fail', message)"""
        self.p.stdin.write(json.dumps(obj, separators=(",", ":")) + "\n")
        self.p.stdin.flush()
        line = self.p.stdout.readline()
        if not line:
            raise Infra("driver died on " + json.dumps(obj)[:300])
        self.calls += 1
        r = json.loads(line)
        if "ok" in r:
            return ("ok", r["ok"])
        return ("fail", r.get("fail"))

    def ok(self, obj):
        k, v = self.call(obj)
        if k != "ok":
            raise Infra(f"driver rejected {json.dumps(obj)[:300]}: {v}")
        return v

    def close(self):
        try:
            self.p.stdin.close()
            self.p.wait(timeout=5)
        except Exception:
            self.p.kill()


def run_cmd(cmd, cwd=None, timeout=3600, env=None):
    e = dict(os.environ)
    if env:
        e.update(env)
    try:
        r = subprocess.run(cmd, cwd=cwd, capture_output=True, text=True, timeout=timeout, env=e)
    except subprocess.TimeoutExpired:
        raise Infra("timeout: " + " ".join(cmd))
    return r.returncode, r.stdout + r.stderr


class BuildLock:
    def __enter__(self):
        self.f = open(VERIF / ".build.lock", "w")
        fcntl.flock(self.f, fcntl.LOCK_EX)
        return self

    def __exit__(self, *a):
        fcntl.flock(self.f, fcntl.LOCK_UN)
        self.f.close()


def regenerate():
    """T1: rewrite lean/Pyc/Generated/*.lean from the live classes of /repo (only if content changed)."""
    gen = VERIF / "harness" / "extract_schema.py"
    if not gen.exists():
        return None
    rc, out = run_cmd([sys.executable, str(gen)], cwd=str(VERIF), env={"PYTHONPATH": f"{REPO}:{VERIF / 'harness'}"})
    if rc != 0:
        return "translator failed: " + out[-2000:]
    return None


def theorem_names(props_src: str):
    """(namespace-qualified) names of the theorems declared in a Props file"""
    names, ns = [], []
    for line in strip_comments(props_src).splitlines():
        m = re.match(r"\s*namespace\s+(\S+)", line)
        if m:
            ns.append(m.group(1))
            continue
        m = re.match(r"\s*end\s+(\S+)", line)
        if m and ns and ns[-1] == m.group(1):
            ns.pop()
            continue
        m = re.match(r"\s*(?:private\s+|protected\s+)?theorem\s+(\S+)", line)
        if m and not line.lstrip().startswith("private"):
            names.append(".".join(ns + [m.group(1)]))
    return names


def lean_obligations(prop: str, extra_targets=(), recheck=False):
    """Build what Props/<prop>.lean imports and the driver, then re-elaborate the Props file.

    Returns dict(obligations=[{name, axioms, discharged, why}], build_ok, driver_ok, log, forbidden=[...])."""
    props = LEAN / "Pyc" / "Props" / f"{prop}.lean"
    # extension property files Props/<prop>_<Area>.lean: same rules as Props/<prop>.lean (property theorems only, each
    # audited with `#print axioms`); they let a model of one more area of the code be added without editing the main file
    prop_files = [props] + sorted((LEAN / "Pyc" / "Props").glob(f"{prop}_*.lean"))
    res = {"obligations": [], "build_ok": True, "driver_ok": True, "log": "", "forbidden": [], "translator": None,
           "prop_files": [str(f.relative_to(LEAN)) for f in prop_files]}
    with BuildLock():
        res["translator"] = regenerate()
        # forbidden tokens anywhere in the library
        for f in sorted((LEAN / "Pyc").rglob("*.lean")) + [LEAN / "Main.lean"]:
            src = strip_comments(f.read_text())
            for i, line in enumerate(src.splitlines(), 1):
                if FORBIDDEN.search(line):
                    res["forbidden"].append(f"{f.relative_to(LEAN)}:{i}: {line.strip()[:80]}")
        rc, out = run_cmd(["lake", "build", *[f"Pyc.Props.{f.stem}" for f in prop_files], *extra_targets], cwd=str(LEAN))
        if rc != 0:
            res["build_ok"] = False
            res["log"] += out[-6000:]
        rc2, out2 = run_cmd(["lake", "build", "pycdriver"], cwd=str(LEAN))
        if rc2 != 0:
            res["driver_ok"] = False
            res["log"] += out2[-6000:]
    names, rc3, out3 = [], 0, ""
    for pf in prop_files:
        names += theorem_names(pf.read_text())
    # the property files are independent of one another: re-elaborate them side by side
    from concurrent.futures import ThreadPoolExecutor
    with ThreadPoolExecutor(max_workers=min(8, len(prop_files))) as ex:
        for rc_, out_ in ex.map(lambda pf: run_cmd(["lake", "env", "lean", str(pf.relative_to(LEAN))], cwd=str(LEAN)), prop_files):
            rc3, out3 = max(rc3, rc_), out3 + out_
    ax = {}
    for m in re.finditer(r"'([^']+)' depends on axioms: \[([^\]]*)\]", out3):
        ax[m.group(1)] = [a.strip() for a in m.group(2).replace("\n", " ").split(",") if a.strip()]
    for m in re.finditer(r"'([^']+)' does not depend on any axioms", out3):
        ax[m.group(1)] = []
    errors = [l for l in out3.splitlines() if ": error" in l or l.startswith("error")]
    for n in names:
        o = {"name": n, "axioms": ax.get(n), "discharged": False, "why": ""}
        if n not in ax:
            o["why"] = "no #print axioms output (file did not elaborate that far, or the audit line is missing)"
        elif not set(ax[n]) <= ALLOWED_AXIOMS:
            o["why"] = "axioms outside the allowed set: " + ",".join(sorted(set(ax[n]) - ALLOWED_AXIOMS))
        else:
            o["discharged"] = True
        res["obligations"].append(o)
    if errors:
        res["log"] += "\n".join(errors[:40])
    if res["forbidden"]:
        for o in res["obligations"]:
            o["discharged"] = False
            o["why"] = "forbidden token in sources: " + res["forbidden"][0]
    res["checker_rc"] = rc3
    if recheck:
        # thorough tier: the toolchain's independent re-checker replays every declaration of the property module and of
        # every Pyc module it (transitively) imports from the compiled .olean files
        mods, todo = [], [f"Pyc.Props.{f.stem}" for f in prop_files]
        while todo:
            m = todo.pop()
            if m in mods:
                continue
            mods.append(m)
            f = LEAN / (m.replace(".", "/") + ".lean")
            if f.exists():
                todo += re.findall(r"^import\s+(Pyc\.\S+)", f.read_text(), flags=re.M)
        rc4, out4 = run_cmd(["lake", "env", "leanchecker", *sorted(mods)], cwd=str(LEAN))
        res["leanchecker"] = {"modules": len(mods), "rc": rc4}
        if rc4 != 0:
            res["log"] += "\nleanchecker: " + out4[-3000:]
            for o in res["obligations"]:
                o["discharged"] = False
                o["why"] = "leanchecker rejected the compiled modules"
    return res


def load_findings():
    f = VERIF / "known_findings.json"
    if not f.exists():
        return []
    return json.loads(f.read_text())


class Ctx:
    def __init__(self, prop, tier, seed, replay=None):
        self.prop, self.tier, self.seed, self.replay = prop, tier, seed, replay
        self.rng = random.Random(f"{prop}/{seed}")
        self.t0 = time.time()
        self.violations = []      # counterexamples on the implementation (dicts)
        self.diffs = []           # model/implementation differences without a property failure
        self.known_hits = {}      # finding id -> description (reproduced this run)
        self.evals = 0
        self.distinct = set()
        self.samples = []
        self.hist = {}
        self.traces = 0
        self.extra = {}
        self.findings = [f for f in load_findings() if f.get("property") == prop]
        self._driver = None
        self.lean = None
        self.rule = ""
        self.assumptions = []
        self.skipped = 0

    # ---- helpers -------------------------------------------------------------------------------------------
    @property
    def thorough(self):
        return self.tier == "thorough"

    def budget(self, quick, thorough):
        return thorough if self.thorough else quick

    def driver(self):
        if self._driver is None:
            self._driver = Driver()
        return self._driver

    def have_driver(self):
        try:
            self.driver()
            return True
        except Infra:
            return False

    def count(self, key, n=1):
        self.hist[key] = self.hist.get(key, 0) + n

    def case(self, case, nontrivial=True, sample_every=0):
        """register one evaluated case; `case` must be JSON-serialisable"""
        self.evals += 1
        if nontrivial:
            h = hashlib.blake2b(json.dumps(case, sort_keys=True, default=str).encode(), digest_size=8).digest()
            self.distinct.add(h)
        if len(self.samples) < 3 or (sample_every and self.evals % sample_every == 0 and len(self.samples) < 8):
            self.samples.append(case)

    def known(self, case_desc):
        """return the id of a `known` finding whose predicate matches, else None (predicates live in the check)"""
        return None

    def violation(self, what, case, expected=None, actual=None, finding=None):
        """a concrete input on which the property fails on the implementation"""
        if finding is not None:
            for f in self.findings:
                if f["id"] == finding and f.get("status") == "known":
                    self.known_hits.setdefault(finding, f["what"])
                    return
        self.violations.append({"what": what, "input": case, "expected": expected, "actual": actual})

    def diff(self, op, case, model, impl):
        """model and implementation disagree (not by itself a violation)"""
        self.diffs.append({"op": op, "input": case, "model": model, "impl": impl})

    # ---- verdict -------------------------------------------------------------------------------------------
    def finish(self):
        wall = time.time() - self.t0
        lean = self.lean or {"obligations": [], "build_ok": False, "driver_ok": False, "log": "no lean run",
                             "forbidden": [], "translator": None}
        obs = lean["obligations"]
        broken = [o for o in obs if not o["discharged"]]
        axioms = sorted({a for o in obs for a in (o["axioms"] or [])})
        (VERIF / "replays").mkdir(exist_ok=True)
        (VERIF / "evidence").mkdir(exist_ok=True)
        lines, rc = [], 0
        for fid, what in sorted(self.known_hits.items()):
            lines.append(f"KNOWN-FINDING: property={self.prop} {fid}: {what}")
        if self.violations:
            v = self.violations[0]
            path = f"replays/{self.prop}-{self.seed}-1.json"
            (VERIF / path).write_text(json.dumps({
                "property": self.prop, "kind": "counterexample", "seed": self.seed, "tier": self.tier,
                "what": v["what"], "input": v["input"], "expected": v["expected"], "actual": v["actual"],
                "more": [x["what"] for x in self.violations[1:20]],
                "broken": [o["name"] for o in broken],
                "replay": f"./check {self.prop} --replay {path}"}, indent=1, default=str))
            lines.append(f"VIOLATION property={self.prop} replay={path}")
            rc = 1
        elif broken or self.diffs or not lean["build_ok"] or lean.get("translator"):
            path = f"replays/{self.prop}-{self.seed}-unchecked.json"
            (VERIF / path).write_text(json.dumps({
                "property": self.prop, "kind": "unchecked-obligation", "seed": self.seed, "tier": self.tier,
                "broken": [{"theorem": o["name"], "why": o["why"]} for o in broken],
                "correspondence": self.diffs[:10],
                "translator": lean.get("translator"),
                "log": lean["log"][-4000:],
                "note": "the failing-input search on the implementation found no input on which the property fails",
                "replay": f"./check {self.prop}"}, indent=1, default=str))
            lines.append(f"VIOLATION property={self.prop} replay={path} no-failing-input-found")
            rc = 1
        ev = {
            "property_id": self.prop, "tier": self.tier, "seed": self.seed, "level": "proof",
            "coverage": {
                "obligations": len(obs), "discharged": len(obs) - len(broken),
                "checker_cmd": "cd lean && " + " && ".join(
                    f"lake build Pyc.Props.{Path(f).stem} && lake env lean {f}"
                    for f in lean.get("prop_files", [f"Pyc/Props/{self.prop}.lean"]))
                               + (" && lake env leanchecker <the module and its Pyc imports>" if self.thorough else ""),
                "trusted_base": ["Lean 4.33.0 kernel"] + [f"axiom {a}" for a in axioms] + [
                    "correspondence harness (model driver vs /repo in-process)"] + self.extra.pop("trusted", []),
                "theorems": [{"name": o["name"], "axioms": o["axioms"], "discharged": o["discharged"]} for o in obs],
                "evaluations": self.evals, "distinct_nontrivial": len(self.distinct), "rule": self.rule,
                "samples": self.samples[:8], "traces_validated_against_impl": self.traces,
                "disagreements_checked": len(self.diffs), "histogram": self.hist,
                "skipped_outside_hypotheses": self.skipped,
                "known_findings_reproduced": sorted(self.known_hits),
                **({"leanchecker": lean["leanchecker"]} if lean.get("leanchecker") else {}), **self.extra,
            },
            "assumptions": self.assumptions, "wall_s": round(wall, 2), "violations": len(self.violations),
        }
        if os.environ.get("VERIF_REPO"):
            # a run against a scratch copy (mutation / seeded-change self-tests) never overwrites the evidence of /repo
            (VERIF / "replays" / "scratch-evidence").mkdir(exist_ok=True)
            (VERIF / "replays" / "scratch-evidence" / f"{self.prop}.json").write_text(json.dumps(ev, indent=1, default=str))
        else:
            (VERIF / "evidence" / f"{self.prop}.json").write_text(json.dumps(ev, indent=1, default=str))
        for l in lines:
            print(l)
        print(f"[{self.prop}] tier={self.tier} seed={self.seed} obligations={len(obs)} discharged={len(obs)-len(broken)} "
              f"evaluations={self.evals} distinct={len(self.distinct)} diffs={len(self.diffs)} "
              f"violations={len(self.violations)} known={len(self.known_hits)} wall={wall:.1f}s")
        if self._driver:
            self._driver.close()
        return rc
