"""Generators (public constructors only), JSON images and malformed primitives for the credential / governance classes
modelled in lean/Pyc/Model/Gov.lean; shared by checks/c01_ext_gov.py and checks/c02_ext_gov.py.

JSON image of an object (what the driver ops `gov.enc` / `gov.dec` speak; see lean/Pyc/Driver/Gov.lean): numbers cross
as decimal strings; a payload the library stores without looking at its type (hash payloads, the governance action
index, protocol version numbers) crosses as the hex of its CBOR encoding.  The image is read off the object's FIELDS
(class of the hash object, payload, enum value): it is independent of `__eq__`, `to_primitive` and `to_cbor`."""
from __future__ import annotations

import random

import cbor2

from pycardano.certificate import Anchor, DRep, DRepCredential, DRepKind, StakeCredential
from pycardano.governance import (CommitteeColdCredential, GovActionId, GovActionIdToVotingProcedure,
                                  HardForkInitiationAction, Vote, Voter, VoterType, VotingProcedure, VotingProcedures)
from pycardano.hash import AnchorDataHash, PolicyHash, ScriptHash, TransactionId, VerificationKeyHash
from pycardano.pool_params import PoolId
from pycardano.serialization import IndefiniteList

from ref import bech32_ref as B32
from ref import cbor_ref as R

CRED_CLASSES = {"cred": StakeCredential, "drepcred": DRepCredential, "coldcred": CommitteeColdCredential}
CLASSES = {**CRED_CLASSES, "drep": DRep, "voter": Voter, "anchor": Anchor, "vp": VotingProcedure, "gaid": GovActionId,
           "votes": GovActionIdToVotingProcedure, "vps": VotingProcedures, "hardfork": HardForkInitiationAction,
           "poolid": PoolId}
# the model class (driver "cls") of a harness class
MODEL_CLS = {"cred": "cred", "drepcred": "cred", "coldcred": "cred", "drep": "drep", "voter": "voter", "anchor": "anchor",
             "vp": "vp", "gaid": "gaid", "votes": "votes", "vps": "vps", "hardfork": "hardfork", "poolid": "poolid"}
VTYPES = [VoterType.COMMITTEE_HOT, VoterType.DREP, VoterType.STAKING_POOL]
# what the members MEAN (the numbers the CDDL gives them), by member name: a library that renumbers its enums is caught
DREP_KIND_CODE = {"VERIFICATION_KEY_HASH": 0, "SCRIPT_HASH": 1, "ALWAYS_ABSTAIN": 2, "ALWAYS_NO_CONFIDENCE": 3}
VOTE_CODE = {"NO": 0, "YES": 1, "ABSTAIN": 2}
IDX_BOUNDARY = [0, 1, 23, 24, 255, 256, 65535]
UINTS = [0, 1, 23, 24, 255, 256, 65535, 65536, 2**32 - 1, 2**32, 2**63 - 1, 2**64 - 1]


# ------------------------------------------------------------------------------------------- primitives -> CBOR hex
def penc(x) -> bytes:
    """CBOR bytes of a Python primitive as cbor2 decodes it (or as a hash object stores it): written here from RFC 8949 over
    ref/cbor_ref's head(); no cbor2 encoder involved"""
    if isinstance(x, cbor2.CBORSimpleValue):
        return bytes([0xE0 | x.value]) if x.value < 24 else bytes([0xF8, x.value])
    if x is cbor2.undefined:
        return b"\xf7"
    if x is None or isinstance(x, (bool, int, bytes, str)):
        return R.enc(x)
    if isinstance(x, IndefiniteList):
        return b"\x9f" + b"".join(penc(i) for i in x) + b"\xff"
    if isinstance(x, (list, tuple)):
        return R.head(4, len(x)) + b"".join(penc(i) for i in x)
    if isinstance(x, cbor2.CBORTag):
        return R.head(6, x.tag) + penc(x.value)
    if hasattr(x, "items"):
        it = list(x.items())
        return R.head(5, len(it)) + b"".join(penc(k) + penc(v) for k, v in it)
    raise TypeError(type(x))


def phex(x):
    return penc(x).hex()


# ------------------------------------------------------------------------------------------------------- images
def img_hashobj(h):
    return {"key": isinstance(h, VerificationKeyHash), "hash": phex(h.payload)}


def img(cls, x):
    m = MODEL_CLS[cls]
    if m == "cred":
        return img_hashobj(x.credential)
    if m == "drep":
        return {"kind": str(DREP_KIND_CODE[x.kind.name]), "cred": None if x.credential is None else img_hashobj(x.credential)}
    if m == "voter":
        return {"vtype": str(VTYPES.index(x.voter_type)), **img_hashobj(x.credential)}
    if m == "anchor":
        return {"url": x.url.encode("utf-8").hex(), "hash": bytes(x.data_hash.payload).hex()}
    if m == "vp":
        return {"vote": str(VOTE_CODE[x.vote.name]), "anchor": None if x.anchor is None else img("anchor", x.anchor)}
    if m == "gaid":
        return {"txid": phex(x.transaction_id.payload), "idx": phex(x.gov_action_index)}
    if m == "votes":
        return [[img("gaid", k), img("vp", v)] for k, v in x.data.items()]
    if m == "vps":
        return [[img("voter", k), img("votes", v)] for k, v in x.data.items()]
    if m == "hardfork":
        ma, mi = x.protocol_version
        return {"prev": None if x.gov_action_id is None else img("gaid", x.gov_action_id), "major": phex(ma), "minor": phex(mi)}
    if m == "poolid":
        return {"value": x.value}
    raise ValueError(cls)


def code_of(cls, x):
    """the stored `_CODE` of a coded object against the code its fields prescribe (None when the class has none)"""
    m = MODEL_CLS[cls]
    if m == "cred":
        return x._CODE, 0 if isinstance(x.credential, VerificationKeyHash) else 1
    if m == "voter":
        k = isinstance(x.credential, VerificationKeyHash)
        return x._CODE, {0: 0 if k else 1, 1: 2 if k else 3, 2: 4}[VTYPES.index(x.voter_type)]
    return None


# --------------------------------------------------------------------------------------------------- generators
def rb(rng, n):
    r = rng.random()
    if r < 0.06:
        return bytes(n)
    if r < 0.12:
        return b"\xff" * n
    return bytes(rng.getrandbits(8) for _ in range(n))


def g_hashobj(rng, key=None):
    key = rng.random() < 0.5 if key is None else key
    if key:
        return VerificationKeyHash(rb(rng, 28))
    return rng.choice([ScriptHash, ScriptHash, ScriptHash, PolicyHash])(rb(rng, 28))


URLS = ["", "u", "https://example.com/a.json", "ipfs://" + "Q" * 46, "x" * 23, "x" * 24, "x" * 64, "x" * 128, "ü" * 64,
        "日本語", "a b\tc", "x" * 129, "x" * 255, "x" * 256, "é" * 65]


def g_anchor(rng):
    return Anchor(url=rng.choice(URLS), data_hash=AnchorDataHash(rb(rng, 32)))


def g_gaid(rng, txids=None):
    t = rng.choice(txids) if txids and rng.random() < 0.7 else rb(rng, 32)
    ix = rng.choice(IDX_BOUNDARY) if rng.random() < 0.7 else rng.randint(0, 65535)
    return GovActionId(transaction_id=TransactionId(t), gov_action_index=ix)


def g_vp(rng):
    return VotingProcedure(vote=rng.choice(list(Vote)), anchor=g_anchor(rng) if rng.random() < 0.5 else None)


def g_voter(rng, hashes=None):
    vt = rng.choice(VTYPES)
    key = True if vt == VoterType.STAKING_POOL else rng.random() < 0.5
    h = g_hashobj(rng, key)
    if hashes and rng.random() < 0.6:
        h = type(h)(rng.choice(hashes))
    return Voter(credential=h, voter_type=vt)


def sizes(rng, thorough):
    r = rng.random()
    if r < 0.02 and thorough:
        return 256
    if r < 0.08:
        return rng.choice([23, 24, 25])
    return rng.choice([0, 1, 1, 2, 2, 3, 4])


def g_votes(rng, thorough=False, n=None):
    n = sizes(rng, thorough) if n is None else n
    txids = [rb(rng, 32) for _ in range(2)]
    m = GovActionIdToVotingProcedure()
    tries = 0
    while len(m) < n and tries < 4 * n + 8:
        tries += 1
        if n > 30:
            k = GovActionId(transaction_id=TransactionId(rng.choice(txids)), gov_action_index=rng.randint(0, 65535))
        else:
            k = g_gaid(rng, txids)
        m[k] = g_vp(rng)
    return m


def g_vps(rng, thorough=False):
    n = sizes(rng, thorough)
    hashes = [rb(rng, 28) for _ in range(2)]
    m = VotingProcedures()
    tries = 0
    while len(m) < n and tries < 4 * n + 8:
        tries += 1
        m[g_voter(rng, hashes)] = g_votes(rng, thorough, n=rng.choice([0, 1, 1, 2, 3]) if n > 4 else None)
    return m


def g_poolid_text(rng):
    """(string, expected to be accepted)"""
    r = rng.random()
    data = rb(rng, rng.choice([28, 28, 28, 0, 1, 32]))
    if r < 0.46:
        return B32.encode("pool", data), True
    if r < 0.54:
        return B32.encode(rng.choice(["pool_vk", "poolx", "pool_"]), data), True      # `startswith("pool")` only
    if r < 0.64:
        return B32.encode(rng.choice(["poo", "poo", "poo", "pol", "ool", "ppool", "p", "stake", "addr", "drep"]), data), False   # valid bech32, other prefix
    if r < 0.70:
        return B32.encode("pool", data).upper(), False                                  # valid bech32, wrong prefix case
    if r < 0.78:
        s = B32.encode("pool", data)
        i = rng.randrange(5, len(s))
        c = rng.choice([x for x in B32.CHARSET if x != s[i]])
        return s[:i] + c + s[i + 1:], False                                             # one substituted character
    if r < 0.84:
        return B32.encode("pool", data, B32.BECH32M), False
    if r < 0.90:
        s = B32.encode("pool", data)
        return s[:6] + s[6:].upper(), False                                             # mixed case
    return rng.choice(["", "pool", "pool1", "pool1qqqqqq", "pool 1qqqqqq", "poolé1qqqqqq", "1pool", "pool1" + "q" * 5]), False


def gen(cls, rng, thorough=False):
    """-> dict(obj=<object or None>, exc=<exception raised by the constructor or None>, args=<image of the arguments>)"""
    m = MODEL_CLS[cls]
    try:
        if m == "cred":
            h = g_hashobj(rng)
            args = img_hashobj(h)
            return {"obj": CLASSES[cls](h), "exc": None, "args": args}
        if m == "drep":
            kind = rng.choice(list(DRepKind))
            r = rng.random()
            if r < 0.7:        # the coherent shapes
                h = VerificationKeyHash(rb(rng, 28)) if kind == DRepKind.VERIFICATION_KEY_HASH else \
                    ScriptHash(rb(rng, 28)) if kind == DRepKind.SCRIPT_HASH else None
            elif r < 0.85:     # anything the constructor accepts
                h = rng.choice([None, g_hashobj(rng, True), g_hashobj(rng, False)])
            else:
                h = g_hashobj(rng)
            args = {"kind": str(DREP_KIND_CODE[kind.name]), "cred": None if h is None else img_hashobj(h)}
            return {"obj": DRep(kind=kind, credential=h) if h is not None or rng.random() < 0.5 else DRep(kind=kind), "exc": None, "args": args}
        if m == "voter":
            vt = rng.choice(VTYPES)
            h = g_hashobj(rng)
            args = {"vtype": str(VTYPES.index(vt)), **img_hashobj(h)}
            return {"obj": None, "exc": None, "args": args, "build": lambda: Voter(credential=h, voter_type=vt)}
        if m == "anchor":
            a = g_anchor(rng)
            return {"obj": a, "exc": None, "args": img("anchor", a)}
        if m == "vp":
            p = g_vp(rng)
            return {"obj": p, "exc": None, "args": img("vp", p)}
        if m == "gaid":
            t = rb(rng, 32)
            ix = rng.choice(IDX_BOUNDARY + [65536, -1, 2**64]) if rng.random() < 0.75 else rng.randint(0, 65535)
            args = {"txid": phex(t), "idx": phex(ix)}
            return {"obj": None, "exc": None, "args": args, "build": lambda: GovActionId(transaction_id=TransactionId(t), gov_action_index=ix)}
        if m == "votes":
            x = g_votes(rng, thorough)
            return {"obj": x, "exc": None, "args": img("votes", x)}
        if m == "vps":
            x = g_vps(rng, thorough)
            return {"obj": x, "exc": None, "args": img("vps", x)}
        if m == "hardfork":
            prev = g_gaid(rng) if rng.random() < 0.5 else None
            ma = rng.choice([1, 2, 9, 10, 10, 0, 11]) if rng.random() < 0.8 else rng.randint(1, 10)
            mi = rng.choice(UINTS)
            args = {"prev": None if prev is None else img("gaid", prev), "major": phex(ma), "minor": phex(mi)}
            return {"obj": None, "exc": None, "args": args, "build": lambda: HardForkInitiationAction(gov_action_id=prev, protocol_version=(ma, mi))}
        if m == "poolid":
            s, _ = g_poolid_text(rng)
            return {"obj": None, "exc": None, "args": {"value": s}, "build": lambda: PoolId(s)}
    except Exception as e:          # a constructor that raises where none is expected
        return {"obj": None, "exc": e, "args": None}
    raise ValueError(cls)


def realise(g):
    """run a deferred constructor call (classes whose constructor validates)"""
    if g.get("build") is not None and g["obj"] is None and g["exc"] is None:
        try:
            g["obj"] = g["build"]()
        except Exception as e:
            g["exc"] = e
    return g


def perturb(cls, x, rng):
    """an object of the same class that differs from `x` in exactly one field (-> (object, what changed)); None if there is none"""
    m = MODEL_CLS[cls]

    def other_bytes(b):
        i = rng.randrange(len(b))
        return b[:i] + bytes([b[i] ^ (1 << rng.randrange(8))]) + b[i + 1:]

    def flip_hashobj(h, what):
        if what == "payload":
            return type(h)(other_bytes(h.payload))
        return (ScriptHash if isinstance(h, VerificationKeyHash) else VerificationKeyHash)(h.payload)

    if m == "cred":
        w = rng.choice(["payload", "class"])
        return CLASSES[cls](flip_hashobj(x.credential, w)), w
    if m == "drep":
        opts = ["kind"] + (["payload", "class"] if x.credential is not None else ["add-credential"])
        w = rng.choice(opts)
        if w == "kind":
            return DRep(kind=rng.choice([k for k in DRepKind if k != x.kind]), credential=x.credential), w
        if w == "add-credential":
            return DRep(kind=x.kind, credential=VerificationKeyHash(bytes(28))), w
        return DRep(kind=x.kind, credential=flip_hashobj(x.credential, w)), w
    if m == "voter":
        w = rng.choice(["payload", "class", "type"])
        try:
            if w == "type":
                return Voter(credential=x.credential, voter_type=rng.choice([t for t in VTYPES if t != x.voter_type])), w
            return Voter(credential=flip_hashobj(x.credential, w), voter_type=x.voter_type), w
        except ValueError:
            return Voter(credential=flip_hashobj(x.credential, "payload"), voter_type=x.voter_type), "payload"
    if m == "anchor":
        w = rng.choice(["url", "hash"])
        if w == "url":
            return Anchor(url=x.url + "!", data_hash=x.data_hash), w
        return Anchor(url=x.url, data_hash=AnchorDataHash(other_bytes(x.data_hash.payload))), w
    if m == "vp":
        w = rng.choice(["vote", "anchor"])
        if w == "vote":
            return VotingProcedure(vote=rng.choice([v for v in Vote if v != x.vote]), anchor=x.anchor), w
        return VotingProcedure(vote=x.vote, anchor=None if x.anchor is not None else Anchor(url="", data_hash=AnchorDataHash(bytes(32)))), w
    if m == "gaid":
        w = rng.choice(["txid", "index"])
        if w == "txid":
            return GovActionId(transaction_id=TransactionId(other_bytes(x.transaction_id.payload)), gov_action_index=x.gov_action_index), w
        return GovActionId(transaction_id=x.transaction_id, gov_action_index=(x.gov_action_index + rng.choice([1, 256])) % 65536), w
    if m == "hardfork":
        w = rng.choice(["prev", "major", "minor"])
        ma, mi = x.protocol_version
        if w == "prev":
            return HardForkInitiationAction(
                gov_action_id=None if x.gov_action_id is not None else GovActionId(transaction_id=TransactionId(bytes(32)), gov_action_index=0),
                protocol_version=(ma, mi)), w
        if w == "major":
            return HardForkInitiationAction(gov_action_id=x.gov_action_id, protocol_version=(ma % 10 + 1, mi)), w
        return HardForkInitiationAction(gov_action_id=x.gov_action_id, protocol_version=(ma, mi + 1)), w
    if m == "votes":
        if len(x) == 0:
            y = GovActionIdToVotingProcedure()
            y[GovActionId(transaction_id=TransactionId(bytes(32)), gov_action_index=0)] = VotingProcedure(vote=Vote.NO, anchor=None)
            return y, "add-entry"
        y = GovActionIdToVotingProcedure(dict(x.data))
        k = rng.choice(list(y.data))
        if rng.random() < 0.5:
            del y[k]
            return y, "drop-entry"
        y[k] = perturb("vp", y[k], rng)[0]
        return y, "change-value"
    if m == "vps":
        if len(x) == 0:
            y = VotingProcedures()
            y[Voter(credential=VerificationKeyHash(bytes(28)), voter_type=VoterType.DREP)] = GovActionIdToVotingProcedure()
            return y, "add-entry"
        y = VotingProcedures(dict(x.data))
        k = rng.choice(list(y.data))
        if rng.random() < 0.5:
            del y[k]
            return y, "drop-entry"
        y[k] = perturb("votes", y[k], rng)[0]
        return y, "change-value"
    return None


# ------------------------------------------------------------------------------------------- malformed primitives
H28 = bytes(range(28))
G28 = bytes(range(1, 29))
H32 = bytes(range(32))
G32 = bytes(range(1, 33))
BIG1 = R.Tag(2, b"\x01")            # the integer 1 as a bignum


class Raw:
    """CBOR bytes spliced in as they are (simple values, which ref/cbor_ref does not model)"""

    def __init__(self, b):
        self.b = b


def enc_mal(x):
    if isinstance(x, Raw):
        return x.b
    if isinstance(x, R.IndefList):
        return b"\x9f" + b"".join(enc_mal(i) for i in x) + b"\xff"
    if isinstance(x, (list, tuple)):
        return R.head(4, len(x)) + b"".join(enc_mal(i) for i in x)
    if isinstance(x, R.Map):
        return R.head(5, len(x.pairs)) + b"".join(enc_mal(k) + enc_mal(v) for k, v in x.pairs)
    if isinstance(x, R.Tag):
        return R.head(6, x.tag) + enc_mal(x.value)
    return R.enc(x)


SV0, SV1, SV2, SV4, SV5, SV19, SV32, SV255 = (Raw(b"\xe0"), Raw(b"\xe1"), Raw(b"\xe2"), Raw(b"\xe4"), Raw(b"\xe5"),
                                              Raw(b"\xf3"), Raw(b"\xf8\x20"), Raw(b"\xf8\xff"))
UNDEF = Raw(b"\xf7")
CHUNK28 = R.Chunked([H28[:14], H28[14:]])
CHUNK32 = R.Chunked([H32[:1], H32[1:]])


def payload_damage(n):
    """things in the place of an n-byte hash"""
    h = bytes(range(n))
    return {"short": h[:-1], "long": h + b"\x00", "empty": b"", "text-n": "x" * n, "text-n-2byte": "é" * n,
            "text-hex": h.hex(), "list-n": [1] * n, "list-n-1": [1] * (n - 1), "indef-n": R.IndefList([0] * n),
            "map-n": R.Map([(i, i) for i in range(n)]), "int": 5, "null": None, "true": True, "tag": R.Tag(99, h),
            "simple": SV5, "chunked": R.Chunked([h[:3], h[3:]]), "chunked-short": R.Chunked([h[:3], h[4:]]),
            "undefined": UNDEF, "bignum": R.Tag(2, h)}


def code_damage():
    """things in the place of a small integer type code"""
    return {"false": False, "true": True, "simple0": SV0, "simple1": SV1, "simple2": SV2, "simple4": SV4, "simple19": SV19,
            "simple32": SV32, "neg": -1, "big": 2**64, "bignum1": BIG1, "text": "0", "bytes": b"\x00", "list": [0],
            "null": None, "undefined": UNDEF, "nonminimal1": Raw(b"\x18\x01"), "map": R.Map([]), "tag": R.Tag(6, 0)}


def malformed(cls):
    """name -> primitive, for the model class `cls`"""
    out = {}
    an = ["u", H32]
    if cls == "cred":
        for c in (0, 1, 2, 3, 255):
            out[f"code{c}"] = [c, H28]
        out.update({"arity0": [], "arity1-code0": [0], "arity1-code1": [1], "arity1-code2": [2], "arity3": [0, H28, 9],
                    "indef": R.IndefList([0, H28]), "top-map": R.Map([(0, H28)]), "top-int": 0, "top-bytes": H28, "top-null": None,
                    "top-text": "x", "top-tag": R.Tag(258, [0, H28])})
        for k, v in payload_damage(28).items():
            out["hash-" + k] = [0, v]
            out["hash1-" + k] = [1, v]
        for k, v in code_damage().items():
            out["code-" + k] = [v, H28]
    elif cls == "drep":
        for c in (0, 1, 2, 3, 4, 255):
            out[f"code{c}"] = [c, H28]
            out[f"code{c}-alone"] = [c]
        out.update({"arity0": [], "arity3": [0, H28, 9], "abstain-extra2": [2, 5, 6], "indef2": R.IndefList([2]),
                    "indef0": R.IndefList([0, H28]), "top-map": R.Map([(0, H28)]), "top-int": 2, "top-null": None})
        for k, v in payload_damage(28).items():
            out["hash-" + k] = [0, v]
            out["hash1-" + k] = [1, v]
            out["hash2-" + k] = [2, v]
        for k, v in code_damage().items():
            out["code-" + k] = [v, H28]
            out["code-alone-" + k] = [v]
    elif cls == "voter":
        for c in (0, 1, 2, 3, 4, 5, 6, 255):
            out[f"code{c}"] = [c, H28]
        out.update({"arity0": [], "arity1": [4], "arity1-code5": [5], "arity3": [3, H28, 9], "indef": R.IndefList([0, H28]),
                    "top-map": R.Map([(0, H28)]), "top-int": 0, "top-null": None})
        for k, v in payload_damage(28).items():
            out["hash-" + k] = [0, v]
            out["hash3-" + k] = [3, v]
        for k, v in code_damage().items():
            out["code-" + k] = [v, H28]
    elif cls == "anchor":
        out.update({"good": an, "arity0": [], "arity1": ["u"], "arity1-bad": [5], "arity3": ["u", H32, 1],
                    "indef": R.IndefList(an), "url-bytes": [b"u", H32], "url-int": [5, H32], "url-null": [None, H32],
                    "url-list": [["u"], H32], "url-long": ["x" * 300, H32], "url-bad-hash-bad": [5, H32[:3]],
                    "hash-text-hex": ["u", H32.hex()], "hash-text-HEX": ["u", H32.hex().upper()], "hash-text-nonhex": ["u", "zz"],
                    "hash-text-odd": ["u", "abc"], "hash-text-short": ["u", "00"], "hash-text-empty": ["u", ""],
                    "hash-short": ["u", H32[:31]], "hash-long": ["u", H32 + b"\0"], "hash-int": ["u", 5], "hash-null": ["u", None],
                    "hash-list": ["u", [0] * 32], "hash-chunked": ["u", CHUNK32], "hash-chunked-short": ["u", R.Chunked([H32[:5]])],
                    "hash-tag": ["u", R.Tag(99, H32)], "top-map": R.Map([(0, 1)]), "top-text": "u", "top-null": None})
    elif cls == "vp":
        for v in (0, 1, 2, 3, 255):
            out[f"vote{v}-null"] = [v, None]
            out[f"vote{v}-anchor"] = [v, an]
        out.update({"arity0": [], "arity1": [1], "arity1-bad": [3], "arity3": [1, None, 5], "indef": R.IndefList([1, None]),
                    "anchor-int": [1, 5], "anchor-false": [1, False], "anchor-undefined": [1, UNDEF], "anchor-arity1": [1, ["u"]],
                    "anchor-arity0": [1, []], "anchor-url-int": [1, [5, H32]], "anchor-hash-short": [1, ["u", H32[:3]]],
                    "anchor-indef": [1, R.IndefList(an)], "anchor-extra": [1, an + [7]], "anchor-hash-hex": [1, ["u", H32.hex()]],
                    "anchor-map": [1, R.Map([])], "vote-bad-anchor-bad": [3, 5], "top-map": R.Map([(0, 1)]), "top-null": None})
        for k, v in code_damage().items():
            out["vote-" + k] = [v, None]
    elif cls == "gaid":
        for ix in (0, 1, 23, 24, 255, 256, 65535, 65536, -1, 2**32, 2**64):
            out[f"ix{ix}"] = [H32, ix]
        out.update({"arity0": [], "arity1": [H32], "arity1-bad": [5], "arity3": [H32, 1, 2], "indef": R.IndefList([H32, 0]),
                    "ix-true": [H32, True], "ix-false": [H32, False], "ix-simple5": [H32, SV5], "ix-simple255": [H32, SV255],
                    "ix-text": [H32, "1"], "ix-null": [H32, None], "ix-bytes": [H32, b"\x01"], "ix-list": [H32, [1]],
                    "ix-bignum1": [H32, BIG1], "ix-bignum-big": [H32, R.Tag(2, b"\x01\x00\x00")], "ix-negbignum": [H32, R.Tag(3, b"\x01")],
                    "ix-nonminimal": [H32, Raw(b"\x19\x00\x05")], "ix-undefined": [H32, UNDEF], "ix-tag": [H32, R.Tag(6, 1)],
                    "both-bad": [H32[:3], 70000], "top-map": R.Map([(0, 1)]), "top-bytes": H32, "top-null": None})
        for k, v in payload_damage(32).items():
            out["txid-" + k] = [v, 0]
    elif cls == "votes":
        vp = [1, None]
        out.update({"empty": R.Map([]), "one": R.Map([([H32, 0], vp)]), "unsorted": R.Map([([H32, 300], vp), ([H32, 5], [0, an]), ([G32, 24], [2, None])]),
                    "dup-after-restore": R.Map([([H32, 0], vp), ([H32, 0, 5], [2, None])]),
                    "dup-after-restore-3": R.Map([([H32, 1], vp), ([H32, 0], vp), ([H32, 1, 5], [2, None]), ([G32, 1], vp)]),
                    "value-int": R.Map([([H32, 0], 5)]), "value-null": R.Map([([H32, 0], None)]), "key-int": R.Map([(5, vp)]),
                    "key-arity1": R.Map([([H32], vp)]), "key-ix-big": R.Map([([H32, 70000], vp)]), "key-txid-short": R.Map([([H32[:3], 0], vp)]),
                    "key-bad-value-bad": R.Map([(5, 5)]), "key-ok-value-crash": R.Map([([H32, 0], [3, None])]),
                    "second-key-bad": R.Map([([H32, 0], vp), (5, vp)]), "second-value-crash": R.Map([([H32, 0], vp), ([H32, 1], [1])]),
                    "first-deser-second-crash": R.Map([(5, vp), ([H32], vp)]), "first-crash-second-deser": R.Map([([H32], vp), (5, vp)]),
                    "value-indef": R.Map([([H32, 0], R.IndefList(vp))]), "key-txid-text": R.Map([(["x" * 32, 0], vp)]),
                    "top-list": [1], "top-int": 5, "top-null": None, "top-indef": R.IndefList([])})
    elif cls == "vps":
        vp = [1, None]
        inner = R.Map([([H32, 0], vp)])
        out.update({"empty": R.Map([]), "one": R.Map([([0, H28], inner)]), "one-empty-inner": R.Map([([0, H28], R.Map([]))]),
                    "unsorted": R.Map([([4, H28], inner), ([0, H28], R.Map([([H32, 300], vp), ([H32, 5], vp)])), ([1, G28], R.Map([]))]),
                    "dup-after-restore": R.Map([([0, H28], inner), ([0, H28, 1], R.Map([]))]),
                    "key-code5": R.Map([([5, H28], inner)]), "key-code-true": R.Map([([True, H28], inner)]),
                    "value-int": R.Map([([0, H28], 5)]), "value-list": R.Map([([0, H28], [1])]),
                    "inner-key-int": R.Map([([0, H28], R.Map([(5, vp)]))]), "inner-value-crash": R.Map([([0, H28], R.Map([([H32, 0], [3, None])]))]),
                    "key-arity1": R.Map([([0], inner)]), "key-int": R.Map([(0, inner)]), "key-hash-short": R.Map([([0, H28[:3]], inner)]),
                    "key-hash-text": R.Map([([0, "x" * 28], inner)]), "key-hash-list": R.Map([([0, [1] * 28], inner)]),
                    "second-key-bad": R.Map([([0, H28], inner), ([9, H28], inner)]),
                    "first-deser-second-crash": R.Map([([9, H28], inner), ([0], inner)]),
                    "top-list": [1], "top-int": 5, "top-null": None})
    elif cls == "hardfork":
        gid = [H32, 0]
        out.update({"good-null": [1, None, [9, 0]], "good-gid": [1, gid, [10, 1]], "major0": [1, None, [0, 0]], "major11": [1, None, [11, 0]],
                    "major1": [1, None, [1, 2**64 - 1]], "minor-big": [1, None, [9, 2**64]], "minor-neg": [1, None, [9, -1]],
                    "version-arity1": [1, None, [9]], "version-arity3": [1, None, [9, 0, 1]], "version-int": [1, None, 5],
                    "version-indef": [1, None, R.IndefList([9, 0])], "version-text": [1, None, ["9", 0]], "version-null2": [1, None, [9, None]],
                    "major-true": [1, None, [True, 0]], "major-false": [1, None, [False, 0]], "minor-true": [1, None, [9, True]],
                    "major-simple": [1, None, [SV5, 0]], "major-bignum": [1, None, [R.Tag(2, b"\x09"), 0]],
                    "arity1": [1], "arity2": [1, None], "arity2-bad": [1, 5], "arity0": [], "arity4": [1, None, [9, 0], 7],
                    "code0": [0, None, [9, 0]], "code2": [2, None, [9, 0]], "code-true": [True, None, [9, 0]], "code-simple1": [SV1, None, [9, 0]],
                    "code-text": ["1", None, [9, 0]], "code-null": [None, None, [9, 0]],
                    "prev-int": [1, 5, [9, 0]], "prev-false": [1, False, [9, 0]], "prev-undefined": [1, UNDEF, [9, 0]],
                    "prev-ix-big": [1, [H32, 70000], [9, 0]], "prev-arity1": [1, [H32], [9, 0]], "prev-txid-short": [1, [H32[:3], 0], [9, 0]],
                    "prev-indef": [1, R.IndefList(gid), [9, 0]], "prev-bad-version-bad": [1, 5, [0, 0]],
                    "prev-crash-version-deser": [1, [H32], 5], "indef": R.IndefList([1, None, [9, 0]]), "top-map": R.Map([]), "top-null": None})
    elif cls == "poolid":
        good = B32.encode("pool", H28)
        out.update({"good": good, "upper": good.upper(), "bytes": good.encode(), "int": 5, "null": None, "list": [good],
                    "empty": "", "prefix-only": "pool", "other-hrp": B32.encode("stake", H28), "bad-checksum": good[:-1] + ("q" if good[-1] != "q" else "p"),
                    "bech32m": B32.encode("pool", H28, B32.BECH32M), "non-ascii": "poolé1qqqqqq", "space": "pool 1qqqqqq",
                    "long-hrp": B32.encode("pool_vk", H28), "empty-data": B32.encode("pool", b""),
                    "near-prefix-poo": B32.encode("poo", H28), "near-prefix-pol": B32.encode("pol", H28), "near-prefix-ool": B32.encode("ool", H28),
                    "near-prefix-ppool": B32.encode("ppool", H28), "no-separator": "poolqqqqqqqq", "two-separators": B32.encode("pool1x", H28)})
    return out


# ------------------------------------------------------------------------------- random primitives near the valid shapes
PLAIN_ATOMS = [0, 1, 2, 3, 4, 5, 9, 10, 11, 23, 24, 255, 256, 65535, 65536, -1, -2, 2**63, 2**64 - 1, True, False, None, H28, G28,
               H32, G32, b"", H28[:27], H32[:31], H28 + b"\x00", "", "u", "x" * 28, "x" * 32, H32.hex(), H28.hex(), "zz"]
# atoms whose Python object is written back in another form (bignum -> int, chunks -> bytes): the model normalises them where
# the library stores them directly, not inside an ill-typed container payload (documented deviation), so they are only used as
# leaves of the base shapes
LEAF_ATOMS = [BIG1, R.Tag(2, b"\x04"), R.Tag(3, b"\x00"), R.Tag(2, b"\x01" + bytes(8)), R.Chunked([H28[:14], H28[14:]]),
              R.Chunked([H32[:1], H32[1:]]), R.Chunked([]), Raw(b"\x18\x01"), Raw(b"\x19\x00\x04"), SV0, SV1, SV2, SV4, SV5, SV19,
              SV32, SV255, UNDEF, R.Tag(99, H28), R.Tag(24, b"\x00")]


def rand_plain(rng, depth=2):
    r = rng.random()
    if depth <= 0 or r < 0.7:
        return rng.choice(PLAIN_ATOMS)
    if r < 0.85:
        return [rand_plain(rng, depth - 1) for _ in range(rng.choice([0, 1, 2, 3, 28, 32]))]
    if r < 0.92:
        return R.IndefList([rand_plain(rng, depth - 1) for _ in range(rng.choice([0, 1, 2, 28]))])
    return R.Map([(i, rand_plain(rng, depth - 1)) for i in range(rng.choice([0, 1, 2, 28, 32]))])


def pynorm(x):
    """the primitive up to Python equality (`True == 1`, `CBORSimpleValue(n) == n`, a bignum tag is an int, chunks are bytes):
    cbor2 collapses map keys that are equal in this sense before the library sees them (documented deviation of the model),
    so the generator does not produce maps with such keys"""
    if isinstance(x, bool):
        return int(x)
    if isinstance(x, Raw):
        b = x.b
        if b == b"\xf7":
            return ("undefined",)
        if 0xE0 <= b[0] < 0xF4:
            return b[0] & 0x1F
        if b[0] == 0xF8:
            return b[1]
        return pynorm(R.dec(b))
    if isinstance(x, R.Tag):
        if x.tag == 2 and isinstance(x.value, bytes):
            return int.from_bytes(x.value, "big")
        if x.tag == 3 and isinstance(x.value, bytes):
            return -1 - int.from_bytes(x.value, "big")
        return ("tag", x.tag, pynorm(x.value))
    if isinstance(x, R.Chunked):
        return b"".join(x.chunks)
    if isinstance(x, (list, tuple)):
        return tuple(pynorm(i) for i in x)
    if isinstance(x, R.Map):
        return ("map", tuple((pynorm(k), pynorm(v)) for k, v in x.pairs))
    return x


def rand_leaf(rng, leaf_ok=True):
    return rng.choice(LEAF_ATOMS) if leaf_ok and rng.random() < 0.3 else rand_plain(rng)


def mutate_prim(rng, x, depth=0, leafd=1):
    """one random point mutation of a primitive: replace a node, drop / insert an element, change the framing.  `depth` of `x`
    below the top; nodes deeper than `leafd` only receive plain atoms (see LEAF_ATOMS)"""
    top = depth == 0
    ok_here = depth <= leafd            # may x itself be replaced by a leaf atom?
    ok_child = depth + 1 <= leafd
    if isinstance(x, R.Map):
        if not x.pairs or rng.random() < 0.15:
            # (a fresh text key: repeated keys are collapsed by cbor2 before the library sees them — documented deviation)
            return rand_leaf(rng, ok_here) if not top and rng.random() < 0.5 else R.Map(x.pairs + [("k%d" % len(x.pairs), rand_plain(rng, 1))])
        i = rng.randrange(len(x.pairs))
        k, v = x.pairs[i]
        r = rng.random()
        if r < 0.45 and isinstance(k, list):
            k2 = mutate_prim(rng, k, depth + 1, leafd)
            if all(pynorm(k2) != pynorm(o) for o, _ in x.pairs):
                k = k2
        elif r < 0.9:
            v = mutate_prim(rng, v, depth + 1, leafd)
        else:
            return R.Map(x.pairs[:i] + x.pairs[i + 1:])
        return R.Map(x.pairs[:i] + [(k, v)] + x.pairs[i + 1:])
    if isinstance(x, list):
        indef = isinstance(x, R.IndefList)
        wrap = (lambda l: R.IndefList(l)) if indef else (lambda l: list(l))
        r = rng.random()
        if r < 0.08:
            return R.IndefList(list(x)) if not indef else list(x)
        if r < 0.16 and not top:
            return rand_leaf(rng, ok_here)
        if not x or r < 0.26:
            j = rng.randrange(len(x) + 1)
            return wrap(list(x[:j]) + [rand_leaf(rng, ok_child)] + list(x[j:]))
        i = rng.randrange(len(x))
        if r < 0.36:
            return wrap(list(x[:i]) + list(x[i + 1:]))
        return wrap(list(x[:i]) + [mutate_prim(rng, x[i], depth + 1, leafd)] + list(x[i + 1:]))
    return rand_leaf(rng, ok_here)


def fuzz_prim(cls, rng, base=None):
    """a primitive one to three point mutations away from a shape of `malformed(cls)` (or of `base`)"""
    base = base or malformed(cls)
    x = base[rng.choice(sorted(base))]
    if isinstance(x, Raw):
        return x
    for _ in range(rng.choice([1, 1, 2, 3])):
        x = mutate_prim(rng, x, 0, 2 if cls in ("votes", "vps") else 1)
        if isinstance(x, Raw):
            break
    return x
