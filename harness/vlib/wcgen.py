"""Generators, constructors, reference trees and JSON images for the witness-side codecs (shared by
checks/c01_ext_witnesscodec.py and checks/c02_ext_witnesscodec.py).

A *spec* is plain Python content (ints, bytes, lists, dicts) drawn from a seeded `random.Random`; from it are built
  * the pycardano object through the PUBLIC constructors (`build_*`),
  * the reference CBOR tree for ref/cbor_ref.py, written from the Conway CDDL (`ref_*`; nothing of pycardano in it),
  * the JSON image the Lean driver ops `wc.*` take (`j_*`), and from a pycardano object the image the driver returns
    (`dump_*`), so that model and implementation are compared as JSON values.
Leaves (native script, bootstrap witness, Plutus data) cross to the model as the CBOR the implementation wrote."""
from __future__ import annotations

import cbor2
from cbor2 import CBORTag

from pycardano import hash as H
from pycardano import key as K
from pycardano import nativescript as NS
from pycardano import plutus as P
from pycardano import witness as W
from pycardano.exception import DeserializeException, InvalidKeyTypeException
from pycardano.serialization import IndefiniteList, NonEmptyOrderedSet, OrderedSet, default_encoder

from ref import cbor_ref as R

EXT = "witnesscodec"

BOUND = [0, 1, 23, 24, 255, 256, 65535, 65536, 2**32 - 1, 2**32, 2**63 - 1, 2**64 - 1]
BEYOND = [2**64, 2**64 + 1, 3 * 2**70]
KEY_CLASSES = [K.Key, K.SigningKey, K.VerificationKey, K.ExtendedSigningKey, K.ExtendedVerificationKey,
               K.PaymentSigningKey, K.PaymentVerificationKey, K.PaymentExtendedSigningKey, K.PaymentExtendedVerificationKey,
               K.StakeSigningKey, K.StakeVerificationKey, K.StakeExtendedSigningKey, K.StakeExtendedVerificationKey,
               K.StakePoolSigningKey, K.StakePoolVerificationKey]
KEY_BY_NAME = {c.__name__: c for c in KEY_CLASSES}
VKEY_CLASSES = [K.VerificationKey, K.PaymentVerificationKey, K.StakeVerificationKey, K.StakePoolVerificationKey]
XVKEY_CLASSES = [K.ExtendedVerificationKey, K.PaymentExtendedVerificationKey, K.StakeExtendedVerificationKey]
WS_FIELDS = ["vkeys", "native", "bootstrap", "v1", "datums", "redeemers", "v2", "v3"]      # wire keys 0..7
WS_ATTR = {"vkeys": "vkey_witnesses", "native": "native_scripts", "bootstrap": "bootstrap_witness", "v1": "plutus_v1_script",
           "datums": "plutus_data", "redeemers": "redeemer", "v2": "plutus_v2_script", "v3": "plutus_v3_script"}
REBUILT = ["vkeys", "native", "v1", "v2", "v3"]          # TransactionWitnessSet.__post_init__
SCRIPT_CLS = {"v1": P.PlutusV1Script, "v2": P.PlutusV2Script, "v3": P.PlutusV3Script}


def classify(e):
    if isinstance(e, InvalidKeyTypeException):
        return "badtype"
    return "deser" if isinstance(e, DeserializeException) else "crash"


def rb(rng, n):
    return bytes(rng.getrandbits(8) for _ in range(n))


def leaf_hex(x):
    """the CBOR the implementation writes for a leaf object"""
    return cbor2.dumps(x, default=default_encoder).hex()


# ------------------------------------------------------------------------------------------------- images of objects
def dump_prim(x):
    if isinstance(x, int) and not isinstance(x, bool):
        return {"i": str(x)}
    if isinstance(x, bytes):
        return {"b": x.hex()}
    return {"x": leaf_hex(x)}


def dump_key(k):
    return {"cls": type(k).__name__, "payload": bytes(k.payload).hex(), "type": k.key_type, "desc": k.description}


def dump_vkw(w):
    return {"vkey": dump_key(w.vkey), "sig": dump_prim(w.signature)}


def dump_ex(e):
    return None if e is None else {"mem": str(e.mem), "steps": str(e.steps)}


def dump_redeemer(r):
    return {"tag": None if r.tag is None else str(r.tag.value), "index": dump_prim(r.index), "data": leaf_hex(r.data),
            "ex": dump_ex(r.ex_units)}


def dump_redeemers(rs):
    if rs is None:
        return None
    if isinstance(rs, P.RedeemerMap):
        return {"map": [[{"tag": str(k.tag.value), "index": str(k.index)}, {"data": leaf_hex(v.data), "ex": dump_ex(v.ex_units)}]
                        for k, v in rs.data.items()]}
    return {"list": [dump_redeemer(r) for r in rs]}


def dump_coll(c, f):
    if c is None:
        return None
    if isinstance(c, OrderedSet):
        return {"oset": [bool(c._use_tag), [f(e) for e in c]]}
    return {"list": [f(e) for e in c]}


ELEM_DUMP = {"vkeys": dump_vkw, "native": leaf_hex, "bootstrap": leaf_hex, "v1": lambda b: bytes(b).hex(), "datums": leaf_hex,
             "v2": lambda b: bytes(b).hex(), "v3": lambda b: bytes(b).hex()}


def dump_ws(ws):
    out = {}
    for f in WS_FIELDS:
        v = getattr(ws, WS_ATTR[f])
        out[f] = dump_redeemers(v) if f == "redeemers" else dump_coll(v, ELEM_DUMP[f])
    return out


# ------------------------------------------------------------------------------------------------- Plutus data leaves
def gen_data(rng, depth=1):
    """(primitive as pycardano's encoder takes it, reference tree); ledger framing: non-empty lists indefinite"""
    k = rng.choice(["int", "int", "bytes", "constr", "constr", "list", "map"] if depth > 0 else ["int", "bytes", "constr0"])
    if k == "int":
        n = rng.choice(BOUND + BEYOND) if rng.random() < 0.7 else rng.randint(0, 10**6)
        n = -1 - n if rng.random() < 0.25 else n
        return n, n
    if k == "bytes":
        b = rb(rng, rng.choice([0, 1, 28, 32, 63, 64]))
        return b, b
    if k == "constr0":
        t = rng.choice([121, 122, 127])
        return CBORTag(t, []), R.Tag(t, [])
    if k == "constr":
        t = rng.choice([121, 122, 123, 127, 1280, 1400])
        xs = [gen_data(rng, depth - 1) for _ in range(rng.choice([0, 1, 2, 3]))]
        if not xs:
            return CBORTag(t, []), R.Tag(t, [])
        return CBORTag(t, IndefiniteList([x[0] for x in xs])), R.Tag(t, R.IndefList([x[1] for x in xs]))
    if k == "list":
        xs = [gen_data(rng, depth - 1) for _ in range(rng.choice([1, 2, 3]))]
        return IndefiniteList([x[0] for x in xs]), R.IndefList([x[1] for x in xs])
    keys = rng.sample([0, 1, 23, 24, -1, 256], rng.choice([0, 1, 2]))
    vals = [gen_data(rng, 0) for _ in keys]
    return {a: v[0] for a, v in zip(keys, vals)}, R.Map([(a, v[1]) for a, v in zip(keys, vals)])


def redeemer_data_obj(prim):
    """the object a decoded redeemer holds for this primitive (`Redeemer.from_primitive`: a tag becomes RawPlutusData)"""
    return P.RawPlutusData(prim) if isinstance(prim, CBORTag) else prim


def datum_obj(prim):
    """the object a decoded witness set holds for this primitive (`_restore_datum`)"""
    return P.RawPlutusData(prim)


# ------------------------------------------------------------------------------------------------- keys, vkey witnesses
def gen_text(rng):
    return rng.choice(["Custom", "x", 'q"uote\\back', "é✓ text", "line\nbreak", "PaymentSigningKeyShelley_ed25519", " "])


def gen_key_spec(rng, classes=None):
    cls = rng.choice(classes or KEY_CLASSES)
    n = rng.choice([0, 1, 28, 32, 32, 32, 33, 64, 64, 96, 128])
    t = rng.choice([None, None, None, "", gen_text(rng), cls.KEY_TYPE or None])
    d = rng.choice([None, None, None, "", gen_text(rng)])
    return {"cls": cls.__name__, "payload": rb(rng, n), "type": t, "desc": d}


def build_key(s):
    return KEY_BY_NAME[s["cls"]](s["payload"], s["type"], s["desc"])


def j_key_args(s):
    return {"cls": s["cls"], "payload": s["payload"].hex(), "type": s["type"], "desc": s["desc"]}


def gen_vkw_spec(rng, plain=0.5):
    """plain: probability of a `VerificationKey(payload)` with the default envelope; otherwise extended keys, role-specific
    keys, the exact-class key with a typed envelope that `SigningKey.to_verification_key()` returns, or any key class"""
    r = rng.random()
    if r < plain:
        key = {"cls": "VerificationKey", "payload": rb(rng, 32), "type": None, "desc": None}
    elif r < plain + 0.2:
        key = gen_key_spec(rng, XVKEY_CLASSES)
        key["payload"] = rb(rng, rng.choice([64, 64, 64, 32, 40, 96]))
    elif r < plain + 0.4:
        key = gen_key_spec(rng, VKEY_CLASSES)
        key["payload"] = rb(rng, rng.choice([32, 32, 32, 64, 0, 28]))
    elif r < plain + 0.55:
        t = rng.choice(["PaymentVerificationKeyShelley_ed25519", "StakeVerificationKeyShelley_ed25519", "StakePoolVerificationKey_ed25519"])
        key = {"cls": "VerificationKey", "payload": rb(rng, 32), "type": t, "desc": t}      # = sk.to_verification_key()
    else:
        key = gen_key_spec(rng)
    q = rng.random()
    sig = rb(rng, 64) if q < 0.8 else rb(rng, rng.choice([0, 63, 65])) if q < 0.95 else rng.choice([5, "text", None])
    return {"key": key, "sig": sig}


def build_vkw(s):
    return W.VerificationKeyWitness(build_key(s["key"]), s["sig"])


def ref_vkw(s):
    """vkeywitness = [vkey, signature]; an extended key is represented by its first 32 bytes"""
    p = s["key"]["payload"]
    if issubclass(KEY_BY_NAME[s["key"]["cls"]], K.ExtendedVerificationKey):
        p = p[:32]
    return [p, s["sig"]]


def vkw_serializable(s):
    return issubclass(KEY_BY_NAME[s["key"]["cls"]], (K.VerificationKey, K.ExtendedVerificationKey)) and isinstance(s["sig"], bytes)


def vkw_is_verification(s):
    """the key classes `__post_init__` reduces to the plain `VerificationKey` (and `validate` accepts)"""
    return issubclass(KEY_BY_NAME[s["key"]["cls"]], (K.VerificationKey, K.ExtendedVerificationKey))


# ------------------------------------------------------------------------------------------------- redeemers
def gen_int(rng, neg=0.0, beyond=0.1):
    r = rng.random()
    n = rng.choice(BEYOND) if r < beyond else rng.choice(BOUND) if r < 0.75 else rng.randint(0, 10**7)
    return -1 - n if rng.random() < neg else n


def gen_redeemer_spec(rng, tagged=0.9, cddl=False):
    d = gen_data(rng)
    ex = None if (not cddl and rng.random() < 0.12) else [gen_int(rng, 0 if cddl else 0.05, 0 if cddl else 0.1),
                                                           gen_int(rng, 0 if cddl else 0.05, 0 if cddl else 0.1)]
    ix = rng.choice(BOUND[:9]) if cddl else gen_int(rng, 0.05)
    tag = rng.randrange(6) if (cddl or rng.random() < tagged) else None
    return {"tag": tag, "index": ix, "data": d, "ex": ex}


def build_redeemer(s):
    r = P.Redeemer(redeemer_data_obj(s["data"][0]), None if s["ex"] is None else P.ExecutionUnits(*s["ex"]))
    if s["tag"] is not None:
        r.tag = P.RedeemerTag(s["tag"])      # `tag` / `index` are init=False fields: assignment is the public way
    r.index = s["index"]
    return r


def ref_redeemer(s):
    return [s["tag"], s["index"], s["data"][1], s["ex"]]


def j_redeemer(s, obj):
    return {"tag": s["tag"], "index": dump_prim(s["index"]), "data": leaf_hex(obj.data),
            "ex": None if s["ex"] is None else {"mem": str(s["ex"][0]), "steps": str(s["ex"][1])}}


def gen_redeemers_spec(rng, cddl=False, n=None):
    form = rng.choice(["list", "map"])
    if n is None:
        n = rng.choice([0, 1, 1, 2, 2, 3, 4]) if not cddl else rng.choice([1, 1, 2, 3, 4])
        if rng.random() < 0.04:
            n = rng.choice([23, 24, 25, 256])
    items, seen = [], set()
    for _ in range(n):
        s = gen_redeemer_spec(rng, tagged=1.0 if form == "map" else 0.93, cddl=cddl)
        if form == "map" and s["ex"] is None:
            s["ex"] = [gen_int(rng), gen_int(rng)]
        # equal index under different tags, equal tag under different indices: on purpose
        if items and rng.random() < 0.35:
            s["index"] = rng.choice(items)["index"]
        if (s["tag"], s["index"]) in seen:
            continue
        seen.add((s["tag"], s["index"]))
        items.append(s)
    return {"form": form, "items": items}


def build_redeemers(s):
    if s["form"] == "list":
        return [build_redeemer(i) for i in s["items"]]
    m = P.RedeemerMap()
    for i in s["items"]:
        m[P.RedeemerKey(P.RedeemerTag(i["tag"]), i["index"])] = P.RedeemerValue(redeemer_data_obj(i["data"][0]), P.ExecutionUnits(*i["ex"]))
    return m


def ref_redeemers(s, form=None):
    """[+ [tag, index, data, ex_units]] / {+ [tag, index] => [data, ex_units]} (map entries in canonical key order)"""
    form = form or s["form"]
    if form == "list":
        return [ref_redeemer(i) for i in s["items"]]
    return R.sorted_map([([i["tag"], i["index"]], [i["data"][1], i["ex"]]) for i in s["items"]])


def j_redeemers(s, obj):
    if s["form"] == "list":
        return {"list": [j_redeemer(i, o) for i, o in zip(s["items"], obj)]}
    return {"map": [[{"tag": i["tag"], "index": str(i["index"])},
                     {"data": leaf_hex(redeemer_data_obj(i["data"][0])), "ex": {"mem": str(i["ex"][0]), "steps": str(i["ex"][1])}}]
                    for i in s["items"]]}


# ------------------------------------------------------------------------------------------------- native scripts, bootstrap
def gen_native(rng, depth=2):
    k = rng.choice(["pubkey", "pubkey", "all", "any", "nofk", "before", "after"] if depth > 0 else ["pubkey", "before", "after"])
    if k == "pubkey":
        h = rb(rng, 28)
        return NS.ScriptPubkey(H.VerificationKeyHash(h)), [0, h]
    if k in ("all", "any"):
        xs = [gen_native(rng, depth - 1) for _ in range(rng.choice([0, 1, 2]))]
        cls, code = (NS.ScriptAll, 1) if k == "all" else (NS.ScriptAny, 2)
        return cls([x[0] for x in xs]), [code, [x[1] for x in xs]]
    if k == "nofk":
        xs = [gen_native(rng, depth - 1) for _ in range(rng.choice([1, 2]))]
        n = rng.choice([0, 1, 2])
        return NS.ScriptNofK(n, [x[0] for x in xs]), [3, n, [x[1] for x in xs]]
    n = rng.choice(BOUND)
    return (NS.InvalidBefore(n), [4, n]) if k == "before" else (NS.InvalidHereAfter(n), [5, n])


def gen_bootstrap(rng):
    b = [rb(rng, 32), rb(rng, 64), rb(rng, 32), rng.choice([b"\xa0", b"", rb(rng, 30)])]
    return list(b), list(b)


# ------------------------------------------------------------------------------------------------- witness sets
def gen_count(rng, allow_empty=True):
    r = rng.random()
    if r < 0.03 and allow_empty:
        return 0
    if r < 0.07:
        return rng.choice([23, 24, 25])
    return rng.choice([1, 1, 1, 2, 2, 3, 4])


def gen_container(rng):
    """how the elements are handed to the constructor: list | OrderedSet | NonEmptyOrderedSet, with / without the tag"""
    k = rng.choice(["list", "list", "oset", "neset", "neset"])
    return {"kind": k, "tag": True if k == "list" else rng.random() < 0.6}


def wrap(container, elems):
    if container["kind"] == "list":
        return list(elems)
    cls = OrderedSet if container["kind"] == "oset" else NonEmptyOrderedSet
    return cls(list(elems), use_tag=container["tag"])


def gen_ws_spec(rng, mask, cddl=False, big=None):
    """mask bit i set = wire key i present.  Elements are (object, reference tree) pairs; a repetition now and then."""
    s = {}
    for i, f in enumerate(WS_FIELDS):
        if not (mask >> i) & 1:
            continue
        if f == "redeemers":
            s[f] = gen_redeemers_spec(rng, cddl=cddl)
            continue
        n = gen_count(rng, allow_empty=not cddl)
        if big == f:
            n = 256
        if f == "vkeys":
            specs = [gen_vkw_spec(rng, plain=0.75) for _ in range(n)]
            if cddl:
                for v in specs:             # 32-byte keys of the verification-key classes, or 64-byte extended ones
                    if rng.random() < 0.3:
                        v["key"] = {"cls": rng.choice([c.__name__ for c in XVKEY_CLASSES]), "payload": rb(rng, 64), "type": None, "desc": None}
                    else:
                        v["key"] = {"cls": rng.choice(["VerificationKey", "PaymentVerificationKey", "StakeVerificationKey",
                                                       "StakePoolVerificationKey"]), "payload": rb(rng, 32), "type": None, "desc": None}
                    v["sig"] = rb(rng, 64)
            elems = [(sp, ref_vkw(sp)) for sp in specs]
        elif f == "native":
            elems = [gen_native(rng) for _ in range(n)]
        elif f == "bootstrap":
            elems = [gen_bootstrap(rng) for _ in range(n)]
        elif f == "datums":
            elems = [gen_data(rng) for _ in range(n)]
        else:
            elems = [(b, b) for b in (rb(rng, rng.choice([1, 3, 24, 100])) for _ in range(n))]
        if elems and not cddl and rng.random() < 0.15:
            elems.insert(rng.randrange(len(elems) + 1), rng.choice(elems))        # a repeated element
        s[f] = {"container": gen_container(rng), "elems": elems}
    return s


def build_elems(f, elems):
    if f == "vkeys":
        return [build_vkw(e[0]) for e in elems]
    if f == "datums":
        return [datum_obj(e[0]) for e in elems]
    if f in SCRIPT_CLS:
        return [SCRIPT_CLS[f](e[0]) for e in elems]
    return [e[0] for e in elems]


def build_ws(s):
    kw, args = {}, {}
    for f in WS_FIELDS:
        if f not in s:
            continue
        if f == "redeemers":
            kw[WS_ATTR[f]] = build_redeemers(s[f])
        else:
            kw[WS_ATTR[f]] = wrap(s[f]["container"], build_elems(f, s[f]["elems"]))
    for name, v in kw.items():          # the image of the ARGUMENTS (a set has already dropped its own repetitions)
        f = next(k for k, a in WS_ATTR.items() if a == name)
        args[f] = dump_redeemers(v) if f == "redeemers" else dump_coll(v, ELEM_DUMP[f])
    return W.TransactionWitnessSet(**kw), args


def distinct_refs(trees):
    out, seen = [], set()
    for t in trees:
        b = R.enc(t)
        if b not in seen:
            seen.add(b)
            out.append(t)
    return out


def ref_ws(s, forms=None):
    """the CDDL tree of the content: keys ascending; a set is `#6.258([..])` or `[..]` as `forms[f]` says (default: the
    five fields the constructor rebuilds are tagged, the others as the container handed over says); a set holds each
    element once (first occurrence)"""
    pairs = []
    for i, f in enumerate(WS_FIELDS):
        if f not in s:
            continue
        if f == "redeemers":
            pairs.append((i, ref_redeemers(s[f], (forms or {}).get(f))))
            continue
        c = s[f]["container"]
        is_set = f in REBUILT or c["kind"] != "list"
        tagged = (forms or {}).get(f, True if f in REBUILT else (c["kind"] != "list" and c["tag"]))
        trees = [e[1] for e in s[f]["elems"]]
        if is_set or tagged:
            trees = distinct_refs(trees)
        pairs.append((i, R.Tag(258, trees) if tagged else trees))
    return R.Map(pairs)


def ws_serializable(s):
    """what `validate` asks: no empty NonEmptyOrderedSet (the five rebuilt fields always are one), serializable vkey
    witnesses, int redeemer indices (always, here)"""
    for f in WS_FIELDS:
        if f not in s or f == "redeemers":
            continue
        c = s[f]["container"]
        if not s[f]["elems"] and (f in REBUILT or c["kind"] == "neset"):
            return False
        if f == "vkeys" and not all(vkw_serializable(e[0]) for e in s[f]["elems"]):
            return False
    return True
