"""Builder scenarios: a JSON-serialisable description of a chain context, a wallet, a sequence of TransactionBuilder
calls and the build arguments; `run(sc)` executes it against pycardano and returns everything the builder properties
(C06-C13, C17) observe.  All key material, addresses, scripts and datums are derived deterministically from short
labels, so a scenario replays exactly."""
from __future__ import annotations

import copy
import hashlib
import random
from fractions import Fraction
from typing import Dict, List, Union

import pycardano as pc
from pycardano import (
    PointerAddress, Address, Asset, AssetName, ExecutionUnits, MultiAsset, Network, PaymentExtendedSigningKey,
                       PaymentSigningKey, PlutusV1Script, PlutusV2Script, PlutusV3Script, RawPlutusData, Redeemer,
                       ScriptAll, ScriptAny, ScriptHash, ScriptNofK, ScriptPubkey, StakeSigningKey,
                       TransactionBuilder, TransactionInput, TransactionOutput, UTxO, Value, Withdrawals, script_hash)
from pycardano.backend.base import ChainContext, GenesisParameters, ProtocolParameters
from pycardano.certificate import (Anchor, DRep, DRepCredential, DRepKind, PoolRegistration, PoolRetirement, RegDRepCert,
                                   StakeAndVoteDelegation, StakeCredential, StakeDelegation, StakeDeregistration,
                                   StakeDeregistrationConway, StakeRegistration, StakeRegistrationAndDelegation,
                                   StakeRegistrationAndDelegationAndVoteDelegation, StakeRegistrationAndVoteDelegation,
                                   StakeRegistrationConway, UnregDRepCertificate, UpdateDRepCertificate, VoteDelegation)
from pycardano.coinselection import LargestFirstSelector, RandomImproveMultiAsset
from pycardano.exception import (InsufficientUTxOBalanceException, InvalidArgumentException, InvalidDataException,
                                 InvalidTransactionException, TransactionBuilderException, UTxOSelectionException)
from pycardano.governance import (GovActionId, InfoAction, NoConfidence, ProposalProcedure, Vote, Voter, VoterType,
                                  VotingProcedure)
from pycardano.hash import AnchorDataHash, PoolKeyHash, TransactionId, VerificationKeyHash, VrfKeyHash
from pycardano.metadata import AlonzoMetadata, AuxiliaryData, Metadata
from pycardano.serialization import NonEmptyOrderedSet

NET = Network.TESTNET

DEFAULT_PARAMS = {
    "a": [44, 1], "b": [155381, 1], "max_tx_size": 16384, "key_deposit": 2000000, "pool_deposit": 500000000,
    "price_mem": [577, 10000], "price_step": [721, 10000000], "max_mem": 10000000, "max_steps": 10000000000,
    "max_val_size": 5000, "collateral_percent": 150, "max_collateral_inputs": 3, "cpb": 4310,
    "ref": {"base": [44, 1], "range": 25600, "mult": [6, 5], "max": 200000},
    "cost_models": {"PlutusV1": 5, "PlutusV2": 7, "PlutusV3": 9},
}


def H(label: str, n: int = 32) -> bytes:
    return hashlib.blake2b(label.encode(), digest_size=n).digest()


def frac(x):
    return Fraction(int(x[0]), int(x[1]))


# ---- key material ---------------------------------------------------------------------------------------------
_key_cache: Dict[str, object] = {}


def skey(label: str):
    """label 'kN' ordinary payment key, 'xN' extended payment key, 'sN' stake key"""
    if label in _key_cache:
        return _key_cache[label]
    if label.startswith("x"):
        from pycardano.crypto.bip32 import HDWallet
        hd = HDWallet.from_seed(H("seed/" + label, 64).hex()).derive_from_path("m/1852'/1815'/0'/0/0")
        k = PaymentExtendedSigningKey.from_hdwallet(hd)
    elif label.startswith("s"):
        k = StakeSigningKey.from_primitive(H("key/" + label))
    else:
        k = PaymentSigningKey.from_primitive(H("key/" + label))
    _key_cache[label] = k
    return k


def vkh(label: str) -> VerificationKeyHash:
    return skey(label).to_verification_key().hash()


def plutus_script(name: str):
    """'p1:foo' / 'p2:foo' / 'p3:foo' -> PlutusVnScript with deterministic bytes"""
    ver, tag = name.split(":", 1)
    # a tag containing '=' gives the SAME bytes under every language and role ('p1:m=x', 'p2:=x': equal bytes, different hashes)
    key = tag[tag.index("="):] if "=" in tag else None
    body = H("script/" + (key or name), 40) + bytes([len(key or tag) % 7])
    return {"p1": PlutusV1Script, "p2": PlutusV2Script, "p3": PlutusV3Script}[ver](body)


def native_script(spec):
    """['pk', label] | ['all', [...]] | ['any', [...]] | ['nofk', n, [...]]"""
    k = spec[0]
    if k == "pk":
        return ScriptPubkey(vkh(spec[1]))
    if k == "all":
        return ScriptAll([native_script(s) for s in spec[1]])
    if k == "any":
        return ScriptAny([native_script(s) for s in spec[1]])
    if k == "nofk":
        return ScriptNofK(spec[1], [native_script(s) for s in spec[2]])
    raise ValueError(k)


def any_script(spec):
    if isinstance(spec, str):
        return plutus_script(spec)
    return native_script(spec)


def address(spec) -> Address:
    """'k0' enterprise key address; 'k0+s1' base address; ['script', scriptspec] script enterprise address;
    ['script', scriptspec, 's1'] script base address"""
    def stake(x):
        # 's1' key stake credential | 'ptr' stake pointer | ['script', scriptspec] script stake credential
        if x == "ptr":
            return PointerAddress(2498243, 27, 3)
        if isinstance(x, list) and x[0] == "script":
            return script_hash(any_script(x[1]))
        return vkh(x)
    if isinstance(spec, str):
        if "+" in spec:
            p, s = spec.split("+")
            return Address(vkh(p), stake(s), NET)
        return Address(vkh(spec), network=NET)
    if spec[0] == "script":
        sh = script_hash(any_script(spec[1]))
        return Address(sh, stake(spec[2]) if len(spec) > 2 else None, NET)
    if spec[0] == "key":           # ['key', 'k0', ['script', scriptspec]]: key payment credential, script stake credential
        return Address(vkh(spec[1]), stake(spec[2]) if len(spec) > 2 else None, NET)
    raise ValueError(spec)


def addr_key(spec) -> str:
    return spec if isinstance(spec, str) else repr(spec)


def datum(spec):
    """int | ['bytes', hex] | ['constr', id, [..]] | ['list', [...]]  -> a Datum object"""
    if isinstance(spec, int):
        return spec
    k = spec[0]
    if k == "bytes":
        return bytes.fromhex(spec[1])
    if k == "constr":
        from cbor2 import CBORTag
        from pycardano.serialization import IndefiniteList
        cid = spec[1]
        fields = [prim_datum(f) for f in spec[2]]
        body = IndefiniteList(fields) if fields else []
        tag = 121 + cid if cid < 7 else 1280 + cid - 7
        return RawPlutusData(CBORTag(tag, body))
    raise ValueError(k)


def prim_datum(spec):
    if isinstance(spec, int):
        return spec
    if spec[0] == "bytes":
        return bytes.fromhex(spec[1])
    d = datum(spec)
    return d.data if isinstance(d, RawPlutusData) else d


def multi_asset(assets) -> MultiAsset:
    """assets = [[policy_hex | scriptspec, name_hex, qty], ...]"""
    m = MultiAsset()
    for p, n, q in assets:
        ph = ScriptHash(bytes.fromhex(p)) if isinstance(p, str) and len(p) == 56 and all(c in "0123456789abcdef" for c in p) \
            else script_hash(any_script(p))
        if ph not in m:
            m[ph] = Asset()
        m[ph][AssetName(bytes.fromhex(n))] = int(q)
    return m


def mk_output(o) -> TransactionOutput:
    out = TransactionOutput(address(o["addr"]), Value(int(o["coin"]), multi_asset(o.get("assets", []))),
                            post_alonzo=bool(o.get("post_alonzo", False)))
    if o.get("datum_hash") is not None:
        out.datum_hash = pc.datum_hash(datum(o["datum_hash"]))
    if o.get("inline_datum") is not None:
        out.datum = datum(o["inline_datum"])
    if o.get("script") is not None:
        out.script = any_script(o["script"])
    return out


def mk_utxo(u) -> UTxO:
    return UTxO(TransactionInput(TransactionId(bytes.fromhex(u["txid"])), int(u["ix"])), mk_output(u))


# ---- chain context ----------------------------------------------------------------------------------------------
class StubContext(ChainContext):
    def __init__(self, sc):
        p = {**DEFAULT_PARAMS, **sc.get("params", {})}
        self.p = p
        ref = p.get("ref")
        # FRAME parameters: protocol parameters the builder / fee / min-ADA code under verification must NOT depend on
        # (`min_utxo` and `coins_per_utxo_word` belong to the pre-Alonzo rule, the rest to consensus).  They are varied
        # with the scenario (a function of its content, so a replay sees the same values): a change that makes the
        # code read one of them — a "sensible default" taken from the wrong parameter — then shows in every oracle.
        import hashlib, json as _json
        hb = hashlib.blake2b(_json.dumps([sc.get("params", {}), [u.get("id") for u in sc.get("utxos", [])][:4],
                                          sc.get("frame")], sort_keys=True, default=str).encode(), digest_size=8).digest()
        frame_min_utxo = [1000000, 0, 1, 4310, 34482, 65535, 65536, 999978, 2 ** 32, 1000000, 5000000][hb[0] % 11]
        frame_word = [34482, 0, 1, 4310, 8620, 2 ** 20][hb[1] % 6]
        frame_pool_cost = [340000000, 0, 170000000][hb[2] % 3]
        frame_minor = hb[3] % 3
        # the NETWORK is a configuration axis too: every address of the scenario (wallet, outputs, change, reward accounts)
        # is built for the network the context reports; a quarter of the scenarios run on mainnet
        global NET
        NET = Network.MAINNET if (sc.get("net") == 1 or (sc.get("net") is None and hb[4] % 4 == 0)) else Network.TESTNET
        self.frame = {"min_utxo": frame_min_utxo, "coins_per_utxo_word": frame_word, "min_pool_cost": frame_pool_cost,
                      "network": int(NET.value)}
        self._pp = ProtocolParameters(
            min_fee_constant=frac(p["b"]) if frac(p["b"]).denominator != 1 else int(frac(p["b"])),
            min_fee_coefficient=frac(p["a"]) if frac(p["a"]).denominator != 1 else int(frac(p["a"])),
            max_block_size=73728, max_tx_size=int(p["max_tx_size"]), max_block_header_size=1100,
            key_deposit=int(p["key_deposit"]), pool_deposit=int(p["pool_deposit"]), pool_influence=Fraction(3, 10),
            treasury_expansion=Fraction(1, 5), monetary_expansion=Fraction(3, 1000), decentralization_param=0,
            extra_entropy="", protocol_major_version=9, protocol_minor_version=frame_minor, min_utxo=frame_min_utxo,
            min_pool_cost=frame_pool_cost, price_mem=frac(p["price_mem"]), price_step=frac(p["price_step"]),
            max_tx_ex_mem=int(p["max_mem"]), max_tx_ex_steps=int(p["max_steps"]), max_block_ex_mem=50000000,
            max_block_ex_steps=40000000000, max_val_size=int(p["max_val_size"]),
            collateral_percent=int(p["collateral_percent"]), max_collateral_inputs=int(p["max_collateral_inputs"]),
            coins_per_utxo_word=frame_word, coins_per_utxo_byte=int(p["cpb"]),
            cost_models={k: {f"p{i:03d}": i * 3 + 1 for i in range(n)} for k, n in p.get("cost_models", {}).items()},
            min_fee_reference_scripts=None if ref is None else {"base": frac(ref["base"]), "range": int(ref["range"]),
                                                                "multiplier": frac(ref["mult"])},
            maximum_reference_scripts_size=None if ref is None else {"bytes": int(ref["max"])},
        )
        self._slot = int(sc.get("slot", 2000))
        self.utxo_objs = {u["id"]: mk_utxo(u) for u in sc.get("utxos", [])}
        self.addr_utxos = {k: [self.utxo_objs[i] for i in ids] for k, ids in sc.get("address_utxos", {}).items()}
        self._by_addr = {}
        for k, lst in sc.get("address_utxos", {}).items():
            a = address(eval(k) if k.startswith("[") else k)
            self._by_addr[str(a)] = [self.utxo_objs[i] for i in lst]
        self.eval_units = sc.get("eval_units", [399882, 175940720])
        self.evaluated = []

    @property
    def protocol_param(self):
        return self._pp

    @property
    def genesis_param(self):
        return GenesisParameters(active_slots_coefficient=Fraction(1, 20), update_quorum=5,
                                 max_lovelace_supply=45000000000000000, network_magic=1, epoch_length=432000,
                                 system_start=1506203091, slots_per_kes_period=129600, slot_length=1,
                                 max_kes_evolutions=62, security_param=2160)

    @property
    def network(self):
        return NET

    @property
    def epoch(self):
        return 300

    @property
    def last_block_slot(self):
        return self._slot

    def _utxos(self, address: str) -> List[UTxO]:
        # the SAME list object on every call, holding the same UTxO objects (what a caching backend returns): a builder
        # that sorts or pops the list it is handed damages the caller's pool, and the list snapshots of `run` show it
        return self._by_addr.setdefault(address, [])

    def submit_tx_cbor(self, cbor):
        pass

    def evaluate_tx_cbor(self, cbor) -> Dict[str, ExecutionUnits]:
        tx = pc.Transaction.from_cbor(cbor)
        self.evaluated.append(bytes(cbor) if not isinstance(cbor, str) else bytes.fromhex(cbor))
        out = {}
        rs = tx.transaction_witness_set.redeemer
        items = []
        if rs is None:
            return out
        if isinstance(rs, list):
            items = [(r.tag, r.index) for r in rs]
        else:
            items = [(k.tag, k.index) for k in rs]
        for j, (tag, idx) in enumerate(items):
            out[f"{tag.name.lower()}:{idx}"] = ExecutionUnits(self.eval_units[0] + 1000 * j, self.eval_units[1] + 7919 * j)
        return out


# ---- certificates -------------------------------------------------------------------------------------------------
def cred(label) -> StakeCredential:
    if isinstance(label, str):
        return StakeCredential(vkh(label))
    return StakeCredential(script_hash(any_script(label[1])))


def mk_cert(c):
    k = c["kind"]
    pool = PoolKeyHash(H("pool/" + c.get("pool", "p"), 28))
    drep = DRep(DRepKind.ALWAYS_ABSTAIN)
    coin = int(c.get("coin", 0))
    if k == "stake_reg":
        return StakeRegistration(cred(c["cred"]))
    if k == "stake_dereg":
        return StakeDeregistration(cred(c["cred"]))
    if k == "stake_deleg":
        return StakeDelegation(cred(c["cred"]), pool)
    if k == "reg_conway":
        return StakeRegistrationConway(cred(c["cred"]), coin)
    if k == "dereg_conway":
        return StakeDeregistrationConway(cred(c["cred"]), coin)
    if k == "vote_deleg":
        return VoteDelegation(cred(c["cred"]), drep)
    if k == "stake_vote_deleg":
        return StakeAndVoteDelegation(cred(c["cred"]), pool, drep)
    if k == "reg_deleg":
        return StakeRegistrationAndDelegation(cred(c["cred"]), pool, coin)
    if k == "reg_vote_deleg":
        return StakeRegistrationAndVoteDelegation(cred(c["cred"]), drep, coin)
    if k == "reg_deleg_vote":
        return StakeRegistrationAndDelegationAndVoteDelegation(cred(c["cred"]), pool, drep, coin)
    if k == "reg_drep":
        return RegDRepCert(DRepCredential(cred(c["cred"]).credential), coin, None)
    if k == "unreg_drep":
        return UnregDRepCertificate(DRepCredential(cred(c["cred"]).credential), coin)
    if k == "update_drep":
        return UpdateDRepCertificate(DRepCredential(cred(c["cred"]).credential), None)
    if k == "pool_retire":
        return PoolRetirement(PoolKeyHash(bytes(vkh(c["cred"]).payload)), 400)
    if k == "pool_reg":
        from pycardano.pool_params import PoolParams
        pp = PoolParams(operator=PoolKeyHash(bytes(vkh(c["cred"]).payload)), vrf_keyhash=VrfKeyHash(H("vrf", 32)),
                        pledge=100, cost=340000000, margin=Fraction(1, 10),
                        reward_account=pc.hash.RewardAccountHash(b"\xe0" + bytes(vkh(c["cred"]).payload)),
                        pool_owners=[vkh(c["cred"])], relays=None, pool_metadata=None)
        return PoolRegistration(pp)
    raise ValueError(k)


# ---- building ---------------------------------------------------------------------------------------------------------
ERR = [
    (UTxOSelectionException, "selection"), (InsufficientUTxOBalanceException, "selection"),
    (InvalidTransactionException, "invalid-tx"), (TransactionBuilderException, "builder"),
    (InvalidArgumentException, "invalid-arg"), (InvalidDataException, "invalid-data"),
]


def classify(e: Exception) -> str:
    for cls, name in ERR:
        if isinstance(e, cls):
            return name
    if isinstance(e, (ValueError, TypeError)):
        return "value-error"
    if isinstance(e, AssertionError):
        return "assert"
    return "crash:" + type(e).__name__


class Run:
    """everything observable about one scenario execution"""

    def __init__(self):
        self.error = None          # enum or None
        self.error_stage = None
        self.exc = None
        self.body = None
        self.tx = None
        self.builder = None
        self.context = None
        self.pool_snapshot_before = None
        self.pool_snapshot_after = None
        self.lists_before = None   # the caller's pools as sequences, taken after the add_* calls and before build()
        self.lists_after = None
        self.redeemer_objs = {}    # op index -> Redeemer object handed to the builder
        self.attached = []         # what was attached to what (for C11): dicts


def selectors(spec):
    out = []
    for s in spec:
        if s[0] == "largest":
            out.append(LargestFirstSelector())
        elif s[0] == "random":
            out.append(RandomImproveMultiAsset())
        elif s[0] == "random-stream":
            out.append(RandomImproveMultiAsset(list(s[1])))
    return out


def redeemer(spec):
    """{'data': datum spec, 'units': [mem, steps] | None}"""
    d = datum(spec.get("data", 0))
    if spec.get("units") is not None:
        return Redeemer(d, ExecutionUnits(int(spec["units"][0]), int(spec["units"][1])))
    return Redeemer(d)


def snapshot(ctxobj: StubContext):
    return {k: u.to_cbor().hex() for k, u in ctxobj.utxo_objs.items()}


def _ref(u):
    return [bytes(u.input.transaction_id.payload).hex(), int(u.input.index)]


def list_snapshot(b, cx: StubContext):
    """the caller's POOLS as sequences (order and multiplicity): the potential and excluded lists handed to the builder and
    every list the chain context hands out"""
    d = {"potential": [_ref(u) for u in b.potential_inputs], "excluded": [_ref(u) for u in b.excluded_inputs]}
    for a, lst in cx._by_addr.items():
        d["context:" + a] = [_ref(u) for u in lst]
    return d


def lists_changed(r):
    """names of the caller's pools whose sequence differs before / after build()"""
    if r.lists_before is None or r.lists_after is None:
        return []
    return sorted(k for k in r.lists_before if r.lists_before[k] != r.lists_after.get(k))


EXTRA_OPS = {}   # op name -> callable(builder, context, op, run, idx): checks may register further builder calls here


def apply_op(b: TransactionBuilder, cx: StubContext, o, run: Run, idx: int):
    k = o["op"]
    if k == "add_input":
        b.add_input(cx.utxo_objs[o["u"]])
    elif k == "potential":
        b.potential_inputs.append(cx.utxo_objs[o["u"]])
    elif k == "exclude":
        b.excluded_inputs.append(cx.utxo_objs[o["u"]])
    elif k == "add_input_address":
        b.add_input_address(address(o["a"]))
    elif k == "add_output":
        b.add_output(mk_output(o))
    elif k == "mint":
        b.mint = multi_asset(o["assets"]) if b.mint is None else b.mint + multi_asset(o["assets"])
    elif k == "withdraw":
        if b.withdrawals is None:
            b.withdrawals = Withdrawals()
        if "script" in o:
            ra = Address(staking_part=script_hash(any_script(o["script"])), network=NET)
        else:
            ra = Address(staking_part=vkh(o["stake"]), network=NET)
        b.withdrawals[bytes(ra)] = int(o["amount"])
    elif k == "cert":
        if b.certificates is None:
            b.certificates = []
        b.certificates.append(mk_cert(o))
    elif k == "pool_initial":
        b.initial_stake_pool_registration = True
    elif k == "proposal":
        ra = bytes(Address(staking_part=vkh(o.get("stake", "s9")), network=NET))
        action = InfoAction() if o.get("action", "info") == "info" else NoConfidence(None)
        b.add_proposal(int(o["deposit"]), ra, action, Anchor("https://x.y/" + str(idx), AnchorDataHash(H("anchor", 32))))
    elif k == "donation":
        b.add_treasury_donation(int(o["amount"]))
    elif k == "treasury_value":
        b.current_treasury_value = int(o["amount"])
    elif k == "vote":
        t = {"drep": VoterType.DREP, "pool": VoterType.STAKING_POOL, "cc": VoterType.COMMITTEE_HOT}[o.get("type", "drep")]
        voter = Voter(vkh(o["cred"]), t)
        b.add_vote(voter, GovActionId(TransactionId(H("gov/" + str(o.get("n", 0)), 32)), 0), Vote.YES)
    elif k == "metadata":
        b.auxiliary_data = AuxiliaryData(AlonzoMetadata(metadata=Metadata({int(o.get("label", 674)): o.get("value", "hi")})))
    elif k == "native_script":
        if b.native_scripts is None:
            b.native_scripts = []
        b.native_scripts.append(native_script(o["script"]))
    elif k == "required_signer":
        if b.required_signers is None:
            b.required_signers = []
        b.required_signers.append(vkh(o["key"]))
    elif k == "ttl":
        b.ttl = int(o["v"])
    elif k == "validity_start":
        b.validity_start = int(o["v"])
    elif k == "collateral":
        b.collaterals.append(cx.utxo_objs[o["u"]])
    elif k == "witness_override":
        b.witness_override = int(o["n"])
    elif k == "fee_buffer":
        b.fee_buffer = int(o["n"])
    elif k == "script_input":
        r = redeemer(o["redeemer"]) if o.get("redeemer") is not None else None
        sc = None
        if o.get("script_in") == "witness":
            sc = any_script(o["script"])
        elif o.get("script_in") == "ref":
            sc = cx.utxo_objs[o["ref_utxo"]]
        d = datum(o["datum"]) if o.get("datum") is not None else None
        run.redeemer_objs[idx] = r
        b.add_script_input(cx.utxo_objs[o["u"]], sc, d, r)
    elif k == "minting_script":
        r = redeemer(o["redeemer"]) if o.get("redeemer") is not None else None
        run.redeemer_objs[idx] = r
        b.add_minting_script(cx.utxo_objs[o["ref_utxo"]] if o.get("script_in") == "ref" else any_script(o["script"]), r)
    elif k == "withdrawal_script":
        r = redeemer(o["redeemer"]) if o.get("redeemer") is not None else None
        run.redeemer_objs[idx] = r
        b.add_withdrawal_script(cx.utxo_objs[o["ref_utxo"]] if o.get("script_in") == "ref" else any_script(o["script"]), r)
    elif k == "certificate_script":
        r = redeemer(o["redeemer"]) if o.get("redeemer") is not None else None
        run.redeemer_objs[idx] = r
        b.add_certificate_script(cx.utxo_objs[o["ref_utxo"]] if o.get("script_in") == "ref" else any_script(o["script"]), r)
    elif k == "redeemer_list":
        b.use_redeemer_map = False
    elif k == "buffers":
        b.execution_memory_buffer = o["mem"]
        b.execution_step_buffer = o["steps"]
    elif k == "collateral_threshold":
        b.collateral_return_threshold = int(o["n"])
    elif k in EXTRA_OPS:
        EXTRA_OPS[k](b, cx, o, run, idx)
    else:
        raise ValueError("unknown op " + k)


def run(sc, sign=True) -> Run:
    r = Run()
    cx = StubContext(sc)
    r.context = cx
    bargs = sc.get("build", {})
    b = TransactionBuilder(cx)
    if "selectors" in bargs:
        b.utxo_selectors = selectors(bargs["selectors"])
    r.builder = b
    r.pool_snapshot_before = snapshot(cx)
    if "pyseed" in bargs:
        random.seed(bargs["pyseed"])
    try:
        for idx, o in enumerate(sc.get("ops", [])):
            apply_op(b, cx, o, r, idx)
    except Exception as e:
        r.error, r.error_stage, r.exc = classify(e), "ops", e
        return r
    kw = dict(change_address=address(bargs["change"]) if bargs.get("change") is not None else None,
              merge_change=bool(bargs.get("merge_change", False)))
    r.lists_before = list_snapshot(b, cx)
    if bargs.get("collateral_change") is not None:
        kw["collateral_change_address"] = address(bargs["collateral_change"])
    for k in ("auto_validity_start_offset", "auto_ttl_offset", "auto_required_signers"):
        if k in bargs:
            kw[k] = bargs[k]
    try:
        if sign and "sign" in sc:
            keys = [skey(l) for l in sc["sign"]]
            r.tx = b.build_and_sign(keys, force_skeys=bool(sc.get("force_skeys", False)), **kw)
            r.body = r.tx.transaction_body
        else:
            r.body = b.build(**kw)
    except Exception as e:
        r.error, r.error_stage, r.exc = classify(e), "build", e
    r.pool_snapshot_after = snapshot(cx)
    r.lists_after = list_snapshot(b, cx)
    return r
