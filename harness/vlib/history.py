"""Construction / use HISTORIES of one object: bytes and decoded objects must be functions of the content, whatever happened to the
object (or to an earlier decoding of the same bytes) before.

`edit(obj, rng)` applies ONE deterministic in-place edit somewhere in the object graph (append / delete on a nested list, an
attribute assignment on a NESTED dataclass instance, `pop` / `update` / `setdefault` through the dict interface of a
DictCBORSerializable) and returns a description, or None when the graph offers nothing to edit.  Applied with equal PRNG streams
to two equal objects it performs the same edit on both.

`encode_history(make, rng_seed)`: two equal objects x1, x2 (= make() twice); x1 is serialized FIRST, both receive the same edit,
then both are serialized: the outcomes (bytes, or the exception class) must agree — a serializer that keeps what it computed for an
earlier state of the object (a cached primitive, a remembered sort order) shows here, without any reference encoder.

`decode_history(cls, b, x0, rng_seed)`: the bytes are decoded, the result is edited in place, and the SAME bytes are decoded again:
the second result must equal the untouched original x0 and re-encode to b — a decoder that hands out shared or cached objects shows here."""
from __future__ import annotations

import copy
import dataclasses
import random
from collections import UserList


def _children(obj):
    """(holder, key, value) triples of the immediate sub-objects"""
    if dataclasses.is_dataclass(obj) and not isinstance(obj, type):
        for f in dataclasses.fields(obj):
            try:
                yield obj, ("attr", f.name), getattr(obj, f.name)
            except Exception:
                pass
    elif isinstance(obj, (list, UserList)):
        for i, v in enumerate(list(obj)):
            yield obj, ("item", i), v
    elif hasattr(obj, "data") and isinstance(getattr(obj, "data", None), dict):
        for k, v in list(obj.data.items()):
            yield obj, ("key", k), v
    elif isinstance(obj, dict):
        for k, v in list(obj.items()):
            yield obj, ("key", k), v


def _walk(obj, depth=0, seen=None, out=None, limit=400):
    seen = set() if seen is None else seen
    out = [] if out is None else out
    if id(obj) in seen or depth > 6 or len(out) > limit:
        return out
    seen.add(id(obj))
    out.append((depth, obj))
    for _, _, v in _children(obj):
        if isinstance(v, (int, str, bytes, type(None), bool, float)):
            continue
        _walk(v, depth + 1, seen, out, limit)
    return out


def edit(obj, rng):
    """one in-place edit of the object graph; returns its description or None"""
    nodes = _walk(obj)
    cands = []
    for depth, n in nodes:
        if isinstance(n, (list, UserList)) and not isinstance(n, (str, bytes)):
            if len(n) > 0:
                cands.append(("list-append", depth, n))
                cands.append(("list-del", depth, n))
        elif hasattr(n, "data") and isinstance(getattr(n, "data", None), dict) and hasattr(n, "to_shallow_primitive"):
            if len(n.data) > 0:
                cands.append(("dict-pop", depth, n))
                cands.append(("dict-update", depth, n))
                cands.append(("dict-setdefault", depth, n))
        if depth >= 1 and dataclasses.is_dataclass(n) and not isinstance(n, type):
            ints = [f.name for f in dataclasses.fields(n) if f.init and type(getattr(n, f.name, None)) is int]
            if ints:
                cands.append(("attr-int", depth, n, ints))
    if not cands:
        return None
    c = cands[rng.randrange(len(cands))]
    kind, depth, n = c[0], c[1], c[2]
    try:
        if kind == "list-append":
            n.append(copy.deepcopy(n[rng.randrange(len(n))]))
        elif kind == "list-del":
            del n[rng.randrange(len(n))]
        elif kind == "dict-pop":
            n.pop(list(n.data.keys())[rng.randrange(len(n.data))])
        elif kind == "dict-update":
            ks = list(n.data.keys())
            k1, k2 = ks[rng.randrange(len(ks))], ks[rng.randrange(len(ks))]
            n.update({k1: copy.deepcopy(n.data[k2])})
        elif kind == "dict-setdefault":
            ks = list(n.data.keys())
            k = ks[rng.randrange(len(ks))]
            v = n.data[k]
            n.pop(k)
            n.setdefault(k, v)          # same content, re-inserted last: only the insertion order changed
        elif kind == "attr-int":
            name = c[3][rng.randrange(len(c[3]))]
            setattr(n, name, getattr(n, name) + 1)
    except Exception as e:  # the same on both copies
        return f"{kind}@{depth}:{type(n).__name__}:raised {type(e).__name__}"
    return f"{kind}@{depth}:{type(n).__name__}"


def _ser(x):
    try:
        return ("ok", x.to_cbor().hex())
    except Exception as e:  # noqa: BLE001
        return ("raised", type(e).__name__)


def encode_history(make, seed):
    """returns None (nothing to edit / not serializable) or dict(edit=…, first=…, fresh=…, agree=bool)"""
    x1, x2 = make(), make()
    first = _ser(x1)
    if first[0] != "ok" or _ser(make())[1] != first[1]:
        return None                      # not serializable, or the generator is not deterministic for this class
    e1 = edit(x1, random.Random(seed))
    e2 = edit(x2, random.Random(seed))
    if e1 is None or e1 != e2:
        return None
    a, b = _ser(x1), _ser(x2)
    return {"edit": e1, "serialized_before": a, "fresh": b, "agree": a == b}


def decode_history(cls, b, x0, seed):
    """returns None or dict(edit=…, equal=bool, same_bytes=bool)"""
    try:
        y = cls.from_cbor(b)
    except Exception:
        return None
    e = edit(y, random.Random(seed))
    if e is None:
        return None
    try:
        y2 = cls.from_cbor(bytes(b))
        eq = bool(y2 == x0)
        sb = y2.to_cbor() == b
    except Exception as ex:  # noqa: BLE001
        return {"edit": e, "equal": False, "same_bytes": False, "error": f"{type(ex).__name__}: {str(ex)[:120]}"}
    return {"edit": e, "equal": eq, "same_bytes": sb}
