"""Conversions between pycardano Asset / MultiAsset / Value objects and the JSON image used by the model
driver, a dict-of-int reference ("the underlying map from asset to integer quantity"), and generators."""
from __future__ import annotations

from pycardano import Asset, AssetName, MultiAsset, ScriptHash, Value

POLICIES = [bytes([i + 1]) * 28 for i in range(6)]
# name lengths chosen so that length-first and bytewise order disagree
NAMES = [b"", b"\x00", b"b", b"a" * 2, b"\xff", b"Z" * 5, b"a" * 31 + b"b", b"\x01" * 32, b"aa\x00", b"c" * 24]
QTYS = [1, 2, 5, 23, 24, 255, 256, 65535, 65536, 2**32 - 1, 2**32, 2**63 - 1, 2**63, 2**64 - 1, 2**64, 2**64 + 7, 3 * 2**70]


def dump_asset(a):
    return [[bytes(k.payload).hex(), str(v)] for k, v in a.data.items()]


def dump_ma(m):
    return [[bytes(p.payload).hex(), dump_asset(a)] for p, a in m.data.items()]


def dump_value(v):
    return {"coin": str(v.coin), "ma": dump_ma(v.multi_asset)}


def load_asset(j):
    a = Asset()
    for n, q in j:
        a.data[AssetName(bytes.fromhex(n))] = int(q)
    return a


def load_ma(j):
    m = MultiAsset()
    for p, a in j:
        m.data[ScriptHash(bytes.fromhex(p))] = load_asset(a)
    return m


def load_value(j):
    return Value(int(j["coin"]), load_ma(j["ma"]))


def canon_ma(j):
    """order-free image of the *stored* entries (zero entries and empty policies stay visible)"""
    return sorted([p, sorted(a)] for p, a in j)


def canon_value(j):
    return {"coin": j["coin"], "ma": canon_ma(j["ma"])}


def content_ma(j):
    """dict-of-int abstraction: {(policy, name): qty} without zeros"""
    out = {}
    for p, a in j:
        for n, q in a:
            if int(q) != 0:
                out[(p, n)] = out.get((p, n), 0) + int(q)
    return out


def content_value(j):
    return int(j["coin"]), content_ma(j["ma"])


def is_normal_ma(j):
    return all(len(a) > 0 and all(int(q) != 0 for _, q in a) for _, a in j)


def content_to_ma_json(content, rng=None):
    """a normal MultiAsset JSON with the given content, in a (possibly shuffled) insertion order"""
    items = list(content.items())
    if rng:
        rng.shuffle(items)
    pol = {}
    for (p, n), q in items:
        if q != 0:
            pol.setdefault(p, []).append([n, str(q)])
    return [[p, a] for p, a in pol.items()]


def gen_qty(rng, negatives=True, zeros=False):
    r = rng.random()
    if zeros and r < 0.08:
        return 0
    q = rng.choice(QTYS) if rng.random() < 0.5 else rng.randint(1, 40)
    if negatives and rng.random() < 0.3:
        q = -q
    return q


def gen_ma_json(rng, npol=3, nname=4, negatives=True, zeros=False, empties=False, maxp=None, maxn=None):
    pols = rng.sample(POLICIES[:npol], rng.randint(0, maxp if maxp is not None else npol))
    out = []
    for p in pols:
        names = rng.sample(NAMES[:nname], rng.randint(0 if empties else 1, maxn if maxn is not None else nname))
        out.append([p.hex(), [[n.hex(), str(gen_qty(rng, negatives, zeros))] for n in names]])
    return out


def gen_value_json(rng, **kw):
    coin = rng.choice([0, 1, 1_000_000, 2**32, 2**64 + 1, rng.randint(0, 10**7)])
    if kw.get("negatives", True) and rng.random() < 0.15:
        coin = -coin
    return {"coin": str(coin), "ma": gen_ma_json(rng, **kw)}
