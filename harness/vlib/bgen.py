"""Generators of value-oriented builder scenarios (C06-C09): wallets, requested outputs, mint / burn, withdrawals,
certificates with deposits and refunds, proposals, donation, explicit / potential / excluded / address-selected
inputs, merge_change, protocol-parameter sets.  Every choice comes from the rng passed in."""
from __future__ import annotations

import hashlib

from vlib import scenario as S
from vlib import values as V

PARAM_SETS = [
    {},                                                                    # mainnet-like
    {"a": [44, 1], "b": [155381, 1], "cpb": 4310, "max_val_size": 300},
    {"a": [1, 1], "b": [100, 1], "cpb": 1000, "max_val_size": 150},           # small fee constants (width boundaries)
    {"a": [443, 10], "b": [1553811, 10], "cpb": 4310, "max_val_size": 5000},  # rational coefficients
    {"a": [500, 1], "b": [65000, 1], "cpb": 34482, "max_val_size": 1000, "key_deposit": 400000},
    {"a": [44, 1], "b": [155381, 1], "cpb": 0, "max_val_size": 5000},
]

TOKEN_POLICIES = [bytes([0xA0 + i]) * 28 for i in range(4)]
TOKEN_NAMES = [b"", b"t", b"tok2", b"\x00\x01", b"n" * 32, b"zz" * 8]
MINT_SCRIPTS = [["pk", "k7"], ["all", [["pk", "k7"], ["pk", "k8"]]], ["any", [["pk", "k9"]]]]


def txid(rng):
    return bytes(rng.randrange(256) for _ in range(32)).hex()


def gen_assets(rng, maxn=4, big=False):
    out = {}
    for _ in range(rng.randint(0, maxn)):
        p = rng.choice(TOKEN_POLICIES).hex()
        n = rng.choice(TOKEN_NAMES).hex()
        out[(p, n)] = rng.choice([1, 2, 5, 100, 10**6, 2**40]) if not big else rng.randint(1, 2**62)
    return [[p, n, str(q)] for (p, n), q in out.items()]


def gen_wallet(rng, n, addr="k0", ada_only=False, coin_lo=1_500_000, coin_hi=60_000_000, prefix="u"):
    out = []
    # 40% of the wallets hold several outputs of the same transaction(s), with indices on both sides of 10 / 24 / 100 /
    # 256 / 1000 (ordering by (txid, index) vs by text or by encoded bytes differs exactly there)
    shared = [txid(rng) for _ in range(rng.choice([1, 1, 2]))] if rng.random() < 0.4 else None
    used = set()
    for i in range(n):
        coin = rng.choice([rng.randint(coin_lo, coin_hi), 2_000_000, 5_000_000, 10_000_000, 100_000_000])
        if shared and rng.random() < 0.8:
            t = rng.choice(shared)
            free = [j for j in (0, 1, 2, 9, 10, 11, 23, 24, 99, 100, 101, 255, 256, 999, 1000, 65535, 65536) if (t, j) not in used]
            ix = rng.choice(free) if free else next(j for j in range(300, 400) if (t, j) not in used)
        else:
            t, ix = txid(rng), rng.choice([0, 0, 1, 2, 23, 24, 255, 256])
        used.add((t, ix))
        u = {"id": f"{prefix}{i}", "txid": t, "ix": ix, "addr": addr, "coin": coin}
        if not ada_only and rng.random() < 0.5:
            u["assets"] = gen_assets(rng)
        if rng.random() < 0.06:
            # a wallet that parks reference scripts at its own address: the UTxO carries a script (charged by the ledger's
            # reference-script fee when it is spent, however it got among the inputs)
            u["script"] = rng.choice(["p2:held", "p3:held2", ["pk", "k7"]])
        out.append(u)
    return out


def wallet_assets(utxos):
    tot = {}
    for u in utxos:
        for p, n, q in u.get("assets", []):
            tot[(p, n)] = tot.get((p, n), 0) + int(q)
    return tot


CERT_KINDS = ["stake_reg", "stake_dereg", "stake_deleg", "reg_conway", "dereg_conway", "vote_deleg", "stake_vote_deleg",
              "reg_deleg", "reg_vote_deleg", "reg_deleg_vote", "reg_drep", "unreg_drep", "update_drep", "pool_retire",
              "pool_reg"]


def gen_cert(rng):
    k = rng.choice(CERT_KINDS)
    c = {"op": "cert", "kind": k, "cred": rng.choice(["s1", "s2", "s3"])}
    if k in ("reg_conway", "dereg_conway", "reg_deleg", "reg_vote_deleg", "reg_deleg_vote", "reg_drep", "unreg_drep"):
        c["coin"] = rng.choice([2_000_000, 2_000_000, 500_000, 3_000_000])
    return c


def gen_value_scenario(rng, ada_only=None, plain=False):
    """returns a scenario dict; `plain` = no certificates / mint / withdrawals / governance (selection-focused)"""
    ada_only = rng.random() < 0.35 if ada_only is None else ada_only
    n = rng.randint(1, 12)
    if rng.random() < 0.03:
        n = rng.choice([24, 25, 30])          # an input set whose length does not fit the initial byte of its CBOR head
    utxos = gen_wallet(rng, n, "k0", ada_only)
    ids = [u["id"] for u in utxos]
    sc = {"params": dict(rng.choice(PARAM_SETS)), "utxos": utxos, "address_utxos": {}, "ops": [], "build": {}}
    ops = sc["ops"]
    # routes by which UTxOs reach the builder
    route = rng.choice(["address", "explicit", "mixed", "mixed", "potential"])
    rest = list(ids)
    rng.shuffle(rest)
    explicit = []
    if route in ("explicit", "mixed"):
        k = rng.randint(1, max(1, len(rest) // 2)) if route == "mixed" else len(rest)
        explicit, rest = rest[:k], rest[k:]
        for u in explicit:
            ops.append({"op": "add_input", "u": u})
    if route == "potential":
        for u in rest:
            ops.append({"op": "potential", "u": u})
    elif rest:
        sc["address_utxos"]["k0"] = sorted(rest, key=ids.index)
        ops.append({"op": "add_input_address", "a": "k0"})
        if rng.random() < 0.2 and len(rest) > 1:
            ops.append({"op": "exclude", "u": rng.choice(rest)})
    # requested outputs
    held = wallet_assets(utxos)
    total_coin = sum(u["coin"] for u in utxos)
    budget = total_coin // 3
    for _ in range(rng.randint(0, 3)):
        coin = rng.choice([1_000_000, 1_500_000, 2_000_000, rng.randint(1_000_000, max(1_000_001, budget))])
        o = {"op": "add_output", "addr": rng.choice(["k1", "k2", "k1+s1"]), "coin": coin}
        if held and rng.random() < 0.4:
            ks = rng.sample(list(held), min(len(held), rng.randint(1, 2)))
            o["assets"] = [[p, nme, str(rng.randint(1, max(1, held[(p, nme)] // 2)))] for p, nme in ks if held[(p, nme)] > 0]
        if rng.random() < 0.15:
            o["post_alonzo"] = True
        ops.append(o)
    if not plain:
        # mint / burn
        if rng.random() < 0.3:
            script = rng.choice(MINT_SCRIPTS)
            assets = [[script, rng.choice(TOKEN_NAMES).hex(), str(rng.choice([1, 7, 1000]))] for _ in range(rng.randint(1, 2))]
            assets = list({a[1]: a for a in assets}.values())
            ops.append({"op": "native_script", "script": script})
            ops.append({"op": "mint", "assets": assets})
        if rng.random() < 0.15 and held:
            # burn tokens that are held by explicitly added inputs (policy given as hex)
            cand = [(p, nme) for (p, nme) in held if any([p, nme] == a[:2] for u in utxos if u["id"] in explicit for a in u.get("assets", []))]
            if cand:
                p, nme = rng.choice(cand)
                have = sum(int(a[2]) for u in utxos if u["id"] in explicit for a in u.get("assets", []) if a[:2] == [p, nme])
                ops.append({"op": "mint", "assets": [[p, nme, str(-rng.randint(1, have))]]})
        for _ in range(rng.choice([0, 0, 1, 2])):
            ops.append({"op": "withdraw", "stake": rng.choice(["s1", "s2", "s3", "s4"]), "amount": rng.choice([0, 1, 10_000, 3_000_000])})
        for _ in range(rng.choice([0, 0, 0, 1, 2, 3])):
            ops.append(gen_cert(rng))
        if rng.random() < 0.1:
            ops.append({"op": "pool_initial"})
        if rng.random() < 0.12:
            ops.append({"op": "proposal", "deposit": rng.choice([1_000_000, 100_000_000])})
        if rng.random() < 0.1:
            ops.append({"op": "donation", "amount": rng.choice([1, 700_000, 5_000_000])})
        if rng.random() < 0.1:
            ops.append({"op": "metadata", "label": 674, "value": "x" * rng.randint(1, 60)})
    # withdraw keys appear once in Withdrawals (dict): drop repeated stake keys
    seen = set()
    dedup_ops = []
    for o in ops:
        if o["op"] == "withdraw":
            if o["stake"] in seen:
                continue
            seen.add(o["stake"])
        if o["op"] == "cert":
            # the same certificate twice for one credential is invalid on chain (second registration is refused)
            if (o["kind"], o["cred"]) in seen:
                continue
            seen.add((o["kind"], o["cred"]))
        dedup_ops.append(o)
    sc["ops"] = dedup_ops
    b = sc["build"]
    b["change"] = rng.choice(["k0", "k0", "k3", "k0+s1"])
    b["merge_change"] = rng.random() < 0.3
    if b["merge_change"] and rng.random() < 0.7:
        # an existing output at the change address
        sc["ops"].append({"op": "add_output", "addr": b["change"], "coin": rng.choice([0, 1_000_000, 2_000_000])})
    sel = rng.choice(["default", "largest", "random"])
    b["pyseed"] = rng.randrange(2**32)
    if sel == "largest":
        b["selectors"] = [["largest"]]
    elif sel == "random":
        b["selectors"] = [["random"]]
    return sc


def utxo_map(sc):
    return {(u["txid"], int(u["ix"])): (int(u["coin"]), {(p if isinstance(p, str) else S.script_hash(S.any_script(p)).payload.hex(), n): int(q)
                                                         for p, n, q in u.get("assets", [])}) for u in sc["utxos"]}


def gen_multiround(rng):
    """every UTxO carries ADA and the same token(s) in amounts comparable to the request (about a third of the wallet):
    the randomized strategy then runs one improvement round per asset over the same few candidates (repeated picks,
    bookkeeping across rounds).  Selector configuration through build.selectors."""
    n = rng.randint(4, 9)
    pol = rng.choice(TOKEN_POLICIES).hex()
    names = [x.hex() for x in rng.sample(list(TOKEN_NAMES), rng.choice([1, 1, 2]))]
    utxos = []
    coins = rng.choice([[2_000_000, 3_000_000, 4_000_000, 5_000_000], [2_000_000, 3_000_000, 5_000_000, 12_000_000, 50_000_000]])
    for i in range(n):
        u = {"id": f"u{i}", "txid": txid(rng), "ix": rng.choice([0, 1, 2]), "addr": "k0", "coin": rng.choice(coins)}
        a = [[pol, nm, str(rng.randint(1, 12))] for nm in names if rng.random() < 0.8]
        if a:
            u["assets"] = a
        utxos.append(u)
    ids = [u["id"] for u in utxos]
    sc = {"params": dict(rng.choice(PARAM_SETS[:2])), "utxos": utxos, "address_utxos": {"k0": ids}, "ops": [], "build": {}}
    if rng.random() < 0.5:
        sc["ops"].append({"op": "add_input_address", "a": "k0"})
    else:
        for u in ids:
            sc["ops"].append({"op": "potential", "u": u})
    total = sum(u["coin"] for u in utxos)
    held = wallet_assets(utxos)
    o = {"op": "add_output", "addr": "k1", "coin": max(total // rng.choice([4, 5, 6, 8]), 1_500_000)}
    if held:
        o["assets"] = [[p, nme, str(max(q // rng.choice([3, 4, 5]), 1))] for (p, nme), q in held.items()]
    sc["ops"].append(o)
    sel = rng.choice([[["random"]], [["random"], ["largest"]],
                      [["random-stream", [rng.choice([0, 0, 1, 2, rng.randrange(n)]) for _ in range(40)]]]])
    sc["build"] = {"change": "k0", "merge_change": False, "pyseed": rng.randrange(2**32), "selectors": sel}
    return sc
